//! Typed protocol items (C03 / C04 / C05 / C20): the composites of fe2o3-amqp-types against the
//! Lean model `Amqp.Typed`.
//!
//! For every list-encoded composite the translator found in the working tree
//! (`gen_typed.rs`: generator + field accessor, regenerated on every run) and for the unions
//! built from them (performatives, delivery states, outcomes, target archetypes):
//!   * random instances with every combination of present / absent / default-valued fields,
//!   * oracle on the implementation: round trip, size = length, slice = stream, value tree
//!     (`to_value` / `from_value`) = bytes, the bytes parsed by the reference decoder written
//!     from the specification give the fields of the value;
//!   * correspondence: the model's `encodeTyped`, `sizeTyped`, `toTree`, `decodeTyped` on the same
//!     typed value (as a tree of composites over untyped leaves) must give the same bytes, size,
//!     value tree and decoded value;
//!   * every variant a peer may choose at the composite level (descriptor by name, trailing
//!     nulls kept, defaults written out, one symbol for a one-element array), nested, re-encoded
//!     with random width variants: implementation and model must both read the original value;
//!   * corruptions of the encodings: no panic, bounded allocation, and where both the model and
//!     the implementation accept, the same value.

use std::fmt::Debug;

use serde::{de::DeserializeOwned, Serialize};
use serde_amqp::described::Described;
use serde_amqp::descriptor::Descriptor;
use serde_amqp::primitives::{Array, OrderedMap, Symbol, Timestamp, Uuid};
use serde_amqp::Value;
use serde_bytes::ByteBuf;
use serde_json::json;

use crate::codec::{gen_value, out_of_scope, show, tracked};
use crate::common::*;

pub mod paths {
    pub use fe2o3_amqp_types::definitions::*;
    pub use fe2o3_amqp_types::messaging::*;
    pub use fe2o3_amqp_types::performatives::*;
    pub use fe2o3_amqp_types::sasl::*;
    pub use fe2o3_amqp_types::transaction::*;
    pub use serde_amqp::primitives::*;
}
use paths::*;
use fe2o3_amqp_types::messaging::annotations::OwnedKey;

// ------------------------------------------------------------------------------- typed trees

/// a typed value as the model sees it: composites over untyped leaves
#[derive(Clone, Debug, PartialEq)]
pub enum TV {
    Absent,
    Leaf(Value),
    Comp(String, Vec<TV>),
}

pub trait Tree {
    fn tv(&self) -> TV;
}

pub trait Gen: Sized {
    fn generate(rng: &mut Rng, depth: u32) -> Self;
}

pub trait Typed: Tree + Gen {
    const RUST: &'static str;
    const NAME: &'static str;
    const CODE: u64;
    const NFIELDS: usize;
    fn slots(&self) -> Vec<TV>;
    fn default_slots() -> Vec<Option<TV>>;
}

pub fn show_tv(t: &TV) -> String {
    match t {
        TV::Absent => "-".into(),
        TV::Leaf(v) => format!("L{}", show(v)),
        TV::Comp(n, fs) => format!("C[{}|{}]", n, fs.iter().map(show_tv).collect::<Vec<_>>().join(";")),
    }
}

// ------------------------------------------------------------------------------- leaves

macro_rules! leaf {
    ($t:ty, |$x:ident| $e:expr, |$r:ident, $d:ident| $g:expr) => {
        impl Tree for $t {
            fn tv(&self) -> TV {
                let $x = self;
                TV::Leaf($e)
            }
        }
        impl Gen for $t {
            fn generate($r: &mut Rng, $d: u32) -> Self {
                let _ = $d;
                $g
            }
        }
    };
}

fn edge_u64(rng: &mut Rng, bits: u32) -> u64 {
    let max = if bits == 64 { u64::MAX } else { (1u64 << bits) - 1 };
    match rng.below(8) {
        0 => 0,
        1 => 1,
        2 => 255.min(max),
        3 => 256.min(max),
        4 => max,
        5 => max - 1,
        _ => rng.next() & max,
    }
}

fn gen_text(rng: &mut Rng) -> String {
    let len = match rng.below(12) {
        0 => 0,
        1 => 254,
        2 => 255,
        3 => 256,
        _ => rng.below(12) as usize,
    };
    let mut s = String::new();
    for _ in 0..len {
        let c = match rng.below(20) {
            0 => 'é',
            1 => '漢',
            2 => '🦀',
            _ => (b'a' + rng.below(26) as u8) as char,
        };
        s.push(c);
    }
    s
}

fn gen_ascii(rng: &mut Rng) -> String {
    let len = match rng.below(16) {
        0 => 0,
        1 => 255,
        _ => 1 + rng.below(10) as usize,
    };
    (0..len).map(|_| *rng.pick(&['a', 'b', 'q', ':', '-', 'x', 'm', 'p'])).collect()
}

leaf!(bool, |x| Value::Bool(*x), |rng, d| rng.chance(1, 2));
leaf!(u8, |x| Value::Ubyte(*x), |rng, d| edge_u64(rng, 8) as u8);
leaf!(u16, |x| Value::Ushort(*x), |rng, d| edge_u64(rng, 16) as u16);
leaf!(u32, |x| Value::Uint(*x), |rng, d| edge_u64(rng, 32) as u32);
leaf!(u64, |x| Value::Ulong(*x), |rng, d| edge_u64(rng, 64));
leaf!(String, |x| Value::String(x.clone()), |rng, d| gen_text(rng));
leaf!(Symbol, |x| Value::Symbol(x.clone()), |rng, d| Symbol::from(gen_ascii(rng)));
leaf!(ByteBuf, |x| Value::Binary(x.clone()), |rng, d| {
    let len = match rng.below(10) {
        0 => 0,
        1 => 255,
        _ => rng.below(9) as usize,
    };
    ByteBuf::from((0..len).map(|_| rng.next() as u8).collect::<Vec<u8>>())
});
leaf!(Timestamp, |x| Value::Timestamp(x.clone()), |rng, d| Timestamp::from_milliseconds(match rng.below(4) {
    0 => 0,
    1 => -1,
    2 => i64::MAX,
    _ => rng.next() as i64,
}));
leaf!(Handle, |x| Value::Uint(x.0), |rng, d| Handle(edge_u64(rng, 32) as u32));
leaf!(MaxFrameSize, |x| Value::Uint(x.0), |rng, d| MaxFrameSize(edge_u64(rng, 32) as u32));
leaf!(ChannelMax, |x| Value::Ushort(x.0), |rng, d| ChannelMax(edge_u64(rng, 16) as u16));
leaf!(Priority, |x| Value::Ubyte(x.0), |rng, d| Priority(if rng.chance(1, 3) { 4 } else { edge_u64(rng, 8) as u8 }));
leaf!(Role, |x| Value::Bool(matches!(x, Role::Receiver)), |rng, d| if rng.chance(1, 2) { Role::Sender } else { Role::Receiver });
leaf!(
    SenderSettleMode,
    |x| Value::Ubyte(match x {
        SenderSettleMode::Unsettled => 0,
        SenderSettleMode::Settled => 1,
        SenderSettleMode::Mixed => 2,
    }),
    |rng, d| rng.pick(&[SenderSettleMode::Unsettled, SenderSettleMode::Settled, SenderSettleMode::Mixed]).clone()
);
leaf!(
    ReceiverSettleMode,
    |x| Value::Ubyte(match x {
        ReceiverSettleMode::First => 0,
        ReceiverSettleMode::Second => 1,
    }),
    |rng, d| rng.pick(&[ReceiverSettleMode::First, ReceiverSettleMode::Second]).clone()
);
leaf!(
    SaslCode,
    |x| Value::Ubyte(match x {
        SaslCode::Ok => 0,
        SaslCode::Auth => 1,
        SaslCode::Sys => 2,
        SaslCode::SysPerm => 3,
        SaslCode::SysTemp => 4,
    }),
    |rng, d| rng.pick(&[SaslCode::Ok, SaslCode::Auth, SaslCode::Sys, SaslCode::SysPerm, SaslCode::SysTemp]).clone()
);
leaf!(
    TerminusDurability,
    |x| Value::Uint(match x {
        TerminusDurability::None => 0,
        TerminusDurability::Configuration => 1,
        TerminusDurability::UnsettledState => 2,
    }),
    |rng, d| rng.pick(&[TerminusDurability::None, TerminusDurability::Configuration, TerminusDurability::UnsettledState]).clone()
);
leaf!(
    TerminusExpiryPolicy,
    |x| Value::Symbol(Symbol::from(match x {
        TerminusExpiryPolicy::LinkDetach => "link-detach",
        TerminusExpiryPolicy::SessionEnd => "session-end",
        TerminusExpiryPolicy::ConnectionClose => "connection-close",
        TerminusExpiryPolicy::Never => "never",
    })),
    |rng, d| rng
        .pick(&[TerminusExpiryPolicy::LinkDetach, TerminusExpiryPolicy::SessionEnd, TerminusExpiryPolicy::ConnectionClose, TerminusExpiryPolicy::Never])
        .clone()
);
leaf!(
    DistributionMode,
    |x| Value::Symbol(Symbol::from(match x {
        DistributionMode::Move => "move",
        DistributionMode::Copy => "copy",
    })),
    |rng, d| rng.pick(&[DistributionMode::Move, DistributionMode::Copy]).clone()
);
leaf!(
    TxnCapability,
    |x| Value::Symbol(Symbol::from(match x {
        TxnCapability::LocalTransactions => "amqp:local-transactions",
        TxnCapability::DistributedTransactions => "amqp:distributed-transactions",
        TxnCapability::PromotableTransactions => "amqp:promotable-transactions",
        TxnCapability::MultiTxnsPerSsn => "amqp:multi-txns-per-ssn",
        TxnCapability::MultiSsnsPerTxn => "amqp:multi-ssns-per-txn",
    })),
    |rng, d| rng
        .pick(&[
            TxnCapability::LocalTransactions,
            TxnCapability::DistributedTransactions,
            TxnCapability::PromotableTransactions,
            TxnCapability::MultiTxnsPerSsn,
            TxnCapability::MultiSsnsPerTxn
        ])
        .clone()
);

/// the symbol an error condition is written as (part 2 §2.8.15–18, part 4 §4.5.8): written here from the
/// standard, independently of the tables in fe2o3-amqp-types
fn condition_symbol(c: &ErrorCondition) -> String {
    use fe2o3_amqp_types::transaction::TransactionError;
    match c {
        ErrorCondition::AmqpError(e) => match e {
            AmqpError::InternalError => "amqp:internal-error",
            AmqpError::NotFound => "amqp:not-found",
            AmqpError::UnauthorizedAccess => "amqp:unauthorized-access",
            AmqpError::DecodeError => "amqp:decode-error",
            AmqpError::ResourceLimitExceeded => "amqp:resource-limit-exceeded",
            AmqpError::NotAllowed => "amqp:not-allowed",
            AmqpError::InvalidField => "amqp:invalid-field",
            AmqpError::NotImplemented => "amqp:not-implemented",
            AmqpError::ResourceLocked => "amqp:resource-locked",
            AmqpError::PreconditionFailed => "amqp:precondition-failed",
            AmqpError::ResourceDeleted => "amqp:resource-deleted",
            AmqpError::IllegalState => "amqp:illegal-state",
            AmqpError::FrameSizeTooSmall => "amqp:frame-size-too-small",
        }
        .into(),
        ErrorCondition::ConnectionError(e) => match e {
            ConnectionError::ConnectionForced => "amqp:connection:forced",
            ConnectionError::FramingError => "amqp:connection:framing-error",
            ConnectionError::Redirect => "amqp:connection:redirect",
        }
        .into(),
        ErrorCondition::SessionError(e) => match e {
            SessionError::WindowViolation => "amqp:session:window-violation",
            SessionError::ErrantLink => "amqp:session:errant-link",
            SessionError::HandleInUse => "amqp:session:handle-in-use",
            SessionError::UnattachedHandle => "amqp:session:unattached-handle",
        }
        .into(),
        ErrorCondition::LinkError(e) => match e {
            LinkError::DetachForced => "amqp:link:detach-forced",
            LinkError::TransferLimitExceeded => "amqp:link:transfer-limit-exceeded",
            LinkError::MessageSizeExceeded => "amqp:link:message-size-exceeded",
            LinkError::Redirect => "amqp:link:redirect",
            LinkError::Stolen => "amqp:link:stolen",
        }
        .into(),
        ErrorCondition::TransactionError(e) => match e {
            TransactionError::UnknownId => "amqp:transaction:unknown-id",
            TransactionError::Rollback => "amqp:transaction:rollback",
            TransactionError::Timeout => "amqp:transaction:timeout",
        }
        .into(),
        ErrorCondition::Custom(s) => s.0.clone(),
    }
}

leaf!(ErrorCondition, |x| Value::Symbol(Symbol::from(condition_symbol(x))), |rng, d| {
    use fe2o3_amqp_types::transaction::TransactionError;
    match rng.below(7) {
        0 | 1 => ErrorCondition::AmqpError(
            rng.pick(&[
                AmqpError::InternalError,
                AmqpError::NotFound,
                AmqpError::UnauthorizedAccess,
                AmqpError::DecodeError,
                AmqpError::ResourceLimitExceeded,
                AmqpError::NotAllowed,
                AmqpError::InvalidField,
                AmqpError::NotImplemented,
                AmqpError::ResourceLocked,
                AmqpError::PreconditionFailed,
                AmqpError::ResourceDeleted,
                AmqpError::IllegalState,
                AmqpError::FrameSizeTooSmall,
            ])
            .clone(),
        ),
        2 => ErrorCondition::ConnectionError(rng.pick(&[ConnectionError::ConnectionForced, ConnectionError::FramingError, ConnectionError::Redirect]).clone()),
        3 => ErrorCondition::SessionError(rng.pick(&[SessionError::WindowViolation, SessionError::ErrantLink, SessionError::HandleInUse, SessionError::UnattachedHandle]).clone()),
        4 => ErrorCondition::LinkError(rng.pick(&[LinkError::DetachForced, LinkError::TransferLimitExceeded, LinkError::MessageSizeExceeded, LinkError::Redirect, LinkError::Stolen]).clone()),
        5 => ErrorCondition::TransactionError(rng.pick(&[TransactionError::UnknownId, TransactionError::Rollback, TransactionError::Timeout]).clone()),
        _ => ErrorCondition::Custom(Symbol::from(format!("x:{}", gen_ascii(rng)))),
    }
});


leaf!(
    MessageId,
    |x| match x {
        MessageId::Ulong(n) => Value::Ulong(*n),
        MessageId::Uuid(u) => Value::Uuid(u.clone()),
        MessageId::Binary(b) => Value::Binary(b.clone()),
        MessageId::String(s) => Value::String(s.clone()),
    },
    |rng, d| match rng.below(4) {
        0 => MessageId::Ulong(edge_u64(rng, 64)),
        1 => {
            let mut b = [0u8; 16];
            for x in b.iter_mut() {
                *x = rng.next() as u8;
            }
            MessageId::Uuid(Uuid::from(b))
        }
        2 => MessageId::Binary(ByteBuf::generate(rng, d)),
        _ => MessageId::String(gen_text(rng)),
    }
);

impl<T: Tree> Tree for Option<T> {
    fn tv(&self) -> TV {
        match self {
            None => TV::Absent,
            Some(x) => x.tv(),
        }
    }
}
impl<T: Gen> Gen for Option<T> {
    fn generate(rng: &mut Rng, depth: u32) -> Self {
        if rng.chance(2, 5) {
            None
        } else {
            Some(T::generate(rng, depth))
        }
    }
}
impl<T: Tree> Tree for Box<T> {
    fn tv(&self) -> TV {
        (**self).tv()
    }
}
impl<T: Gen> Gen for Box<T> {
    fn generate(rng: &mut Rng, depth: u32) -> Self {
        Box::new(T::generate(rng, depth))
    }
}

/// `multiple` fields: never the empty array (a zero-length array is read as null — the documented
/// normalisation of the derive macro, probed separately)
impl<T: Tree> Tree for Array<T> {
    fn tv(&self) -> TV {
        TV::Leaf(Value::Array(Array(
            self.0
                .iter()
                .map(|x| match x.tv() {
                    TV::Leaf(v) => v,
                    _ => Value::Null,
                })
                .collect(),
        )))
    }
}
impl<T: Gen> Gen for Array<T> {
    fn generate(rng: &mut Rng, depth: u32) -> Self {
        let n = 1 + rng.below(3) as usize;
        Array((0..n).map(|_| T::generate(rng, depth)).collect())
    }
}

fn gen_leaf_value(rng: &mut Rng) -> Value {
    // values inside maps: the untyped codec is C03's own subject; keep them in its scope
    loop {
        let v = gen_value(rng, 2, false);
        // long bodies are the untyped codec's matter (codec module); here they only slow the model down
        if out_of_scope(&v).is_none() && show(&v).len() <= 400 {
            return v;
        }
    }
}

impl Tree for OrderedMap<Symbol, Value> {
    fn tv(&self) -> TV {
        let mut m = OrderedMap::new();
        for (k, v) in self.iter() {
            m.insert(Value::Symbol(k.clone()), v.clone());
        }
        TV::Leaf(Value::Map(m))
    }
}
impl Gen for OrderedMap<Symbol, Value> {
    fn generate(rng: &mut Rng, _depth: u32) -> Self {
        let mut m = OrderedMap::new();
        for i in 0..rng.below(4) {
            m.insert(Symbol::from(format!("k{}{}", i, gen_ascii(rng))), gen_leaf_value(rng));
        }
        m
    }
}
impl Tree for OrderedMap<OwnedKey, Value> {
    fn tv(&self) -> TV {
        let mut m = OrderedMap::new();
        for (k, v) in self.iter() {
            let k = match k {
                OwnedKey::Symbol(s) => Value::Symbol(s.clone()),
                OwnedKey::Ulong(n) => Value::Ulong(*n),
            };
            m.insert(k, v.clone());
        }
        TV::Leaf(Value::Map(m))
    }
}
impl Gen for OrderedMap<OwnedKey, Value> {
    fn generate(rng: &mut Rng, _depth: u32) -> Self {
        let mut m = OrderedMap::new();
        for i in 0..rng.below(4) {
            let k = if rng.chance(1, 4) { OwnedKey::Ulong(i * 300 + rng.below(3)) } else { OwnedKey::Symbol(Symbol::from(format!("x-{}{}", i, gen_ascii(rng)))) };
            m.insert(k, gen_leaf_value(rng));
        }
        m
    }
}

// ------------------------------------------------------------------------------- registry (specification side)

/// what the harness knows of a composite: taken from the generated `Typed` impls
#[derive(Clone)]
pub struct Reg {
    pub name: &'static str,
    pub code: u64,
    pub nfields: usize,
    pub defaults: Vec<Option<TV>>,
}

pub fn registry() -> Vec<Reg> {
    let mut v = vec![];
    macro_rules! reg {
        ($t:ident) => {
            v.push(Reg { name: <$t as Typed>::NAME, code: <$t as Typed>::CODE, nfields: <$t as Typed>::NFIELDS, defaults: <$t as Typed>::default_slots() });
        };
    }
    crate::for_each_composite!(reg);
    v
}

fn reg_of<'a>(regs: &'a [Reg], name: &str) -> &'a Reg {
    regs.iter().find(|r| r.name == name).unwrap_or_else(|| panic!("composite {} is not registered", name))
}

/// choices of an encoding peer at the composite level
#[derive(Clone, Debug, Default)]
pub struct Choice {
    pub by_name: bool,
    pub pad: usize,
    pub explicit_defaults: bool,
    pub single_symbol: bool,
}

/// the value tree of a typed value under the given choices, written from the specification
/// (part 1 §1.3.5 / §1.4: described list, fields in order, null for an absent or default-valued
/// field, trailing nulls may be left out)
pub fn spec_tree(t: &TV, regs: &[Reg], rng: Option<&mut Rng>, note: &mut Vec<String>) -> Value {
    spec_tree_inner(t, regs, rng, note)
}

fn spec_tree_inner(t: &TV, regs: &[Reg], mut rng: Option<&mut Rng>, note: &mut Vec<String>) -> Value {
    match t {
        TV::Absent => Value::Null,
        TV::Leaf(v) => {
            if let (Some(r), Value::Array(a)) = (rng.as_deref_mut(), v) {
                if a.0.len() == 1 && matches!(a.0[0], Value::Symbol(_)) && r.chance(1, 3) {
                    note.push("single-symbol".into());
                    return a.0[0].clone();
                }
            }
            v.clone()
        }
        TV::Comp(name, fields) => {
            let reg = reg_of(regs, name);
            let mut ch = Choice::default();
            if let Some(r) = rng.as_deref_mut() {
                ch.by_name = r.chance(1, 3);
                ch.pad = if r.chance(1, 2) { r.below(reg.nfields as u64 + 1) as usize } else { 0 };
                ch.explicit_defaults = r.chance(1, 2);
            }
            let mut slots: Vec<Value> = vec![];
            for (i, f) in fields.iter().enumerate() {
                let v = spec_tree_inner(f, regs, rng.as_deref_mut(), note);
                let is_default = match (&reg.defaults.get(i).cloned().flatten(), f) {
                    (Some(d), f) => d == f,
                    _ => false,
                };
                if is_default {
                    let explicit = ch.explicit_defaults && rng.as_deref_mut().map(|r| r.chance(1, 2)).unwrap_or(false);
                    if explicit {
                        note.push(format!("{}[{}]:default-written-out", name, i));
                        slots.push(v);
                    } else {
                        slots.push(Value::Null);
                    }
                } else {
                    slots.push(v);
                }
            }
            while matches!(slots.last(), Some(Value::Null)) {
                slots.pop();
            }
            let room = reg.nfields.saturating_sub(slots.len());
            let pad = ch.pad.min(room);
            if pad > 0 {
                note.push(format!("{}:padded+{}", name, pad));
            }
            for _ in 0..pad {
                slots.push(Value::Null);
            }
            let descriptor = if ch.by_name {
                note.push(format!("{}:by-name", name));
                Descriptor::Name(Symbol::from(*&reg.name))
            } else {
                Descriptor::Code(reg.code)
            };
            Value::Described(Box::new(Described { descriptor, value: Value::List(slots) }))
        }
    }
}

// ------------------------------------------------------------------------------- unions

macro_rules! union_tree {
    ($t:ty { $($v:ident),* }) => {
        impl Tree for $t {
            fn tv(&self) -> TV {
                type U = $t;
                match self { $( U::$v(x) => x.tv(), )* }
            }
        }
    };
}
union_tree!(DeliveryState { Received, Accepted, Rejected, Released, Modified, Declared, TransactionalState });
union_tree!(Outcome { Accepted, Rejected, Released, Modified, Declared });
union_tree!(TargetArchetype { Target, Coordinator });
union_tree!(Performative { Open, Begin, Attach, Flow, Transfer, Disposition, Detach, End, Close });

impl Gen for DeliveryState {
    fn generate(rng: &mut Rng, d: u32) -> Self {
        match rng.below(7) {
            0 => DeliveryState::Received(Gen::generate(rng, d)),
            1 => DeliveryState::Accepted(Gen::generate(rng, d)),
            2 => DeliveryState::Rejected(Gen::generate(rng, d)),
            3 => DeliveryState::Released(Gen::generate(rng, d)),
            4 => DeliveryState::Modified(Gen::generate(rng, d)),
            5 => DeliveryState::Declared(Gen::generate(rng, d)),
            _ => DeliveryState::TransactionalState(Gen::generate(rng, d)),
        }
    }
}
impl Gen for Outcome {
    fn generate(rng: &mut Rng, d: u32) -> Self {
        match rng.below(5) {
            0 => Outcome::Accepted(Gen::generate(rng, d)),
            1 => Outcome::Rejected(Gen::generate(rng, d)),
            2 => Outcome::Released(Gen::generate(rng, d)),
            3 => Outcome::Modified(Gen::generate(rng, d)),
            _ => Outcome::Declared(Gen::generate(rng, d)),
        }
    }
}
impl Gen for TargetArchetype {
    fn generate(rng: &mut Rng, d: u32) -> Self {
        if rng.chance(3, 4) {
            TargetArchetype::Target(Gen::generate(rng, d))
        } else {
            TargetArchetype::Coordinator(Gen::generate(rng, d))
        }
    }
}
impl Gen for Performative {
    fn generate(rng: &mut Rng, d: u32) -> Self {
        match rng.below(9) {
            0 => Performative::Open(Gen::generate(rng, d)),
            1 => Performative::Begin(Gen::generate(rng, d)),
            2 => Performative::Attach(Gen::generate(rng, d)),
            3 => Performative::Flow(Gen::generate(rng, d)),
            4 => Performative::Transfer(Gen::generate(rng, d)),
            5 => Performative::Disposition(Gen::generate(rng, d)),
            6 => Performative::Detach(Gen::generate(rng, d)),
            7 => Performative::End(Gen::generate(rng, d)),
            _ => Performative::Close(Gen::generate(rng, d)),
        }
    }
}

/// the unsettled map of an attach: delivery-tag → delivery state or null
impl Tree for OrderedMap<ByteBuf, Option<DeliveryState>> {
    fn tv(&self) -> TV {
        let regs = registry();
        let mut m = OrderedMap::new();
        for (k, v) in self.iter() {
            let v = match v {
                None => Value::Null,
                Some(ds) => spec_tree(&ds.tv(), &regs, None, &mut vec![]),
            };
            m.insert(Value::Binary(k.clone()), v);
        }
        TV::Leaf(Value::Map(m))
    }
}
impl Gen for OrderedMap<ByteBuf, Option<DeliveryState>> {
    fn generate(rng: &mut Rng, d: u32) -> Self {
        let mut m = OrderedMap::new();
        for i in 0..rng.below(3) {
            m.insert(ByteBuf::from(vec![i as u8, rng.next() as u8]), Gen::generate(rng, d));
        }
        m
    }
}

// ------------------------------------------------------------------------------- the runs

struct Ctx<'a> {
    rng: Rng,
    report: &'a mut Report,
    regs: Vec<Reg>,
    lines: Vec<String>,
    expect: Vec<(String, String, serde_json::Value)>,
    prop: String,
    thorough: bool,
}

fn ty_token(names: &[&str]) -> String {
    format!("C{}", names.join("|"))
}

fn violation(ctx: &mut Ctx, key: &str, description: String, replay: serde_json::Value) {
    let prop = ctx.prop.clone();
    ctx.report.finding(Finding { kind: "violation", key: key.to_string(), description, replay: json!({"property": prop, "module": "typed", "case": replay}) });
}

fn model(ctx: &mut Ctx, line: String, expect: String, what: &str, replay: serde_json::Value) {
    ctx.lines.push(line);
    ctx.expect.push((expect, what.to_string(), replay));
}

fn case<T>(ctx: &mut Ctx, rust: &str, names: &[&str], x: &T)
where
    T: Tree + Serialize + DeserializeOwned + Debug + Clone,
{
    let tv = x.tv();
    let tvs = show_tv(&tv);
    let ty = ty_token(names);
    ctx.report.evaluations += 1;
    ctx.report.count(&format!("type:{}", rust));
    let replay = json!({"type": rust, "value": format!("{:?}", x), "tv": tvs});
    let bytes = match serde_amqp::to_vec(x) {
        Ok(b) => b,
        Err(e) => {
            violation(ctx, &format!("typed-encode-error:{}", rust), format!("to_vec fails for {:?}: {}", x, e), replay);
            return;
        }
    };
    ctx.report.nontrivial_case(fnv(&hex(&bytes)));
    // ---- C03: round trip on the implementation
    match serde_amqp::from_slice::<T>(&bytes) {
        Ok(y) if same(&y, x) => {}
        Ok(y) => violation(ctx, &format!("typed-roundtrip:{}", rust), format!("{} encoded as {} decodes to a different value: {:?} instead of {:?}", rust, hex(&bytes), y, x), replay.clone()),
        Err(e) => violation(ctx, &format!("typed-roundtrip:{}", rust), format!("{} encoded as {} does not decode: {} ({:?})", rust, hex(&bytes), e, x), replay.clone()),
    }
    // ---- C20: size, stream, value tree
    match serde_amqp::serialized_size(x) {
        Ok(n) if n == bytes.len() => {}
        r => violation(ctx, &format!("typed-size:{}", rust), format!("serialized_size = {:?} but the encoding of {:?} has {} bytes ({})", r, x, bytes.len(), hex(&bytes)), replay.clone()),
    }
    if bytes.len() <= 40 {
        // a retryable interruption reported by the stream at any read call must not change the result
        for at in 0..(bytes.len() + 3) {
            let rd = ChunkReader { data: &bytes, pos: 0, chunk: 1, interrupt_at: Some(at), calls: 0 };
            ctx.report.count("io_interrupted");
            match std::panic::catch_unwind(std::panic::AssertUnwindSafe(|| serde_amqp::from_reader::<T>(rd))).unwrap_or_else(|_| Err(serde::de::Error::custom("the stream decoder panicked / looped at the end of the input"))) {
                Ok(y) if same(&y, x) => {}
                r => {
                    violation(ctx, &format!("typed-io-vs-slice:interrupted-read:{}", rust), format!("from_reader (one byte at a time, read call {} interrupted once) gives {:?} for the encoding {} of {:?}", at, r.map(|y| format!("{:?}", y)), hex(&bytes), x), replay.clone());
                    break;
                }
            }
        }
    }
    for chunk in [1usize, 3, 64] {
        let rd = ChunkReader { data: &bytes, pos: 0, chunk, interrupt_at: None, calls: 0 };
        match std::panic::catch_unwind(std::panic::AssertUnwindSafe(|| serde_amqp::from_reader::<T>(rd))).unwrap_or_else(|_| Err(serde::de::Error::custom("the stream decoder panicked / looped at the end of the input"))) {
            Ok(y) if same(&y, x) => {}
            r => {
                violation(ctx, &format!("typed-io-vs-slice:{}", rust), format!("from_reader (chunks of {}) gives {:?} for the encoding of {:?}", chunk, r.map(|y| format!("{:?}", y)), x), replay.clone());
                break;
            }
        }
    }
    let as_value = serde_amqp::from_slice::<Value>(&bytes);
    match (&as_value, serde_amqp::to_value(x)) {
        (Ok(v), Ok(w)) if *v == w => {}
        (v, w) => violation(ctx, &format!("typed-to-value:{}", rust), format!("to_value({:?}) = {:?} but the bytes decode as a value to {:?}", x, w.map(|w| show(&w)), v.as_ref().map(show)), replay.clone()),
    }
    if let Ok(v) = &as_value {
        match serde_amqp::from_value::<T>(v.clone()) {
            Ok(y) if same(&y, x) => {}
            Ok(y) => violation(ctx, &format!("typed-from-value-wrong:{}", rust), format!("from_value of the value tree of {:?} gives {:?}", x, y), replay.clone()),
            Err(e) => {
                ctx.report.count("from_value:refused");
                violation(ctx, "from-value:described-composite-refused", format!("from_value::<{}> of the value tree {} (the tree to_value gives for {:?}) is refused: {}", rust, show(v), x, e), replay.clone())
            }
        }
    }
    // ---- C05: the bytes judged from the specification alone
    let mut none = vec![];
    let want = spec_tree(&tv, &ctx.regs, None, &mut none);
    match crate::specenc::ref_value(&bytes, 0) {
        Ok((text, used)) if used == bytes.len() => {
            let parsed = crate::codec::parse(&text);
            let same = parsed.as_ref().map(|p| normalise(p, &ctx.regs) == normalise(&want, &ctx.regs)).unwrap_or(false);
            if !same {
                violation(ctx, &format!("typed-encoding-not-the-value:{}", rust), format!("the bytes {} of {:?} are read by the reference decoder as {} and not as {}", hex(&bytes), x, text, show(&want)), replay.clone());
            }
        }
        Ok((_, used)) => violation(ctx, &format!("typed-encoding-not-well-formed:{}", rust), format!("the reference decoder uses {} of the {} bytes {}", used, bytes.len(), hex(&bytes)), replay.clone()),
        Err(e) => violation(ctx, &format!("typed-encoding-not-well-formed:{}", rust), format!("the reference decoder rejects {}: {}", hex(&bytes), e), replay.clone()),
    }
    // ---- correspondence with the model
    model(ctx, format!("G enc {}", tvs), hex(&bytes), "encodeTyped", replay.clone());
    model(ctx, format!("G size {}", tvs), bytes.len().to_string(), "sizeTyped", replay.clone());
    if let Ok(v) = &as_value {
        model(ctx, format!("G tree {}", tvs), show(v), "toTree", replay.clone());
    }
    model(ctx, format!("G dec {} {}", ty, hex(&bytes)), format!("OK {} 0", tvs), "decodeTyped", replay.clone());
    // ---- variants
    let nvar = if ctx.thorough { 6 } else { 2 };
    for _ in 0..nvar {
        let mut note = vec![];
        let mut r = ctx.rng.fork();
        let tree = spec_tree(&tv, &ctx.regs, Some(&mut r), &mut note);
        let mut choices = String::new();
        let mut modelled = true;
        let vb = crate::specenc::ref_enc(&tree, &mut r, &mut choices, &mut modelled);
        ctx.report.count("variants");
        for n in &note {
            let k = n.rsplit(':').next().unwrap_or(n);
            ctx.report.count(&format!("variant:{}", k.split('+').next().unwrap_or(k)));
        }
        let vreplay = json!({"type": rust, "value": format!("{:?}", x), "variant": hex(&vb), "choices": note});
        match serde_amqp::from_slice::<T>(&vb) {
            Ok(y) if same(&y, x) => {}
            Ok(y) => violation(ctx, &format!("typed-variant-not-accepted:{}", rust), format!("the valid encoding {} ({}) of {:?} decodes to {:?}", hex(&vb), note.join(","), x, y), vreplay.clone()),
            Err(e) => {
                // the recorded exception of the untyped decoder (arrays with a zero-width element constructor)
                let zero_width = !modelled && ["!41", "!42", "!43", "!44"].iter().any(|m| choices.contains(m));
                let key = if zero_width { "valid-variant-not-accepted:array-with-zero-width-element-constructor".to_string() } else { format!("typed-variant-not-accepted:{}", rust) };
                let short = if vb.len() > 200 { format!("{}..({} bytes)", hex(&vb[..200]), vb.len()) } else { hex(&vb) };
                violation(ctx, &key, format!("the valid encoding {} ({}) of a {} is refused: {}", short, note.join(","), rust, e), vreplay.clone())
            }
        }
        if modelled {
            model(ctx, format!("G dec {} {}", ty, hex(&vb)), format!("OK {} 0", tvs), "decodeTyped(variant)", vreplay.clone());
            model(ctx, format!("G from {} {}", ty, show(&tree)), tvs.clone(), "fromTree(variant)", vreplay);
        }
    }
    // ---- corruptions: totality and agreement where both accept
    let ncor = if ctx.thorough { 12 } else { 3 };
    for _ in 0..ncor {
        let mut m = bytes.clone();
        match ctx.rng.below(4) {
            0 => {
                let cut = ctx.rng.below(m.len() as u64) as usize;
                m.truncate(cut);
            }
            1 => {
                let i = ctx.rng.below(m.len() as u64) as usize;
                m[i] = ctx.rng.next() as u8;
            }
            2 => {
                let i = ctx.rng.below(m.len() as u64) as usize;
                m[i] = *ctx.rng.pick(&[0x40u8, 0x00, 0x45, 0xc0, 0xd0, 0xff, 0x53, 0xa3, 0x41]);
            }
            _ => {
                let i = ctx.rng.below(m.len() as u64) as usize;
                m.insert(i, *ctx.rng.pick(&[0x40u8, 0x00, 0x45, 0x43]));
            }
        }
        ctx.report.count("corruptions");
        let mm = m.clone();
        let (r, alloc, largest) = tracked(|| std::panic::catch_unwind(std::panic::AssertUnwindSafe(|| serde_amqp::from_slice::<T>(&mm))));
        let creplay = json!({"type": rust, "bytes": hex(&m)});
        match r {
            Err(p) => {
                let msg = p.downcast_ref::<String>().cloned().or_else(|| p.downcast_ref::<&str>().map(|s| s.to_string())).unwrap_or_default();
                violation(ctx, &format!("decode-panic:{}", rust), format!("decoding {} as {} panicked: {}", hex(&m), rust, msg), creplay);
            }
            Ok(res) => {
                if largest > 64 * m.len() as u64 + 6_000_000 || alloc > 4096 * (m.len() as u64 + 16) + 12_000_000 {
                    violation(ctx, &format!("decode-allocation:{}", rust), format!("decoding {} as {} allocated {} bytes ({} in one piece)", hex(&m), rust, alloc, largest), creplay.clone());
                }
                let got = match res {
                    Ok(y) => format!("OK {}", show_tv(&y.tv())),
                    Err(_) => "ERR".to_string(),
                };
                ctx.report.count(if got == "ERR" { "corruption:refused" } else { "corruption:accepted" });
                model(ctx, format!("G dec {} {}", ty, hex(&m)), format!("?{}", got), "decodeTyped(corrupted)", creplay);
            }
        }
    }
}

fn same<T: Debug>(a: &T, b: &T) -> bool {
    format!("{:?}", a) == format!("{:?}", b)
}

struct ChunkReader<'a> {
    data: &'a [u8],
    pos: usize,
    chunk: usize,
    interrupt_at: Option<usize>,
    calls: usize,
}
impl<'a> std::io::Read for ChunkReader<'a> {
    fn read(&mut self, buf: &mut [u8]) -> std::io::Result<usize> {
        let call = self.calls;
        self.calls += 1;
        if self.interrupt_at == Some(call) {
            return Err(std::io::Error::new(std::io::ErrorKind::Interrupted, "EINTR"));
        }
        let n = buf.len().min(self.chunk).min(self.data.len() - self.pos);
        if n == 0 && !buf.is_empty() {
            self.calls += 1_000_000;
            if self.calls > 1_000_000_000 {
                panic!("the decoder asked the stream for more {} times after its end: it loops without consuming input", self.calls / 1_000_000);
            }
        }
        buf[..n].copy_from_slice(&self.data[self.pos..self.pos + n]);
        self.pos += n;
        Ok(n)
    }
}

/// pads / elides and substitutes nothing: both sides are compared as lists without trailing nulls
fn normalise(v: &Value, regs: &[Reg]) -> Value {
    match v {
        Value::Described(d) => {
            let inner = normalise(&d.value, regs);
            let inner = match inner {
                Value::List(mut l) => {
                    while matches!(l.last(), Some(Value::Null)) {
                        l.pop();
                    }
                    Value::List(l)
                }
                o => o,
            };
            Value::Described(Box::new(Described { descriptor: d.descriptor.clone(), value: inner }))
        }
        Value::List(l) => Value::List(l.iter().map(|x| normalise(x, regs)).collect()),
        Value::Map(m) => Value::Map(m.iter().map(|(k, x)| (normalise(k, regs), normalise(x, regs))).collect()),
        o => o.clone(),
    }
}

fn run_composite<T>(ctx: &mut Ctx, n: usize)
where
    T: Typed + Serialize + DeserializeOwned + Debug + Clone,
{
    // the schema as the model elaborated it against the defaults the implementation uses
    let defaults: Vec<String> = T::default_slots()
        .iter()
        .map(|d| match d {
            Some(TV::Leaf(v)) => show(v),
            Some(other) => format!("?{:?}", other),
            None => "-".to_string(),
        })
        .collect();
    ctx.lines.push(format!("G schema {}", T::NAME));
    ctx.expect.push((format!("#schema {} {} {}", T::RUST, T::CODE, defaults.join(";")), "schema".into(), json!({"type": T::RUST})));
    for _ in 0..n {
        let mut r = ctx.rng.fork();
        let x = T::generate(&mut r, 2);
        case(ctx, T::RUST, &[T::NAME], &x);
    }
}

const DELIVERY_STATES: [&str; 7] = ["amqp:received:list", "amqp:accepted:list", "amqp:rejected:list", "amqp:released:list", "amqp:modified:list", "amqp:declared:list", "amqp:transactional-state:list"];
const OUTCOMES: [&str; 5] = ["amqp:accepted:list", "amqp:rejected:list", "amqp:released:list", "amqp:modified:list", "amqp:declared:list"];
const PERFORMATIVES: [&str; 9] = ["amqp:open:list", "amqp:begin:list", "amqp:attach:list", "amqp:flow:list", "amqp:transfer:list", "amqp:disposition:list", "amqp:detach:list", "amqp:end:list", "amqp:close:list"];

pub fn main(opts: &Opts) {
    let prop = if opts.property.is_empty() { "C03".to_string() } else { opts.property.clone() };
    let mut report = Report::new(&prop, "typed: round trip, size, stream, value tree, reference decoder, variants, corruptions on the implementation; encodeTyped / sizeTyped / toTree / decodeTyped / fromTree of the Lean model on the same typed values");
    if let Some(path) = &opts.replay {
        let j: serde_json::Value = serde_json::from_str(&std::fs::read_to_string(path).expect("replay file")).expect("json");
        println!("replay: {}", serde_json::to_string_pretty(&j).unwrap());
        // the case is self-describing (type, value, bytes); re-run the whole module with the recorded seed
    }
    let prev_hook = std::panic::take_hook();
    std::panic::set_hook(Box::new(|_| {}));
    let n = if opts.thorough() { 600 } else { 100 };
    let mut ctx = Ctx { rng: Rng::new(opts.seed ^ 0x7e9d), report: &mut report, regs: registry(), lines: vec![], expect: vec![], prop: prop.clone(), thorough: opts.thorough() };
    macro_rules! run {
        ($t:ident) => {
            run_composite::<$t>(&mut ctx, n);
        };
    }
    crate::for_each_composite!(run);
    for _ in 0..(3 * n) {
        let mut r = ctx.rng.fork();
        let x = Performative::generate(&mut r, 2);
        case(&mut ctx, "Performative", &PERFORMATIVES, &x);
        let x = DeliveryState::generate(&mut r, 2);
        case(&mut ctx, "DeliveryState", &DELIVERY_STATES, &x);
        let x = Outcome::generate(&mut r, 2);
        case(&mut ctx, "Outcome", &OUTCOMES, &x);
        let x = TargetArchetype::generate(&mut r, 2);
        case(&mut ctx, "TargetArchetype", &["amqp:target:list", "amqp:coordinator:list"], &x);
    }
    for _ in 0..(6 * n) {
        let mut r = ctx.rng.fork();
        let m = gen_message(&mut r);
        message_case(&mut ctx, &m);
    }
    std::panic::set_hook(prev_hook);
    let Ctx { lines, expect, .. } = ctx;
    if let Ok(path) = std::env::var("VERIF_DUMP_LINES") {
        let _ = std::fs::write(path, lines.join("\n") + "\n");
    }
    // ---- the model
    if driver_available() {
        match run_driver(&lines) {
            Ok(out) => {
                report.model_used = true;
                report.model_lines = out.len() as u64;
                for ((line, got), (want, what, replay)) in lines.iter().zip(out.iter()).zip(expect.iter()) {
                    if let Some(w) = want.strip_prefix("#schema ") {
                        // "Rust code d;d;d" against "Rust code name:kind:dflt;…"
                        let mut it = w.splitn(3, ' ');
                        let (rust, code, dfl) = (it.next().unwrap_or(""), it.next().unwrap_or(""), it.next().unwrap_or(""));
                        let mut gt = got.splitn(3, ' ');
                        let (grust, gcode, gfields) = (gt.next().unwrap_or(""), gt.next().unwrap_or(""), gt.next().unwrap_or(""));
                        let gd: Vec<&str> = if gfields.is_empty() { vec![] } else { gfields.split(';').map(|f| f.rsplit(':').next().unwrap_or("")).collect() };
                        let wd: Vec<&str> = if dfl.is_empty() { vec![] } else { dfl.split(';').collect() };
                        if rust != grust || code != gcode || gd != wd {
                            report.finding(Finding { kind: "disagreement", key: format!("typed-schema:{}", rust), description: format!("the model's schema `{}` differs from what the implementation declares / defaults to `{}`", got, w), replay: json!({"line": line, "model": got, "implementation": w}) });
                        }
                        continue;
                    }
                    if let Some(w) = want.strip_prefix('?') {
                        // corrupted input: compared only where both sides accept
                        if w != "ERR" && got.starts_with("OK ") {
                            let g = if what.starts_with("decodeMsg") { got.as_str() } else { got.rsplitn(2, ' ').nth(1).unwrap_or(got) };
                            // nested typed values (the delivery states of an unsettled map) come back without their
                            // trailing nulls; the model keeps the leaf as it was written
                            fn strip(s: &str) -> String {
                                let mut t = s.to_string();
                                loop {
                                    let u = t.replace(",n)", ")").replace("l(n)", "l()");
                                    if u == t {
                                        return t;
                                    }
                                    t = u;
                                }
                            }
                            if strip(g) != strip(w) {
                                report.finding(Finding { kind: "disagreement", key: format!("typed-model:{}", what), description: format!("{}: the model reads {} and the implementation {}", line, g, w), replay: json!({"line": line, "model": got, "implementation": w, "case": replay}) });
                            }
                            report.count("corruption:both-accept");
                        } else if w == "ERR" && got.starts_with("OK ") {
                            report.count("corruption:model-only-accepts");
                        } else if w != "ERR" {
                            report.count("corruption:implementation-only-accepts");
                        }
                        continue;
                    }
                    if got != want {
                        report.finding(Finding { kind: "disagreement", key: format!("typed-model:{}", what), description: format!("{}: model answers {} where the implementation gives {}", if line.len() > 300 { &line[..300] } else { line }, if got.len() > 300 { &got[..300] } else { got }, if want.len() > 300 { &want[..300] } else { want }), replay: json!({"line": line, "model": got, "implementation": want, "case": replay}) });
                    }
                }
            }
            Err(e) => report.notes.push(format!("model driver failed: {}", e)),
        }
    } else {
        report.notes.push("model driver not available: correspondence not run".into());
    }
    // each property judges its own part of what was observed; the model comparison serves all of them
    let relevant = |key: &str| -> bool {
        let c03 = key.starts_with("typed-roundtrip") || key.starts_with("typed-encode-error");
        let c04 = key.starts_with("decode-panic") || key.starts_with("decode-allocation");
        let c05 = key.starts_with("typed-encoding-not") || key.starts_with("typed-variant-not-accepted") || key.starts_with("valid-variant-not-accepted");
        let c20 = key.starts_with("typed-size") || key.starts_with("typed-io-vs-slice") || key.starts_with("typed-to-value") || key.starts_with("typed-from-value-wrong") || key.starts_with("from-value:");
        match prop.as_str() {
            "C03" => c03,
            "C04" => c04,
            "C05" => c05,
            "C20" => c20,
            _ => true,
        }
    };
    report.findings.retain(|f| f.kind != "violation" || relevant(&f.key));
    report.write(&opts.report);
    println!("typed: {} cases, {} non-trivial, {} model lines, {} findings", report.evaluations, report.nontrivial.len(), report.model_lines, report.findings.len());
}

/// probe: `to_value(&v)` against `v` for untyped values (shrinks by dropping children)
pub fn probe_to_value(opts: &Opts) {
    let mut rng = Rng::new(opts.seed);
    let mut shown = 0;
    for _ in 0..20000 {
        let v = gen_leaf_value(&mut rng);
        let w = serde_amqp::to_value(&v);
        let ok = matches!(&w, Ok(w) if *w == v);
        if !ok {
            // shrink
            let mut cur = v.clone();
            loop {
                let mut progressed = false;
                for c in children(&cur) {
                    let wc = serde_amqp::to_value(&c);
                    if !matches!(&wc, Ok(wc) if *wc == c) {
                        cur = c;
                        progressed = true;
                        break;
                    }
                }
                if !progressed {
                    break;
                }
            }
            println!("to_value differs: {}  ->  {:?}", show(&cur), serde_amqp::to_value(&cur).map(|w| show(&w)));
            shown += 1;
            if shown > 8 {
                break;
            }
        }
    }
    println!("probe done ({} shown)", shown);
}

fn children(v: &Value) -> Vec<Value> {
    match v {
        Value::List(l) => {
            let mut out: Vec<Value> = l.clone();
            for i in 0..l.len() {
                let mut m = l.clone();
                m.remove(i);
                out.push(Value::List(m));
            }
            out
        }
        Value::Array(a) => {
            let mut out: Vec<Value> = a.0.clone();
            for i in 0..a.0.len() {
                let mut m = a.0.clone();
                m.remove(i);
                out.push(Value::Array(Array(m)));
            }
            out
        }
        Value::Map(m) => {
            let mut out = vec![];
            for (k, x) in m.iter() {
                out.push(k.clone());
                out.push(x.clone());
                let mut m2 = m.clone();
                m2.shift_remove(k);
                out.push(Value::Map(m2));
            }
            out
        }
        Value::Described(d) => vec![d.value.clone()],
        _ => vec![],
    }
}

// ------------------------------------------------------------------------------- messages

use fe2o3_amqp_types::messaging::message::__private::{Deserializable, Serializable};
use fe2o3_amqp_types::messaging::{AmqpSequence, AmqpValue, ApplicationProperties, Batch, Body, Data, DeliveryAnnotations, Footer, Message, MessageAnnotations};
use fe2o3_amqp_types::primitives::SimpleValue;

fn basic_section(code: u64, inner: Value) -> Value {
    Value::Described(Box::new(Described { descriptor: Descriptor::Code(code), value: inner }))
}

fn leaf_of(t: TV) -> Value {
    match t {
        TV::Leaf(v) => v,
        _ => Value::Null,
    }
}

fn gen_simple_value(rng: &mut Rng) -> SimpleValue {
    match rng.below(8) {
        0 => SimpleValue::Null,
        1 => SimpleValue::Bool(rng.chance(1, 2)),
        2 => SimpleValue::Uint(edge_u64(rng, 32) as u32),
        3 => SimpleValue::Long(rng.next() as i64),
        4 => SimpleValue::String(gen_text(rng)),
        5 => SimpleValue::Symbol(Symbol::from(gen_ascii(rng))),
        6 => SimpleValue::Binary(ByteBuf::generate(rng, 0)),
        _ => SimpleValue::Ulong(edge_u64(rng, 64)),
    }
}

pub fn gen_message(rng: &mut Rng) -> Message<Body<Value>> {
    let body = match rng.below(6) {
        0 => Body::Empty,
        1 | 2 => Body::Value(AmqpValue(gen_leaf_value(rng))),
        3 => Body::Data(Batch::new((0..1 + rng.below(3)).map(|_| Data(ByteBuf::generate(rng, 0))).collect::<Vec<_>>())),
        4 => Body::Sequence(Batch::new((0..1 + rng.below(3)).map(|_| AmqpSequence((0..rng.below(4)).map(|_| gen_leaf_value(rng)).collect())).collect::<Vec<_>>())),
        _ => Body::Value(AmqpValue(Value::String(gen_text(rng)))),
    };
    Message {
        header: Gen::generate(rng, 1),
        delivery_annotations: if rng.chance(1, 2) { Some(DeliveryAnnotations(Gen::generate(rng, 1))) } else { None },
        message_annotations: if rng.chance(1, 2) { Some(MessageAnnotations(Gen::generate(rng, 1))) } else { None },
        properties: Gen::generate(rng, 1),
        application_properties: if rng.chance(1, 2) {
            let mut m = OrderedMap::new();
            for i in 0..rng.below(4) {
                m.insert(format!("p{}{}", i, gen_ascii(rng)), gen_simple_value(rng));
            }
            Some(ApplicationProperties(m))
        } else {
            None
        },
        body,
        footer: if rng.chance(1, 3) { Some(Footer(Gen::generate(rng, 1))) } else { None },
    }
}

/// the sections of a message as the specification orders them (part 3 §3.2), each as a typed tree
pub fn message_sections(m: &Message<Body<Value>>) -> Vec<TV> {
    let mut v = vec![];
    if let Some(h) = &m.header {
        v.push(h.tv());
    }
    if let Some(a) = &m.delivery_annotations {
        v.push(TV::Leaf(basic_section(0x71, leaf_of(a.0.tv()))));
    }
    if let Some(a) = &m.message_annotations {
        v.push(TV::Leaf(basic_section(0x72, leaf_of(a.0.tv()))));
    }
    if let Some(p) = &m.properties {
        v.push(p.tv());
    }
    if let Some(a) = &m.application_properties {
        let mut map = OrderedMap::new();
        for (k, x) in a.0.iter() {
            map.insert(Value::String(k.clone()), Value::from(x.clone()));
        }
        v.push(TV::Leaf(basic_section(0x74, Value::Map(map))));
    }
    match &m.body {
        Body::Value(AmqpValue(x)) => v.push(TV::Leaf(basic_section(0x77, x.clone()))),
        Body::Data(batch) => {
            for d in batch.iter() {
                v.push(TV::Leaf(basic_section(0x75, Value::Binary(d.0.clone()))));
            }
        }
        Body::Sequence(batch) => {
            for s in batch.iter() {
                v.push(TV::Leaf(basic_section(0x76, Value::List(s.0.clone()))));
            }
        }
        Body::Empty => v.push(TV::Leaf(basic_section(0x77, Value::Null))),
    }
    if let Some(a) = &m.footer {
        v.push(TV::Leaf(basic_section(0x78, leaf_of(a.0.tv()))));
    }
    v
}


fn show_opt_map(t: Option<TV>) -> String {
    match t {
        None => "-".into(),
        Some(TV::Leaf(v)) => show(&v),
        Some(other) => show_tv(&other),
    }
}

/// the seven words of the model's line protocol; `Body::Empty` is what the model calls `e`
pub fn show_msg(m: &Message<Body<Value>>, empty_as_null: bool) -> String {
    let body = match &m.body {
        Body::Value(AmqpValue(v)) => format!("v{}", show(v)),
        Body::Data(b) => format!("d{}", b.iter().map(|d| if d.0.is_empty() { ".".to_string() } else { hex(&d.0) }).collect::<Vec<_>>().join(",")),
        Body::Sequence(b) => format!("s{}", show(&Value::List(b.iter().map(|s| Value::List(s.0.clone())).collect()))),
        Body::Empty => if empty_as_null { "vn".to_string() } else { "e".to_string() },
    };
    let ap = m.application_properties.as_ref().map(|a| {
        let mut map = OrderedMap::new();
        for (k, x) in a.0.iter() {
            map.insert(Value::String(k.clone()), Value::from(x.clone()));
        }
        TV::Leaf(Value::Map(map))
    });
    [
        m.header.as_ref().map(|h| show_tv(&h.tv())).unwrap_or_else(|| "-".into()),
        show_opt_map(m.delivery_annotations.as_ref().map(|a| a.0.tv())),
        show_opt_map(m.message_annotations.as_ref().map(|a| a.0.tv())),
        m.properties.as_ref().map(|h| show_tv(&h.tv())).unwrap_or_else(|| "-".into()),
        show_opt_map(ap),
        body,
        show_opt_map(m.footer.as_ref().map(|a| a.0.tv())),
    ]
    .join(" ")
}

fn message_case(ctx: &mut Ctx, m: &Message<Body<Value>>) {
    type DM = Deserializable<Message<Body<Value>>>;
    ctx.report.evaluations += 1;
    ctx.report.count("type:Message");
    ctx.report.count(match &m.body {
        Body::Value(_) => "message_body:value",
        Body::Data(_) => "message_body:data",
        Body::Sequence(_) => "message_body:sequence",
        Body::Empty => "message_body:empty(written as amqp-value null)",
    });
    let text = show_msg(m, false);
    let expect_back = show_msg(m, true);
    let replay = json!({"type": "Message", "message": text});
    let bytes = match serde_amqp::to_vec(&Serializable(m.clone())) {
        Ok(b) => b,
        Err(e) => {
            violation(ctx, "typed-encode-error:Message", format!("to_vec fails for the message {}: {}", text, e), replay);
            return;
        }
    };
    ctx.report.nontrivial_case(fnv(&hex(&bytes)));
    // C03: what comes back (Body::Empty comes back as an amqp-value holding null: documented, counted above)
    match serde_amqp::from_slice::<DM>(&bytes) {
        Ok(d) if show_msg(&d.0, false) == expect_back && format!("{:?}", d.0.header) == format!("{:?}", m.header) && format!("{:?}", d.0.properties) == format!("{:?}", m.properties) => {}
        Ok(d) => violation(ctx, "typed-roundtrip:Message", format!("the message {} comes back as {}", text, show_msg(&d.0, false)), replay.clone()),
        Err(e) => violation(ctx, "typed-roundtrip:Message", format!("the message {} encoded as {} does not decode: {}", text, hex(&bytes), e), replay.clone()),
    }
    // C20: size and stream
    match serde_amqp::serialized_size(&Serializable(m.clone())) {
        Ok(n) if n == bytes.len() => {}
        r => violation(ctx, "typed-size:Message", format!("serialized_size = {:?} but the encoding of the message {} has {} bytes", r, text, bytes.len()), replay.clone()),
    }
    for chunk in [1usize, 5, 4096] {
        let rd = ChunkReader { data: &bytes, pos: 0, chunk, interrupt_at: None, calls: 0 };
        match serde_amqp::from_reader::<DM>(rd) {
            Ok(d) if show_msg(&d.0, false) == expect_back => {}
            r => {
                violation(ctx, "typed-io-vs-slice:Message", format!("from_reader (chunks of {}) gives {} for the message {}", chunk, match r { Ok(d) => show_msg(&d.0, false), Err(e) => format!("an error: {}", e) }, text), replay.clone());
                break;
            }
        }
    }
    // C05: the bytes are the sections of the standard, one after the other, each judged by the reference decoder
    let mut want: Vec<Value> = vec![];
    for s in message_sections(m) {
        want.push(spec_tree(&s, &ctx.regs, None, &mut vec![]));
    }
    let mut at = 0usize;
    let mut parsed: Vec<Value> = vec![];
    let mut bad: Option<String> = None;
    while at < bytes.len() {
        match crate::specenc::ref_value(&bytes[at..], 0) {
            Ok((t, used)) if used > 0 => {
                match crate::codec::parse(&t) {
                    Some(v) => parsed.push(v),
                    None => {
                        bad = Some(format!("section at offset {} is read as {}", at, t));
                        break;
                    }
                }
                at += used;
            }
            Ok(_) => {
                bad = Some(format!("nothing consumed at offset {}", at));
                break;
            }
            Err(e) => {
                bad = Some(format!("offset {}: {}", at, e));
                break;
            }
        }
    }
    if bad.is_none() && parsed.iter().map(|p| normalise(p, &ctx.regs)).collect::<Vec<_>>() != want.iter().map(|p| normalise(p, &ctx.regs)).collect::<Vec<_>>() {
        bad = Some(format!("the sections read are {:?}", parsed.iter().map(show).collect::<Vec<_>>()));
    }
    if let Some(b) = bad {
        violation(ctx, "typed-encoding-not-the-value:Message", format!("the bytes {} of the message {} are not its sections in the order of the standard: {}", hex(&bytes), text, b), replay.clone());
    }
    // the model
    model(ctx, format!("G msg {}", text), hex(&bytes), "encodeMsg", replay.clone());
    model(ctx, format!("G mdec {}", hex(&bytes)), format!("OK {}", expect_back), "decodeMsg", replay.clone());
    // variants of every section (composite level and widths)
    for _ in 0..(if ctx.thorough { 4 } else { 1 }) {
        let mut r = ctx.rng.fork();
        let mut vb = vec![];
        let mut note = vec![];
        let mut modelled = true;
        let mut choices = String::new();
        for s in message_sections(m) {
            let tree = spec_tree(&s, &ctx.regs, Some(&mut r), &mut note);
            vb.extend(crate::specenc::ref_enc(&tree, &mut r, &mut choices, &mut modelled));
        }
        ctx.report.count("variants");
        let vreplay = json!({"type": "Message", "message": text, "variant": hex(&vb), "choices": note});
        match serde_amqp::from_slice::<DM>(&vb) {
            Ok(d) if show_msg(&d.0, false) == expect_back => {}
            Ok(d) => violation(ctx, "typed-variant-not-accepted:Message", format!("the valid encoding {} ({}) of the message {} decodes to {}", hex(&vb), note.join(","), text, show_msg(&d.0, false)), vreplay.clone()),
            Err(e) => {
                let zero_width = !modelled && ["!41", "!42", "!43", "!44"].iter().any(|x| choices.contains(x));
                let key = if zero_width { "valid-variant-not-accepted:array-with-zero-width-element-constructor".to_string() } else { "typed-variant-not-accepted:Message".to_string() };
                violation(ctx, &key, format!("the valid encoding ({}) of the message {} is refused: {}", note.join(","), text, e), vreplay.clone())
            }
        }
        if modelled {
            model(ctx, format!("G mdec {}", hex(&vb)), format!("OK {}", expect_back), "decodeMsg(variant)", vreplay);
        }
    }
    // corruptions: totality, and agreement where both accept
    for _ in 0..(if ctx.thorough { 8 } else { 2 }) {
        let mut mm = bytes.clone();
        match ctx.rng.below(3) {
            0 => {
                let cut = ctx.rng.below(mm.len() as u64) as usize;
                mm.truncate(cut);
            }
            1 => {
                let i = ctx.rng.below(mm.len() as u64) as usize;
                mm[i] = ctx.rng.next() as u8;
            }
            _ => {
                let i = ctx.rng.below(mm.len() as u64) as usize;
                mm[i] = *ctx.rng.pick(&[0x40u8, 0x00, 0x45, 0xc0, 0x53, 0x70, 0x75, 0x77, 0x78]);
            }
        }
        ctx.report.count("corruptions");
        let m2 = mm.clone();
        let (r, alloc, largest) = tracked(|| std::panic::catch_unwind(std::panic::AssertUnwindSafe(|| serde_amqp::from_slice::<DM>(&m2))));
        let creplay = json!({"type": "Message", "bytes": hex(&mm)});
        match r {
            Err(p) => {
                let msg = p.downcast_ref::<String>().cloned().or_else(|| p.downcast_ref::<&str>().map(|s| s.to_string())).unwrap_or_default();
                violation(ctx, "decode-panic:Message", format!("decoding {} as a message panicked: {}", hex(&mm), msg), creplay);
            }
            Ok(res) => {
                if largest > 64 * mm.len() as u64 + 6_000_000 || alloc > 4096 * (mm.len() as u64 + 16) + 12_000_000 {
                    violation(ctx, "decode-allocation:Message", format!("decoding {} as a message allocated {} bytes ({} in one piece)", hex(&mm), alloc, largest), creplay.clone());
                }
                let got = match res {
                    Ok(d) => format!("OK {}", show_msg(&d.0, false)),
                    Err(_) => "ERR".to_string(),
                };
                ctx.report.count(if got == "ERR" { "corruption:refused" } else { "corruption:accepted" });
                model(ctx, format!("G mdec {}", if mm.is_empty() { "-".to_string() } else { hex(&mm) }), format!("?{}", got), "decodeMsg(corrupted)", creplay);
            }
        }
    }
}

pub fn probe_messages(opts: &Opts) {
    let mut rng = Rng::new(opts.seed);
    let regs = registry();
    let mut bad = 0;
    for k in 0..3000 {
        let m = gen_message(&mut rng);
        let bytes = match serde_amqp::to_vec(&Serializable(m.clone())) {
            Ok(b) => b,
            Err(e) => {
                println!("encode error {:?}", e);
                continue;
            }
        };
        // specification view: the concatenation of the sections' encodings
        let mut want = vec![];
        for s in message_sections(&m) {
            want.extend(serde_amqp::to_vec(&spec_tree(&s, &regs, None, &mut vec![])).unwrap());
        }
        let back = serde_amqp::from_slice::<Deserializable<Message<Body<Value>>>>(&bytes);
        let same_bytes = want == bytes;
        let rt = matches!(&back, Ok(d) if format!("{:?}", d.0) == format!("{:?}", m));
        if (!same_bytes || !rt) && bad < 6 {
            bad += 1;
            let ms = format!("{:?}", m);
            let gs = match &back { Ok(d) => format!("{:?}", d.0), Err(e) => format!("ERR {:?}", e) };
            let a: Vec<char> = ms.chars().collect();
            let b: Vec<char> = gs.chars().collect();
            let i = a.iter().zip(b.iter()).position(|(x, y)| x != y).unwrap_or(a.len().min(b.len()));
            let lo = i.saturating_sub(60);
            println!("case {}: bytes as the sections {} / round trip {}\n   sent ..{}\n   got  ..{}", k, same_bytes, rt, a[lo..(i + 80).min(a.len())].iter().collect::<String>(), b[lo..(i + 80).min(b.len())].iter().collect::<String>());
        }
    }
    println!("message probe done: {} shown", bad);
}
