//! C08 — sender link credit.  Drives the real `SenderFlowState` / `Producer`
//! pair (`fe2o3_amqp::verif::sender_credit`) and the Lean model (`Amqp.Credit`).

use std::time::Duration;

use fe2o3_amqp::verif::{sched, sender_credit, ProbeLinkFlow};
use serde_json::{json, Value as J};

use crate::common::*;

#[derive(Clone, Debug, PartialEq)]
pub enum Op {
    Flow { dc: Option<u32>, credit: Option<u32>, drain: bool, echo: bool },
    Send,
    /// the non-waiting taker (`TryConsume::try_consume`): a credit if there is one, else nothing changes
    TrySend,
}

#[derive(Clone, Debug, PartialEq)]
pub struct Case {
    pub init_dc: u32,
    pub ops: Vec<Op>,
}

fn o(x: Option<u32>) -> i64 {
    x.map(|v| v as i64).unwrap_or(-1)
}

impl Op {
    fn line(&self) -> String {
        match self {
            Op::Flow { dc, credit, drain, echo } => format!("K flow {} {} {} {}", o(*dc), o(*credit), *drain as u8, *echo as u8),
            Op::Send => "K send".into(),
            Op::TrySend => "K try".into(),
        }
    }
}

impl Case {
    pub fn lines(&self) -> Vec<String> {
        let mut v = vec![format!("K init {} {} 0", self.init_dc, self.init_dc)];
        v.extend(self.ops.iter().map(|x| x.line()));
        v
    }
    pub fn to_json(&self) -> J {
        json!({"initial_delivery_count": self.init_dc, "ops": self.ops.iter().map(|x| x.line()).collect::<Vec<_>>()})
    }
    pub fn from_json(j: &J) -> Option<Case> {
        let mut ops = vec![];
        for l in j.get("ops")?.as_array()? {
            let ws: Vec<&str> = l.as_str()?.split_whitespace().collect();
            let num = |s: &str| s.parse::<i64>().ok();
            let opt = |s: &str| num(s).map(|x| if x < 0 { None } else { Some(x as u32) });
            ops.push(match ws.as_slice() {
                ["K", "flow", a, b, c, d] => Op::Flow { dc: opt(a)?, credit: opt(b)?, drain: *c == "1", echo: *d == "1" },
                ["K", "send"] => Op::Send,
                ["K", "try"] => Op::TrySend,
                _ => return None,
            });
        }
        Some(Case { init_dc: j.get("initial_delivery_count")?.as_u64()? as u32, ops })
    }
}

#[derive(Clone, Debug, PartialEq)]
pub enum Emit {
    Echo { dc: Option<u32>, lc: Option<u32>, drain: bool },
    Sent(u32),
    Blocked,
}

#[derive(Clone, Debug)]
pub struct StepOut {
    pub emits: Vec<Emit>,
    pub dc: u32,
    pub lc: u32,
    pub drain: bool,
}

pub fn run_impl(case: &Case) -> Vec<StepOut> {
    let rt = tokio::runtime::Builder::new_current_thread().enable_time().build().unwrap();
    rt.block_on(async {
        let (cons, mut prod) = sender_credit(case.init_dc, case.init_dc, 0);
        let mut outs = vec![];
        let snap = |cons: &fe2o3_amqp::verif::SenderCreditConsumer, emits| {
            let (dc, lc, drain) = cons.snapshot();
            StepOut { emits, dc, lc, drain }
        };
        outs.push(snap(&cons, vec![]));
        for op in &case.ops {
            let emits = match op {
                Op::Flow { dc, credit, drain, echo } => {
                    let f = ProbeLinkFlow { delivery_count: *dc, link_credit: *credit, available: None, drain: *drain, echo: *echo };
                    match prod.on_incoming_flow(f).await {
                        Some(e) => vec![Emit::Echo { dc: e.delivery_count, lc: e.link_credit, drain: e.drain }],
                        None => vec![],
                    }
                }
                Op::TrySend => match cons.try_consume(1) {
                    Some(tag) => vec![Emit::Sent(u32::from_be_bytes(tag))],
                    None => vec![Emit::Blocked],
                },
                Op::Send => {
                    let fut = cons.consume(1);
                    tokio::pin!(fut);
                    match futures_util::poll!(fut.as_mut()) {
                        std::task::Poll::Ready(tag) => vec![Emit::Sent(u32::from_be_bytes(tag))],
                        std::task::Poll::Pending => vec![Emit::Blocked],
                    }
                }
            };
            outs.push(snap(&cons, emits));
        }
        outs
    })
}

pub fn render_impl(outs: &[StepOut]) -> Vec<String> {
    outs.iter()
        .map(|s| {
            let parts: Vec<String> = s
                .emits
                .iter()
                .map(|e| match e {
                    Emit::Echo { dc, lc, drain } => format!("E {} {} {}", o(*dc), o(*lc), *drain as u8),
                    Emit::Sent(t) => format!("S {}", t),
                    Emit::Blocked => "B".into(),
                })
                .collect();
            format!("{} # {} {} {}", parts.join(";"), s.dc, s.lc, s.drain as u8)
        })
        .collect()
}

fn sdist(a: u32, b: u32) -> u32 {
    b.wrapping_sub(a)
}

/// the property evaluated on the implementation's behaviour only
pub fn check_property(case: &Case, outs: &[StepOut]) -> Option<(String, String)> {
    let mut lim: (u32, u32) = (case.init_dc, 0);
    let mut sent: u64 = 0;
    for (i, op) in case.ops.iter().enumerate() {
        let before = &outs[i];
        let after = &outs[i + 1];
        let expected_dc = ((case.init_dc as u64 + sent) % (1u64 << 32)) as u32;
        match op {
            Op::Flow { dc, credit, drain, echo } => {
                if let Some(c) = credit {
                    lim = (dc.unwrap_or(case.init_dc), *c);
                    // a receiver cannot have counted deliveries that were never sent
                    if (sdist(case.init_dc, lim.0) as u64) > sent {
                        return None;
                    }
                }
                let d = sdist(lim.0, before.dc);
                let room = if credit.is_some() { if d <= lim.1 { lim.1 - d } else { 0 } } else { before.lc };
                if *drain {
                    if after.lc != 0 {
                        return Some(("drain-leaves-credit".into(), format!("op {} ({}): credit {} left after drain", i, op.line(), after.lc)));
                    }
                    if after.dc != before.dc.wrapping_add(room) {
                        return Some(("drain-delivery-count".into(), format!("op {} ({}): delivery-count {} -> {} with {} credit to give back", i, op.line(), before.dc, after.dc, room)));
                    }
                    match after.emits.as_slice() {
                        [Emit::Echo { dc: Some(edc), lc: Some(0), .. }] if *edc == after.dc => {}
                        other => return Some(("drain-no-zero-credit-flow".into(), format!("op {} ({}): answered {:?}", i, op.line(), other))),
                    }
                    // drained credit is given back, not used: the receiver's limit is exhausted
                    sent += room as u64;
                } else {
                    if after.lc != room {
                        return Some((
                            if after.lc > room { "over-credit".into() } else { "under-credit".into() },
                            format!("op {} ({}): link-credit {} but the receiver's limit leaves {}", i, op.line(), after.lc, room),
                        ));
                    }
                    if after.dc != before.dc {
                        return Some(("flow-changed-delivery-count".into(), format!("op {}", i)));
                    }
                    match (echo, after.emits.as_slice()) {
                        (true, [Emit::Echo { dc: Some(edc), lc: Some(elc), .. }]) if *edc == after.dc && *elc == after.lc => {}
                        (false, []) => {}
                        (_, other) => return Some(("echo".into(), format!("op {} ({}): answered {:?}", i, op.line(), other))),
                    }
                }
            }
            Op::Send | Op::TrySend => {
                let d = sdist(lim.0, before.dc);
                match after.emits.as_slice() {
                    [Emit::Sent(tag)] => {
                        if *tag != expected_dc {
                            return Some(("tag".into(), format!("op {}: tag {} expected delivery-count {}", i, tag, expected_dc)));
                        }
                        if d >= lim.1 {
                            return Some(("credit-overrun".into(), format!("op {}: delivery {} sent beyond the receiver's limit [{}, +{})", i, tag, lim.0, lim.1)));
                        }
                        if after.lc + 1 != before.lc || after.dc != before.dc.wrapping_add(1) {
                            return Some(("not-one-credit".into(), format!("op {}: credit {} -> {}, delivery-count {} -> {}", i, before.lc, after.lc, before.dc, after.dc)));
                        }
                        sent += 1;
                    }
                    [Emit::Blocked] => {
                        if d < lim.1 {
                            return Some(("blocked-with-credit".into(), format!("op {}: send blocked although the receiver's limit [{}, +{}) admits delivery {}", i, lim.0, lim.1, before.dc)));
                        }
                        if after.lc != before.lc || after.dc != before.dc {
                            return Some(("blocked-send-changed-state".into(), format!("op {}", i)));
                        }
                    }
                    other => return Some(("unexpected".into(), format!("op {}: {:?}", i, other))),
                }
            }
        }
    }
    None
}

fn boundary_u32(rng: &mut Rng) -> u32 {
    match rng.below(5) {
        0 => 0,
        1 => rng.range(0, 8) as u32,
        2 => (u32::MAX as u64 - rng.range(0, 8)) as u32,
        3 => rng.next() as u32,
        _ => rng.range(0, 30) as u32,
    }
}

pub fn gen_case(rng: &mut Rng, max_ops: u64) -> Case {
    let init_dc = boundary_u32(rng);
    let n = rng.range(1, max_ops);
    let mut ops = vec![];
    let mut sends: u64 = 0;
    let honest = rng.chance(3, 4);
    for _ in 0..n {
        if rng.chance(3, 5) {
            ops.push(if rng.chance(1, 4) { Op::TrySend } else { Op::Send });
            sends += 1;
        } else {
            let dc = if rng.chance(1, 6) {
                None
            } else if honest || rng.chance(1, 2) {
                Some(((init_dc as u64 + rng.range(0, sends)) % (1u64 << 32)) as u32)
            } else {
                Some(boundary_u32(rng))
            };
            let credit = if rng.chance(1, 8) {
                None
            } else {
                Some(match rng.below(6) {
                    0 => 0,
                    1 => 1,
                    2 => rng.range(2, 6) as u32,
                    3 => rng.range(7, 60) as u32,
                    4 => u32::MAX,
                    _ => rng.range(0, 3) as u32,
                })
            };
            ops.push(Op::Flow { dc, credit, drain: rng.chance(1, 6), echo: rng.chance(1, 4) });
        }
    }
    Case { init_dc, ops }
}

fn evaluate(case: &Case) -> (Vec<StepOut>, Option<(String, String)>) {
    let outs = run_impl(case);
    let v = check_property(case, &outs);
    (outs, v)
}

/// ---- wait protocol -------------------------------------------------------------------

#[derive(Clone, Debug)]
pub struct WaitScenario {
    pub name: &'static str,
    /// model action list (`c` consumer step, `uN` update credit to N, `n` notify)
    pub acts: &'static str,
    pub initial_credit: u32,
    /// steps: G = let the consumer run up to the gate after the failed check, P = let it park
    /// completely, U<n> = apply a flow granting n, R = release the gate
    pub script: &'static [&'static str],
}

pub const SCENARIOS: &[WaitScenario] = &[
    WaitScenario { name: "credit-already-there", acts: "c c", initial_credit: 2, script: &["P"] },
    WaitScenario { name: "grant-after-parking", acts: "c c u5 n", initial_credit: 0, script: &["P", "U5"] },
    WaitScenario { name: "grant-between-check-and-wait", acts: "c c u5 n", initial_credit: 0, script: &["G", "U5", "R"] },
    WaitScenario { name: "useless-grant-in-the-gap-then-real-grant", acts: "c c u0 n c c c u3 n", initial_credit: 0, script: &["G", "U0", "R", "U3"] },
    WaitScenario { name: "no-grant", acts: "c c", initial_credit: 0, script: &["P"] },
    WaitScenario { name: "two-grants-in-the-gap", acts: "c c u0 n u4 n", initial_credit: 0, script: &["G", "U0", "U4", "R"] },
];

/// returns whether the waiting consume completed (within a virtual-time bound)
pub fn run_wait_scenario(sc: &WaitScenario) -> bool {
    let rt = tokio::runtime::Builder::new_current_thread().enable_time().start_paused(true).build().unwrap();
    rt.block_on(async {
        sched::disarm_all();
        let (cons, mut prod) = sender_credit(0, 0, sc.initial_credit);
        let mut gate = None;
        if sc.script.contains(&"G") {
            gate = Some(sched::arm(sched::CONSUME_AFTER_FAILED_CHECK));
        }
        let mut task = Some(tokio::spawn(async move { cons.consume(1).await }));
        let mut release = None;
        for step in sc.script {
            match *step {
                "G" => {
                    let (reached, rel) = gate.take().unwrap();
                    // the consumer must reach the gate (failed check) — if it never does the
                    // gate is not in the code any more; fall through and let it run
                    let _ = tokio::time::timeout(Duration::from_millis(50), reached).await;
                    release = Some(rel);
                }
                "P" => {
                    tokio::time::sleep(Duration::from_millis(10)).await;
                }
                "R" => {
                    if let Some(r) = release.take() {
                        let _ = r.send(());
                    }
                    tokio::time::sleep(Duration::from_millis(10)).await;
                }
                s if s.starts_with('U') => {
                    let n: u32 = s[1..].parse().unwrap();
                    let f = ProbeLinkFlow { delivery_count: Some(0), link_credit: Some(n), available: None, drain: false, echo: false };
                    let _ = prod.on_incoming_flow(f).await;
                    tokio::task::yield_now().await;
                }
                _ => unreachable!(),
            }
        }
        let t = task.take().unwrap();
        let done = tokio::time::timeout(Duration::from_secs(5), t).await.is_ok();
        sched::disarm_all();
        done
    })
}

/// a real Sender whose peer takes at most `max_message_size` octets per transfer: every delivery is cut
/// into several transfers by the link.  The scripted receiver grants ONE credit at a time, the next only
/// when a delivery is complete, and finally asks for an echo.  Returns (results of the sends, deliveries
/// seen, delivery-count advance the sender reports, transfers seen).
pub fn run_split_credit(max_message_size: u64, sizes: &[usize]) -> Result<(Vec<String>, u32, Option<u32>, usize), String> {
    use crate::peer::*;
    use fe2o3_amqp::{Connection, Sender, Session};
    use fe2o3_amqp_types::definitions::{Handle, ReceiverSettleMode, Role};
    use fe2o3_amqp_types::messaging::{Accepted, DeliveryState, Message};
    use fe2o3_amqp_types::performatives::{Attach, Disposition, Flow, Performative};
    use serde_amqp::primitives::Binary;
    let rt = paused_runtime();
    let sizes = sizes.to_vec();
    rt.block_on(async move {
        let (cio, pio) = tokio::io::duplex(1 << 20);
        let mut peer = Peer::new(pio);
        let cs = sizes.clone();
        let client = tokio::spawn(async move {
            let mut conn = Connection::builder().container_id("c08-split").open_with_stream(cio).await.map_err(|e| format!("open: {:?}", e))?;
            let mut session = Session::builder().begin(&mut conn).await.map_err(|e| format!("begin: {:?}", e))?;
            let mut sender = Sender::builder().name("split").target("q").attach(&mut session).await.map_err(|e| format!("attach: {:?}", e))?;
            let mut results = vec![];
            for (k, len) in cs.iter().enumerate() {
                let msg = Message::from(Binary::from(vec![k as u8; *len]));
                results.push(match tokio::time::timeout(Duration::from_secs(5), sender.send(msg)).await {
                    Err(_) => "pending".to_string(),
                    Ok(Ok(_)) => "ok".to_string(),
                    Ok(Err(e)) => format!("error:{:?}", e).replace(' ', "_"),
                });
            }
            // keep the link up for the echo
            tokio::time::sleep(Duration::from_secs(2)).await;
            let _ = tokio::time::timeout(Duration::from_secs(5), sender.close()).await;
            let _ = tokio::time::timeout(Duration::from_secs(5), session.end()).await;
            let _ = tokio::time::timeout(Duration::from_secs(5), conn.close()).await;
            Ok::<_, String>(results)
        });
        let e = |x: PeerError| format!("{:?}", x);
        peer.accept_open(&PeerOpen::default()).await.map_err(e)?;
        peer.accept_begin(0, 0, 2048, 2048).await.map_err(e)?;
        let a = match peer.recv_frame().await.map_err(e)? {
            (_, Performative::Attach(a), _) => a,
            _ => return Err("expected attach".into()),
        };
        let idc = a.initial_delivery_count.unwrap_or(0);
        let ours = Attach {
            name: a.name.clone(),
            handle: Handle(4),
            role: Role::Receiver,
            snd_settle_mode: a.snd_settle_mode.clone(),
            rcv_settle_mode: ReceiverSettleMode::First,
            source: a.source.clone(),
            target: a.target.clone(),
            unsettled: None,
            incomplete_unsettled: false,
            initial_delivery_count: None,
            max_message_size: Some(max_message_size),
            offered_capabilities: None,
            desired_capabilities: None,
            properties: None,
        };
        peer.send(0, Performative::Attach(ours), &[]).await.map_err(e)?;
        let mut transfers = 0u32;
        let mut deliveries = 0u32;
        let grant = |dc: u32, nii: u32, credit: u32, echo: bool| Flow { next_incoming_id: Some(nii), incoming_window: 2048, next_outgoing_id: 0, outgoing_window: 2048, handle: Some(Handle(4)), delivery_count: Some(dc), link_credit: Some(credit), available: None, drain: false, echo, properties: None };
        peer.send(0, Performative::Flow(grant(idc, 0, 1, false)), &[]).await.map_err(e)?;
        let mut current: Option<u32> = None;
        let mut reported: Option<u32> = None;
        let mut asked = false;
        peer.recv_timeout = Duration::from_secs(6);
        loop {
            match peer.recv_frame().await {
                Ok((_, Performative::Transfer(t), _)) => {
                    transfers += 1;
                    if current.is_none() {
                        current = Some(t.delivery_id.unwrap_or(u32::MAX));
                    }
                    if !t.more {
                        let id = current.take().unwrap();
                        deliveries += 1;
                        let d = Disposition { role: Role::Receiver, first: id, last: None, settled: true, state: Some(DeliveryState::Accepted(Accepted {})), batchable: false };
                        peer.send(0, Performative::Disposition(d), &[]).await.map_err(e)?;
                        if (deliveries as usize) < sizes.len() {
                            // exactly one more
                            peer.send(0, Performative::Flow(grant(idc.wrapping_add(deliveries), transfers, 1, false)), &[]).await.map_err(e)?;
                        } else {
                            asked = true;
                            peer.send(0, Performative::Flow(grant(idc.wrapping_add(deliveries), transfers, 0, true)), &[]).await.map_err(e)?;
                        }
                    }
                }
                Ok((_, Performative::Flow(f), _)) => {
                    if asked && f.handle.is_some() {
                        reported = f.delivery_count.map(|d| d.wrapping_sub(idc));
                    }
                }
                Ok((_, Performative::Detach(d), _)) => {
                    let _ = peer.send(0, Performative::Detach(fe2o3_amqp_types::performatives::Detach { handle: Handle(4), closed: d.closed, error: None }), &[]).await;
                }
                Ok((_, Performative::End(_), _)) => {
                    let _ = peer.send(0, Performative::End(fe2o3_amqp_types::performatives::End { error: None }), &[]).await;
                }
                Ok((_, Performative::Close(_), _)) => {
                    let _ = peer.close_politely().await;
                    break;
                }
                Ok(_) => {}
                Err(_) => break,
            }
        }
        let results = tokio::time::timeout(Duration::from_secs(60), client).await.map_err(|_| "the client did not finish".to_string())?.map_err(|e| format!("{:?}", e))??;
        Ok((results, deliveries, reported, transfers as usize))
    })
}

/// A receiver takes credit back while a send that has already seen it waits for room in the session's
/// queue: `queue` = capacity of the link-to-session queue = transfers per big delivery (max-message-size
/// 100).  The receiver's flow (delivery-count 1, link-credit 1: exactly one more delivery) is in the pipe
/// when delivery A fills the queue and delivery B starts waiting for room.  Returns the deliveries and
/// transfer frames that arrive after that flow, and whether B's send completed.
pub fn run_revoked_while_waiting(queue: usize) -> Result<(u32, u32, bool), String> {
    use crate::peer::*;
    use fe2o3_amqp::{Connection, Sender, Session};
    use fe2o3_amqp_types::definitions::{Handle, ReceiverSettleMode, Role, SenderSettleMode};
    use fe2o3_amqp_types::messaging::{Data, Message};
    use fe2o3_amqp_types::performatives::{Attach, Flow, Performative};
    use serde_amqp::primitives::Binary;
    const CUT: u64 = 100;
    let rt = paused_runtime();
    rt.block_on(async move {
        let (cio, pio) = tokio::io::duplex(1 << 20);
        let mut peer = Peer::new(pio);
        let client = tokio::spawn(async move {
            let mut conn = Connection::builder().container_id("c08-revoke").open_with_stream(cio).await.map_err(|e| format!("open: {:?}", e))?;
            let session = Session::builder().buffer_size(queue).begin(&mut conn).await.map_err(|e| format!("begin: {:?}", e))?;
            Ok::<_, String>((conn, session))
        });
        let e = |x: PeerError| format!("{:?}", x);
        peer.accept_open(&PeerOpen::default()).await.map_err(e)?;
        peer.accept_begin(0, 0, 2048, 2048).await.map_err(e)?;
        let (_conn, mut session) = client.await.map_err(|e| format!("{:?}", e))??;
        let attach = tokio::spawn(async move {
            let s = Sender::builder().name("revoke").target("q").sender_settle_mode(SenderSettleMode::Settled).attach(&mut session).await.map_err(|e| format!("attach: {:?}", e))?;
            Ok::<_, String>((s, session))
        });
        let a = match peer.recv_frame().await.map_err(e)? {
            (_, Performative::Attach(a), _) => a,
            _ => return Err("expected attach".into()),
        };
        let ours = Attach {
            name: a.name.clone(),
            handle: Handle(0),
            role: Role::Receiver,
            snd_settle_mode: a.snd_settle_mode.clone(),
            rcv_settle_mode: ReceiverSettleMode::First,
            source: a.source.clone(),
            target: a.target.clone(),
            unsettled: None,
            incomplete_unsettled: false,
            initial_delivery_count: None,
            max_message_size: Some(CUT),
            offered_capabilities: None,
            desired_capabilities: None,
            properties: None,
        };
        peer.send(0, Performative::Attach(ours), &[]).await.map_err(e)?;
        let (mut sender, _session) = attach.await.map_err(|e| format!("{:?}", e))??;
        let flow = |seen: u32, dc: u32, credit: u32| Flow { next_incoming_id: Some(seen), incoming_window: 2048, next_outgoing_id: 0, outgoing_window: 2048, handle: Some(Handle(0)), delivery_count: Some(dc), link_credit: Some(credit), available: None, drain: false, echo: false, properties: None };
        // three credits; one small delivery
        peer.send(0, Performative::Flow(flow(0, 0, 3)), &[]).await.map_err(e)?;
        sender.send("m0").await.map_err(|e| format!("send m0: {:?}", e))?;
        match peer.recv_frame().await.map_err(e)? {
            (_, Performative::Transfer(_), _) => {}
            (_, other, _) => return Err(format!("expected a transfer, got {}", summarize(&other, 0))),
        }
        tokio::time::sleep(Duration::from_millis(100)).await;
        // the receiver has seen m0 and lowers its credit to one: exactly one more delivery
        peer.send(0, Performative::Flow(flow(1, 1, 1)), &[]).await.map_err(e)?;
        let big = || -> Message<Data> { Message::builder().data(Binary::from(vec![0x5a; queue * CUT as usize - 50 - 8])).build() };
        // A takes a credit and fills the queue; B sees the credit the sender still believes to have and waits for room
        let _a = sender.send_batchable(big()).await.map_err(|e| format!("send A: {:?}", e))?;
        let b = tokio::time::timeout(Duration::from_secs(2), sender.send_batchable(big())).await;
        let mut frames = 0u32;
        let mut deliveries = 0u32;
        peer.recv_timeout = Duration::from_millis(500);
        loop {
            match peer.recv_frame().await {
                Ok((_, Performative::Transfer(t), _)) => {
                    frames += 1;
                    if !t.more {
                        deliveries += 1;
                    }
                }
                Ok(_) => {}
                Err(_) => break,
            }
        }
        Ok((deliveries, frames, b.is_ok()))
    })
}

pub fn main(opts: &Opts) {
    let mut report = Report::new(
        "C08",
        "random histories of receiver flows (grants, zero, drain, echo, unset delivery-count / link-credit, values around 2^32) \
         interleaved with sends on the real sender flow state; plus scripted interleavings of the credit wait with the session \
         task's flow (schedule point between the failed check and the wait); non-trivial = a send blocked and a later send \
         went through, or delivery-count crossed 2^32; distinct by hash of the op list",
    );
    if let Some(path) = &opts.replay {
        let j: J = serde_json::from_str(&std::fs::read_to_string(path).expect("read replay")).expect("json");
        if let Some(sc) = j.get("split_credit") {
            let m = sc.get("max_message_size").and_then(|x| x.as_u64()).unwrap_or(64);
            let sizes: Vec<usize> = sc.get("sizes").and_then(|x| x.as_array()).map(|a| a.iter().filter_map(|x| x.as_u64()).map(|x| x as usize).collect()).unwrap_or_default();
            let r = run_split_credit(m, &sizes);
            println!("{:?}", r);
            let ok = matches!(&r, Ok((res, d, rep, _)) if res.iter().all(|x| x == "ok") && *d as usize == sizes.len() && *rep == Some(sizes.len() as u32));
            println!("REPLAY: property {} on this scenario", if ok { "holds" } else { "violated" });
            std::process::exit(if ok { 0 } else { 1 });
        }
        if let Some(name) = j.get("scenario").and_then(|x| x.as_str()) {
            let sc = SCENARIOS.iter().find(|s| s.name == name).expect("scenario");
            let done = run_wait_scenario(sc);
            println!("REPLAY scenario {}: waiting send completed = {}", name, done);
            std::process::exit(if done == j.get("expected_completes").and_then(|x| x.as_bool()).unwrap_or(true) { 0 } else { 1 });
        }
        let case = Case::from_json(j.get("case").unwrap_or(&j)).expect("case");
        let (outs, v) = evaluate(&case);
        for (l, o) in case.lines().iter().zip(render_impl(&outs)) {
            println!("{:<40} => {}", l, o);
        }
        match v {
            Some((k, d)) => {
                println!("REPLAY: property violated [{}]: {}", k, d);
                std::process::exit(1);
            }
            None => {
                println!("REPLAY: property holds on this history");
                std::process::exit(0);
            }
        }
    }

    let n_cases: u64 = if opts.thorough() { 60_000 } else { 4_000 };
    let max_ops: u64 = if opts.thorough() { 100 } else { 30 };
    let mut rng = Rng::new(opts.seed);
    let mut all_lines = vec![];
    let mut impl_lines = vec![];
    let mut cases = vec![];
    let mut starts = vec![];

    let mut corpus: Vec<Case> = vec![];
    if let Ok(rd) = std::fs::read_dir("/verif/corpus/C08") {
        let mut paths: Vec<_> = rd.filter_map(|e| e.ok()).map(|e| e.path()).collect();
        paths.sort();
        for p in paths {
            if let Ok(t) = std::fs::read_to_string(&p) {
                if let Ok(j) = serde_json::from_str::<J>(&t) {
                    if let Some(c) = Case::from_json(j.get("case").unwrap_or(&j)) {
                        corpus.push(c);
                    }
                }
            }
        }
    }
    report.count_n("corpus_cases", corpus.len() as u64);
    let total = corpus.len() as u64 + n_cases;
    for k in 0..total {
        let case = if (k as usize) < corpus.len() { corpus[k as usize].clone() } else { gen_case(&mut rng, max_ops) };
        let (outs, v) = evaluate(&case);
        report.evaluations += 1;
        let blocked = outs.iter().any(|o| o.emits.contains(&Emit::Blocked));
        let sent = outs.iter().filter(|o| matches!(o.emits.as_slice(), [Emit::Sent(_)])).count();
        let wraps = (case.init_dc as u64 + sent as u64) >= (1u64 << 32);
        for op in &case.ops {
            report.count(match op {
                Op::Send => "op_send",
                Op::TrySend => "op_try_send",
                Op::Flow { drain: true, .. } => "op_flow_drain",
                Op::Flow { dc: None, .. } => "op_flow_unset_delivery_count",
                Op::Flow { credit: None, .. } => "op_flow_unset_credit",
                Op::Flow { .. } => "op_flow",
            });
        }
        if blocked {
            report.count("cases_with_blocked_send");
        }
        if wraps {
            report.count("cases_crossing_2^32");
        }
        if (blocked && sent > 0) || wraps {
            report.nontrivial_case(fnv(&case.lines().join("|")));
        }
        if k % (total / 4).max(1) == 0 {
            report.sample(case.to_json());
        }
        if let Some((key, _)) = v {
            let mut fails = |ops: &[Op]| {
                let c = Case { init_dc: case.init_dc, ops: ops.to_vec() };
                matches!(evaluate(&c).1, Some((k2, _)) if k2 == key)
            };
            let small = Case { init_dc: case.init_dc, ops: shrink_list(&case.ops, &mut fails) };
            let (souts, sv) = evaluate(&small);
            report.finding(Finding {
                kind: "violation",
                key: key.clone(),
                description: sv.map(|x| x.1).unwrap_or_default(),
                replay: json!({"property": "C08", "module": "credit", "seed": opts.seed, "case": small.to_json(), "implementation": render_impl(&souts)}),
            });
        }
        starts.push(all_lines.len());
        all_lines.extend(case.lines());
        impl_lines.extend(render_impl(&outs));
        cases.push(case);
    }

    // deliveries cut into several transfers by the link: one credit each
    for &m in &[64u64, 100, 300] {
        let sizes = [1usize, m as usize + 1, 3 * m as usize, 10 * m as usize];
        report.evaluations += 1;
        report.count("split_delivery_cases");
        report.nontrivial_case(fnv(&format!("split-credit-{}", m)));
        let replay = json!({"property": "C08", "module": "credit", "split_credit": {"max_message_size": m, "sizes": sizes}});
        match run_split_credit(m, &sizes) {
            Ok((results, deliveries, reported, transfers)) => {
                if results.iter().any(|r| r != "ok") || deliveries as usize != sizes.len() {
                    report.finding(Finding { kind: "violation", key: "split-delivery-waits-despite-credit".into(), description: format!("peer max-message-size {}: messages of {:?} octets, one credit granted per message: sends {:?}, {} deliveries ({} transfers) arrived", m, sizes, results, deliveries, transfers), replay });
                } else if reported != Some(sizes.len() as u32) {
                    report.finding(Finding { kind: "violation", key: "split-delivery-consumed-other-than-one-credit".into(), description: format!("peer max-message-size {}: after {} deliveries in {} transfers the sender reports its delivery-count advanced by {:?}", m, deliveries, transfers, reported), replay });
                }
            }
            Err(e) => report.finding(Finding { kind: "violation", key: "split-credit-scenario-failed".into(), description: e, replay }),
        }
    }

    // credit taken back while a send waits for room
    for &q in &[2usize, 3, 8, 64] {
        report.evaluations += 1;
        report.count("revoked_while_waiting_cases");
        report.nontrivial_case(fnv(&format!("revoked-while-waiting-{}", q)));
        let replay = json!({"property": "C08", "module": "credit", "revoked_while_waiting": {"queue": q}});
        match run_revoked_while_waiting(q) {
            Ok((deliveries, frames, b_done)) => {
                if deliveries > 1 || b_done {
                    report.finding(Finding { kind: "violation", key: "credit-taken-back-while-waiting-for-room-is-used".into(), description: format!("link-to-session queue of {}: the receiver's latest flow (delivery-count 1, link-credit 1) allows one more delivery; {} deliveries in {} transfers arrived after it (second send completed: {})", q, deliveries, frames, b_done), replay });
                } else if deliveries < 1 {
                    report.finding(Finding { kind: "violation", key: "send-waits-despite-credit".into(), description: format!("link-to-session queue of {}: the delivery covered by the receiver's latest flow did not arrive ({} transfers)", q, frames), replay });
                }
            }
            Err(e) => report.finding(Finding { kind: "violation", key: "revoked-while-waiting-scenario-failed".into(), description: e, replay }),
        }
    }

    // wait protocol scenarios: implementation
    let mut wait_impl: Vec<(String, bool)> = vec![];
    for sc in SCENARIOS {
        let done = run_wait_scenario(sc);
        report.evaluations += 1;
        report.nontrivial_case(fnv(sc.name));
        wait_impl.push((sc.name.to_string(), done));
        // the property: the send completes iff sufficient credit was granted at some point
        let granted = sc.initial_credit > 0 || sc.script.iter().any(|s| s.starts_with('U') && s[1..].parse::<u32>().unwrap() > 0);
        if done != granted {
            report.finding(Finding {
                kind: "violation",
                key: format!("wait:{}", sc.name),
                description: format!("scenario {} ({:?}): credit granted = {}, waiting send completed = {}", sc.name, sc.script, granted, done),
                replay: json!({"property": "C08", "module": "credit", "scenario": sc.name, "script": sc.script, "expected_completes": granted, "completed": done}),
            });
        }
    }
    report.extra.insert("wait_scenarios".into(), json!(wait_impl));

    if driver_available() {
        let mut lines = all_lines.clone();
        let wait_start = lines.len();
        for sc in SCENARIOS {
            lines.push(format!("W {} 1 {}", sc.initial_credit, sc.acts));
        }
        match run_driver(&lines) {
            Ok(model) => {
                report.model_used = true;
                report.model_lines = model.len() as u64;
                let mut reported = 0;
                for (ci, case) in cases.iter().enumerate() {
                    let s = starts[ci];
                    let e = s + case.lines().len();
                    if let Some(off) = (s..e).find(|&i| model[i] != impl_lines[i]) {
                        if reported == 0 {
                            let mut fails = |ops: &[Op]| {
                                let c = Case { init_dc: case.init_dc, ops: ops.to_vec() };
                                let il = render_impl(&run_impl(&c));
                                matches!(run_driver(&c.lines()), Ok(ml) if ml != il)
                            };
                            let small = Case { init_dc: case.init_dc, ops: shrink_list(&case.ops, &mut fails) };
                            let il = render_impl(&run_impl(&small));
                            let ml = run_driver(&small.lines()).unwrap_or_default();
                            report.finding(Finding {
                                kind: "disagreement",
                                key: "model-vs-implementation".into(),
                                description: format!("model and implementation differ (first at line {} of case {})", off - s, ci),
                                replay: json!({"property": "C08", "module": "credit", "case": small.to_json(), "implementation": il, "model": ml}),
                            });
                        }
                        reported += 1;
                    }
                }
                report.count_n("cases_disagreeing_with_model", reported);
                for (k, sc) in SCENARIOS.iter().enumerate() {
                    let m = &model[wait_start + k];
                    let model_completes = m.ends_with("completes=1");
                    if model_completes != wait_impl[k].1 {
                        report.finding(Finding {
                            kind: "disagreement",
                            key: format!("wait-model:{}", sc.name),
                            description: format!("wait scenario {}: model says completes={}, implementation completed={}", sc.name, model_completes, wait_impl[k].1),
                            replay: json!({"property": "C08", "module": "credit", "scenario": sc.name, "model": m, "expected_completes": model_completes, "completed": wait_impl[k].1}),
                        });
                    }
                }
            }
            Err(e) => report.notes.push(format!("model driver failed: {}", e)),
        }
    } else {
        report.notes.push("model driver not available: correspondence skipped".into());
    }
    report.write(&opts.report);
    println!("credit: {} cases, {} non-trivial, {} findings", report.evaluations, report.nontrivial.len(), report.findings.len());
}
