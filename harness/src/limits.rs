//! C17 — negotiated limits: channel-max and the two idle time-outs.
//! (a) begin / end histories under every combination of local and remote channel-max, compared
//!     with the slab + bound model; (b) the gaps between the frames a client writes while the
//!     peer has advertised an idle time-out; (c) a client with its own idle time-out against a
//!     peer that keeps sending in time, then falls silent.

use std::time::Duration;

use fe2o3_amqp::session::SessionHandle;
use fe2o3_amqp::{Connection, Session};
use fe2o3_amqp_types::performatives::{End, Performative};
use serde_json::{json, Value as J};

use crate::common::*;
use crate::peer::*;

#[derive(Clone, Debug)]
pub struct ChanCase {
    pub local_max: u16,
    pub remote_max: u16,
    /// true = begin a session, false = end the live session at that index (mod live count)
    pub ops: Vec<(bool, usize)>,
}

impl ChanCase {
    pub fn to_json(&self) -> J {
        json!({"local_max": self.local_max, "remote_max": self.remote_max, "ops": self.ops.iter().map(|(b, i)| json!([b, i])).collect::<Vec<_>>()})
    }
    pub fn from_json(j: &J) -> Option<ChanCase> {
        Some(ChanCase {
            local_max: j.get("local_max")?.as_u64()? as u16,
            remote_max: j.get("remote_max")?.as_u64()? as u16,
            ops: j.get("ops")?.as_array()?.iter().filter_map(|x| Some((x.get(0)?.as_bool()?, x.get(1)?.as_u64()? as usize))).collect(),
        })
    }
}

/// per op: "ch <n>" (begin frame seen on channel n), "MAX" (refused locally, nothing written),
/// "ERR:<…>", "ENDED <n>"
pub fn run_channels(case: &ChanCase) -> Result<Vec<String>, String> {
    let rt = paused_runtime();
    let case = case.clone();
    rt.block_on(async move {
        let (cio, pio) = tokio::io::duplex(1 << 18);
        let mut peer = Peer::new(pio);
        let lm = case.local_max;
        let client = tokio::spawn(async move { Connection::builder().container_id("c17").channel_max(lm).open_with_stream(cio).await });
        peer.accept_open(&PeerOpen { channel_max: case.remote_max, ..PeerOpen::default() }).await.map_err(|e| format!("{:?}", e))?;
        let mut conn = client.await.map_err(|e| format!("{:?}", e))?.map_err(|e| format!("open: {:?}", e))?;
        let mut live: Vec<(u16, SessionHandle<()>)> = vec![];
        let mut out = vec![];
        for (is_begin, idx) in &case.ops {
            if *is_begin {
                let begin_fut = tokio::time::timeout(Duration::from_millis(200), Session::begin(&mut conn));
                let peer_fut = async {
                    peer.recv_timeout = Duration::from_millis(20);
                    match peer.recv().await {
                        Ok(Incoming::Frame { channel, performative: Performative::Begin(_), .. }) => {
                            let b = fe2o3_amqp_types::performatives::Begin {
                                remote_channel: Some(channel),
                                next_outgoing_id: 0,
                                incoming_window: 100,
                                outgoing_window: 100,
                                handle_max: fe2o3_amqp_types::definitions::Handle(10),
                                offered_capabilities: None,
                                desired_capabilities: None,
                                properties: None,
                            };
                            let _ = peer.send(channel, Performative::Begin(b), &[]).await;
                            Some(channel)
                        }
                        _ => None,
                    }
                };
                let (r, seen) = tokio::join!(begin_fut, peer_fut);
                match (r, seen) {
                    (Ok(Ok(sh)), Some(ch)) => {
                        out.push(format!("ch {}", ch));
                        live.push((ch, sh));
                    }
                    (Ok(Err(e)), None) => {
                        let s = format!("{:?}", e);
                        out.push(if s.contains("LocalChannelMaxReached") { "MAX".to_string() } else { format!("ERR:{}", s.replace(' ', "_")) });
                    }
                    (r, seen) => out.push(format!("ERR:begin={:?}/frame={:?}", r.map(|x| x.map(|_| ()).map_err(|e| format!("{:?}", e))), seen).replace(' ', "_")),
                }
            } else {
                if live.is_empty() {
                    out.push("-".into());
                    continue;
                }
                let (ch, mut sh) = live.remove(idx % live.len());
                let end_fut = tokio::time::timeout(Duration::from_millis(200), sh.end());
                let peer_fut = async {
                    peer.recv_timeout = Duration::from_millis(20);
                    if let Ok(Incoming::Frame { channel, performative: Performative::End(_), .. }) = peer.recv().await {
                        let _ = peer.send(channel, Performative::End(End { error: None }), &[]).await;
                    }
                };
                let (r, _) = tokio::join!(end_fut, peer_fut);
                out.push(match r {
                    Ok(Ok(())) => format!("ENDED {}", ch),
                    other => format!("ERR:end={:?}", other.map(|x| x.map_err(|e| format!("{:?}", e)))).replace(' ', "_"),
                });
                // let the engine give the channel back
                tokio::time::sleep(Duration::from_millis(5)).await;
            }
        }
        drop(live);
        let _ = tokio::time::timeout(Duration::from_millis(100), conn.close()).await;
        Ok(out)
    })
}

pub fn check_channels(case: &ChanCase, out: &[String]) -> Option<(String, String)> {
    let bound = case.local_max.min(case.remote_max) as u32;
    let mut live: Vec<u32> = vec![];
    let mut li = 0usize;
    for (k, ((is_begin, idx), o)) in case.ops.iter().zip(out.iter()).enumerate() {
        if *is_begin {
            if let Some(ch) = o.strip_prefix("ch ").and_then(|x| x.parse::<u32>().ok()) {
                if ch > bound {
                    return Some(("channel-above-channel-max".into(), format!("op {}: a session was begun on channel {} with channel-max local {} / remote {}", k, ch, case.local_max, case.remote_max)));
                }
                if live.contains(&ch) {
                    return Some(("channel-in-use".into(), format!("op {}: channel {} handed out twice", k, ch)));
                }
                live.push(ch);
            } else if o == "MAX" {
                if (live.len() as u32) <= bound {
                    return Some(("refused-below-the-limit".into(), format!("op {}: begin refused with {} live sessions and channel-max {}", k, live.len(), bound)));
                }
            } else {
                return Some(("begin-failed".into(), format!("op {}: {}", k, o)));
            }
        } else if !live.is_empty() {
            // the harness removed `idx % len` of its own list, which is in the same order
            let i = idx % live.len();
            if let Some(ch) = o.strip_prefix("ENDED ").and_then(|x| x.parse::<u32>().ok()) {
                if live[i] != ch {
                    return Some(("bookkeeping".into(), format!("op {}: ended {} but expected {}", k, ch, live[i])));
                }
            } else {
                return Some(("end-failed".into(), format!("op {}: {}", k, o)));
            }
            live.remove(i);
        }
        li += 1;
    }
    let _ = li;
    None
}

/// (b) gaps between frames written by an otherwise idle client; returns arrival times (virtual µs
/// since the peer's open was sent) and the time the observation ended
pub fn run_heartbeat(idle_ms: u32, periods: u32, with_traffic: bool) -> Result<(Vec<u64>, u64), String> {
    run_heartbeat_with(idle_ms, periods, with_traffic, None)
}

/// `peer_talks_every`: the peer itself sends an empty frame every so many ms (what arrives must not
/// postpone what is owed)
pub fn run_heartbeat_with(idle_ms: u32, periods: u32, with_traffic: bool, peer_talks_every: Option<u32>) -> Result<(Vec<u64>, u64), String> {
    let rt = paused_runtime();
    rt.block_on(async move {
        let (cio, pio) = tokio::io::duplex(1 << 18);
        let mut peer = Peer::new(pio);
        let client = tokio::spawn(async move {
            let mut conn = Connection::builder().container_id("c17h").open_with_stream(cio).await.map_err(|e| format!("{:?}", e))?;
            if with_traffic {
                // some frames of its own at irregular moments
                for k in 0..4u64 {
                    tokio::time::sleep(Duration::from_millis(idle_ms as u64 * (k + 1) / 3)).await;
                    if let Ok(mut s) = Session::begin(&mut conn).await {
                        let _ = s.end().await;
                    }
                }
            }
            tokio::time::sleep(Duration::from_millis(idle_ms as u64 * (periods as u64 + 2))).await;
            let _ = conn.close().await;
            Ok::<(), String>(())
        });
        peer.accept_open(&PeerOpen { idle_time_out: Some(idle_ms), ..PeerOpen::default() }).await.map_err(|e| format!("{:?}", e))?;
        let t0 = tokio::time::Instant::now();
        let mut times = vec![];
        let horizon = Duration::from_millis(idle_ms as u64 * periods as u64);
        let mut next_talk = peer_talks_every.map(|g| Duration::from_millis(g.max(1) as u64));
        loop {
            let left = horizon.saturating_sub(t0.elapsed());
            if left.is_zero() {
                break;
            }
            peer.recv_timeout = match next_talk {
                Some(t) => left.min(t.saturating_sub(t0.elapsed())).max(Duration::from_micros(1)),
                None => left,
            };
            match peer.recv().await {
                Err(PeerError::Timeout) if next_talk.is_some() && t0.elapsed() < horizon => {
                    let _ = peer.send_empty().await;
                    next_talk = Some(t0.elapsed() + Duration::from_millis(peer_talks_every.unwrap_or(1).max(1) as u64));
                }
                Ok(Incoming::Frame { channel, performative, .. }) => {
                    times.push(t0.elapsed().as_micros() as u64);
                    // keep sessions going
                    match performative {
                        Performative::Begin(_) => {
                            let b = fe2o3_amqp_types::performatives::Begin { remote_channel: Some(channel), next_outgoing_id: 0, incoming_window: 100, outgoing_window: 100, handle_max: fe2o3_amqp_types::definitions::Handle(10), offered_capabilities: None, desired_capabilities: None, properties: None };
                            let _ = peer.send(channel, Performative::Begin(b), &[]).await;
                        }
                        Performative::End(_) => {
                            let _ = peer.send(channel, Performative::End(End { error: None }), &[]).await;
                        }
                        _ => {}
                    }
                }
                Ok(Incoming::Empty { .. }) => times.push(t0.elapsed().as_micros() as u64),
                Err(PeerError::Timeout) => break,
                Err(e) => return Err(format!("peer: {:?}", e)),
            }
        }
        let end = t0.elapsed().as_micros() as u64;
        client.abort();
        Ok((times, end))
    })
}

/// (c) the client's own idle time-out: the peer sends an empty frame every `gap_ms`, `n` times, then
/// falls silent.  Returns (advertised idle-time-out in the client's open, virtual ms at which the
/// engine stopped counted from the last frame the peer sent, the handle's verdict, stopped during the
/// lively phase?)
/// a stream whose shutdown fails (the peer is gone): the time-out that tore the connection down must
/// still be what the application is told
#[derive(Debug)]
pub struct FailingShutdown<S> {
    inner: S,
    fail: bool,
}

impl<S: tokio::io::AsyncRead + Unpin> tokio::io::AsyncRead for FailingShutdown<S> {
    fn poll_read(mut self: std::pin::Pin<&mut Self>, cx: &mut std::task::Context<'_>, buf: &mut tokio::io::ReadBuf<'_>) -> std::task::Poll<std::io::Result<()>> {
        std::pin::Pin::new(&mut self.inner).poll_read(cx, buf)
    }
}

impl<S: tokio::io::AsyncWrite + Unpin> tokio::io::AsyncWrite for FailingShutdown<S> {
    fn poll_write(mut self: std::pin::Pin<&mut Self>, cx: &mut std::task::Context<'_>, buf: &[u8]) -> std::task::Poll<std::io::Result<usize>> {
        std::pin::Pin::new(&mut self.inner).poll_write(cx, buf)
    }
    fn poll_flush(mut self: std::pin::Pin<&mut Self>, cx: &mut std::task::Context<'_>) -> std::task::Poll<std::io::Result<()>> {
        std::pin::Pin::new(&mut self.inner).poll_flush(cx)
    }
    fn poll_shutdown(mut self: std::pin::Pin<&mut Self>, cx: &mut std::task::Context<'_>) -> std::task::Poll<std::io::Result<()>> {
        if self.fail {
            return std::task::Poll::Ready(Err(std::io::Error::new(std::io::ErrorKind::NotConnected, "shutdown of a dead stream")));
        }
        std::pin::Pin::new(&mut self.inner).poll_shutdown(cx)
    }
}

pub fn run_local_idle(idle_ms: u32, gap_ms: u32, n: u32) -> Result<(Option<u32>, Option<u64>, String, bool), String> {
    run_local_idle_on(idle_ms, gap_ms, n, false)
}

pub fn run_local_idle_on(idle_ms: u32, gap_ms: u32, n: u32, shutdown_fails: bool) -> Result<(Option<u32>, Option<u64>, String, bool), String> {
    run_local_idle_pipe(idle_ms, gap_ms, n, shutdown_fails, 1 << 18)
}

/// `pipe`: capacity of the in-memory stream in each direction.  The peer reads nothing after the open
/// exchange, so with a small pipe whatever the endpoint tries to write when its time-out fires finds no room.
pub fn run_local_idle_pipe(idle_ms: u32, gap_ms: u32, n: u32, shutdown_fails: bool, pipe: usize) -> Result<(Option<u32>, Option<u64>, String, bool), String> {
    let rt = paused_runtime();
    rt.block_on(async move {
        let (cio, pio) = tokio::io::duplex(pipe);
        let cio = FailingShutdown { inner: cio, fail: shutdown_fails };
        let mut peer = Peer::new(pio);
        let client = tokio::spawn(async move { Connection::builder().container_id("c17i").idle_time_out(idle_ms).open_with_stream(cio).await });
        let open = peer.accept_open(&PeerOpen::default()).await.map_err(|e| format!("{:?}", e))?;
        let advertised = open.idle_time_out;
        let mut conn = client.await.map_err(|e| format!("{:?}", e))?.map_err(|e| format!("open: {:?}", e))?;
        let watcher = tokio::spawn(async move {
            let t = tokio::time::Instant::now();
            let r = conn.on_close().await;
            (t.elapsed().as_millis() as u64, r.map_err(|e| format!("{:?}", e)))
        });
        let t0 = tokio::time::Instant::now();
        let mut early = false;
        for _ in 0..n {
            tokio::time::sleep(Duration::from_millis(gap_ms as u64)).await;
            if watcher.is_finished() {
                early = true;
                break;
            }
            let _ = peer.send_empty().await;
        }
        let last = t0.elapsed().as_millis() as u64;
        // silence
        let r = tokio::time::timeout(Duration::from_millis(idle_ms as u64 * 4 + 1000), watcher).await;
        match r {
            Ok(Ok((stopped_at, res))) => Ok((advertised, Some(stopped_at.saturating_sub(last)), match res {
                Ok(()) => "ok".into(),
                Err(e) => e,
            }, early)),
            Ok(Err(e)) => Err(format!("{:?}", e)),
            Err(_) => Ok((advertised, None, "still-open".into(), early)),
        }
    })
}

/// (c'') the application closes and the peer, silent from then on, never answers: the local time-out still ends
/// the wait.  The peer's last frame arrives `last_ms` after the open, `close()` is called at `close_ms`.
/// Returns how long after the peer's last frame `close()` returned (None = still waiting after 4 T) and with what.
pub fn run_close_then_silence(idle_ms: u32, last_ms: u32, close_ms: u32) -> Result<(Option<u64>, String), String> {
    let rt = paused_runtime();
    rt.block_on(async move {
        let (cio, pio) = tokio::io::duplex(1 << 18);
        let mut peer = Peer::new(pio);
        let client = tokio::spawn(async move { Connection::builder().container_id("c17c").idle_time_out(idle_ms).open_with_stream(cio).await });
        let _open = peer.accept_open(&PeerOpen::default()).await.map_err(|e| format!("{:?}", e))?;
        let mut conn = client.await.map_err(|e| format!("{:?}", e))?.map_err(|e| format!("open: {:?}", e))?;
        let t0 = tokio::time::Instant::now();
        tokio::time::sleep(Duration::from_millis(last_ms as u64)).await;
        let _ = peer.send_empty().await;
        let last = t0.elapsed().as_millis() as u64;
        tokio::time::sleep(Duration::from_millis((close_ms - last_ms) as u64)).await;
        let r = tokio::time::timeout(Duration::from_millis(idle_ms as u64 * 4 + 1000), conn.close()).await;
        let at = t0.elapsed().as_millis() as u64;
        // the peer reads what was written but says nothing
        drop(peer);
        Ok(match r {
            Err(_) => (None, "still-waiting".to_string()),
            Ok(Ok(())) => (Some(at.saturating_sub(last)), "ok".to_string()),
            Ok(Err(e)) => (Some(at.saturating_sub(last)), format!("{:?}", e)),
        })
    })
}

/// (d) a reader that is late: a frame arrives `write_at_ms` after the transport was bound (before the
/// idle deadline), nobody polls the transport until `poll_at_ms` (after the deadline), and then it is
/// polled twice: right away, and again after another 3/4 of the time-out with one more frame written
/// half-way.  What the polls return: "frame" | "timeout" | "eof" | "pending" | "error:.."
pub fn run_late_reader(idle_ms: u32, write_at_ms: u32, poll_at_ms: u32) -> Result<Vec<String>, String> {
    use fe2o3_amqp::frames::amqp::Frame;
    use fe2o3_amqp::transport::Transport;
    use futures_util::StreamExt;
    use tokio::io::AsyncWriteExt;
    let rt = paused_runtime();
    rt.block_on(async move {
        let (a, mut b) = tokio::io::duplex(1 << 16);
        let mut transport: Transport<_, Frame> = Transport::bind(a, 512, Some(Duration::from_millis(idle_ms as u64)));
        let empty = [0u8, 0, 0, 8, 2, 0, 0, 0];
        async fn poll_once<Io: tokio::io::AsyncRead + tokio::io::AsyncWrite + Unpin>(t: &mut Transport<Io, Frame>) -> String {
            match tokio::time::timeout(Duration::from_micros(10), t.next()).await {
                Err(_) => "pending".into(),
                Ok(None) => "eof".into(),
                Ok(Some(Ok(_))) => "frame".into(),
                Ok(Some(Err(e))) => {
                    let d = format!("{:?}", e);
                    if d.contains("IdleTimeoutElapsed") { "timeout".into() } else { format!("error:{}", d) }
                }
            }
        }
        let mut out = vec![];
        tokio::time::sleep(Duration::from_millis(write_at_ms as u64)).await;
        b.write_all(&empty).await.map_err(|e| e.to_string())?;
        tokio::time::sleep(Duration::from_millis((poll_at_ms - write_at_ms) as u64)).await;
        out.push(poll_once(&mut transport).await);
        // the deadline counts from the moment the frame was read
        tokio::time::sleep(Duration::from_millis(idle_ms as u64 * 3 / 8)).await;
        b.write_all(&empty).await.map_err(|e| e.to_string())?;
        tokio::time::sleep(Duration::from_millis(idle_ms as u64 * 3 / 8)).await;
        out.push(poll_once(&mut transport).await);
        Ok(out)
    })
}

pub fn gen_chan_case(rng: &mut Rng) -> ChanCase {
    let local_max = *rng.pick(&[0u16, 1, 2, 3, 255, 65535]);
    let remote_max = *rng.pick(&[0u16, 1, 2, 4, 100, 65535]);
    let n = rng.range(1, 12);
    let ops = (0..n).map(|_| (rng.chance(2, 3), rng.below(5) as usize)).collect();
    ChanCase { local_max, remote_max, ops }
}

pub fn main(opts: &Opts) {
    let prop = if opts.property.is_empty() { "C17".to_string() } else { opts.property.clone() };
    let mut report = Report::new(
        &prop,
        "(a) begin / end histories (1..12 operations) under local channel-max 0..65535 x remote channel-max 0..65535, every begin frame's channel \
         checked against min(local, remote) and the history compared with the slab-and-bound model; (b) idle clients (and clients with sparse \
         traffic of their own) whose peer advertised idle-time-out 2 ms .. 60 s, gaps between the frames they write over 6..12 periods; (c) clients \
         with their own idle-time-out against a peer that sends in time and then falls silent; non-trivial = a begin was refused or reused a \
         channel / at least three frames were timed / the time-out fired; distinct by hash of the case",
    );
    if let Some(path) = &opts.replay {
        let j: J = serde_json::from_str(&std::fs::read_to_string(path).expect("read")).expect("json");
        if let Some(case) = j.get("channels").and_then(ChanCase::from_json) {
            let out = run_channels(&case);
            println!("{:?}", out);
            match out {
                Ok(o) => match check_channels(&case, &o) {
                    Some((k, d)) => {
                        println!("REPLAY: property violated [{}]: {}", k, d);
                        std::process::exit(1);
                    }
                    None => {
                        println!("REPLAY: property holds on this scenario");
                        std::process::exit(0);
                    }
                },
                Err(e) => {
                    println!("REPLAY: scenario failed: {}", e);
                    std::process::exit(1);
                }
            }
        }
        if let Some(h) = j.get("heartbeat") {
            let idle = h.get("idle_ms").and_then(|x| x.as_u64()).unwrap_or(1000) as u32;
            let traffic = h.get("traffic").and_then(|x| x.as_bool()).unwrap_or(false);
            let r = run_heartbeat_with(idle, 8, traffic, h.get("peer_talks_every").and_then(|x| x.as_u64()).map(|x| x as u32));
            println!("{:?}", r);
            if let Ok((times, end)) = r {
                if let Some(d) = worst_gap(&times, end, idle) {
                    println!("REPLAY: property violated [idle-interval-without-a-frame]: {}", d);
                    std::process::exit(1);
                }
            }
            println!("REPLAY: property holds on this scenario");
            std::process::exit(0);
        }
        if let Some(h) = j.get("late_reader") {
            let g = |k: &str| h.get(k).and_then(|x| x.as_u64()).unwrap_or(0) as u32;
            let r = run_late_reader(g("idle_ms"), g("write_at_ms"), g("poll_at_ms"));
            println!("{:?}", r);
            if r == Ok(vec!["frame".to_string(), "frame".to_string()]) {
                println!("REPLAY: property holds on this scenario");
                std::process::exit(0);
            }
            println!("REPLAY: property violated [timed-out-although-frames-arrived-in-time]");
            std::process::exit(1);
        }
        if let Some(h) = j.get("local_idle") {
            let idle = h.get("idle_ms").and_then(|x| x.as_u64()).unwrap_or(1000) as u32;
            let gap = h.get("gap_ms").and_then(|x| x.as_u64()).unwrap_or(100) as u32;
            let n = h.get("n").and_then(|x| x.as_u64()).unwrap_or(5) as u32;
            let r = run_local_idle_on(idle, gap, n, h.get("shutdown_fails").and_then(|x| x.as_bool()).unwrap_or(false));
            println!("{:?}", r);
            match r.ok().and_then(|x| check_local_idle(idle, gap, &x)) {
                Some((k, d)) => {
                    println!("REPLAY: property violated [{}]: {}", k, d);
                    std::process::exit(1);
                }
                None => {
                    println!("REPLAY: property holds on this scenario");
                    std::process::exit(0);
                }
            }
        }
        std::process::exit(2);
    }
    let mut rng = Rng::new(opts.seed ^ 0xc17);
    // (a)
    let n = if opts.thorough() { 6000 } else { 500 };
    let mut lines: Vec<String> = vec![];
    let mut imp: Vec<String> = vec![];
    let mut refs: Vec<(usize, ChanCase)> = vec![];
    for k in 0..n {
        let case = gen_chan_case(&mut rng);
        report.evaluations += 1;
        match run_channels(&case) {
            Ok(out) => {
                if out.iter().any(|o| o == "MAX") || out.iter().filter(|o| o.starts_with("ENDED")).count() > 0 && out.iter().filter(|o| o.starts_with("ch ")).count() > 1 {
                    report.nontrivial_case(fnv(&case.to_json().to_string()));
                }
                if out.iter().any(|o| o == "MAX") {
                    report.count("histories_with_a_refused_begin");
                }
                if k % (n / 3).max(1) == 0 {
                    report.sample(case.to_json());
                }
                if let Some((key, desc)) = check_channels(&case, &out) {
                    report.finding(Finding { kind: "violation", key, description: desc, replay: json!({"property": prop, "module": "limits", "channels": case.to_json(), "observed": out}) });
                }
                refs.push((lines.len(), case.clone()));
                lines.push(format!("N reset {}", case.local_max.min(case.remote_max)));
                imp.push("ok".into());
                let mut live: Vec<u32> = vec![];
                for ((is_begin, idx), o) in case.ops.iter().zip(out.iter()) {
                    if *is_begin {
                        lines.push("N alloc".into());
                        imp.push(o.clone());
                        if let Some(ch) = o.strip_prefix("ch ").and_then(|x| x.parse().ok()) {
                            live.push(ch);
                        }
                    } else if !live.is_empty() {
                        let ch = live.remove(idx % live.len());
                        lines.push(format!("N free {}", ch));
                        imp.push("FREED".into());
                    }
                }
            }
            Err(e) => report.finding(Finding { kind: "violation", key: "channels-scenario-failed".into(), description: e, replay: json!({"property": prop, "module": "limits", "channels": case.to_json()}) }),
        }
    }
    // (b)
    let idles: &[u32] = if opts.thorough() { &[2, 3, 7, 10, 100, 999, 1000, 1001, 5000, 30000, 60000] } else { &[2, 7, 100, 1000, 1001, 30000] };
    for &idle in idles {
        for traffic in [false, true] {
            report.evaluations += 1;
            match run_heartbeat(idle, if opts.thorough() { 12 } else { 6 }, traffic) {
                Ok((times, end)) => {
                    if times.len() >= 3 {
                        report.nontrivial_case(fnv(&format!("hb{}{}", idle, traffic)));
                    }
                    report.count_n("heartbeat_frames_timed", times.len() as u64);
                    if let Some(d) = worst_gap(&times, end, idle) {
                        report.finding(Finding { kind: "violation", key: "idle-interval-without-a-frame".into(), description: d, replay: json!({"property": prop, "module": "limits", "heartbeat": {"idle_ms": idle, "traffic": traffic}}) });
                    }
                    // model: the period derived from the advertised time-out
                    lines.push(format!("N period {}", idle));
                    // tokio's timer has millisecond granularity: the mean gap is compared, to the nearest half millisecond
                    let period = if times.len() >= 3 && !traffic { format!("~{}", (times[times.len() - 1] - times[0]) / (times.len() as u64 - 1)) } else { "skip".to_string() };
                    imp.push(period);
                }
                Err(e) => report.finding(Finding { kind: "violation", key: "heartbeat-scenario-failed".into(), description: e, replay: json!({"property": prop, "module": "limits", "heartbeat": {"idle_ms": idle, "traffic": traffic}}) }),
            }
        }
    }
    // (b') the peer keeps talking: frames that arrive do not stand in for the frames that are owed
    for &(idle, gap) in &[(1000u32, 300u32), (1000, 90), (100, 40), (30000, 9000), (7, 3)] {
        report.evaluations += 1;
        report.count("heartbeat_cases_with_a_talking_peer");
        match run_heartbeat_with(idle, if opts.thorough() { 12 } else { 6 }, false, Some(gap)) {
            Ok((times, end)) => {
                if times.len() >= 3 {
                    report.nontrivial_case(fnv(&format!("hbt{}{}", idle, gap)));
                }
                if let Some(d) = worst_gap(&times, end, idle) {
                    report.finding(Finding { kind: "violation", key: "idle-interval-without-a-frame:peer-talking".into(), description: format!("the peer sends an empty frame every {} ms: {}", gap, d), replay: json!({"property": prop, "module": "limits", "heartbeat": {"idle_ms": idle, "traffic": false, "peer_talks_every": gap}}) });
                }
            }
            Err(e) => report.finding(Finding { kind: "violation", key: "heartbeat-scenario-failed".into(), description: e, replay: json!({"property": prop, "module": "limits", "heartbeat": {"idle_ms": idle, "traffic": false, "peer_talks_every": gap}}) }),
        }
    }
    // (c)
    let n_idle = if opts.thorough() { 300 } else { 40 };
    for _ in 0..n_idle {
        let idle = *rng.pick(&[50u32, 200, 1000, 4000]);
        let gap = match rng.below(4) {
            0 => idle / 4,
            1 => idle / 2,
            2 => idle - idle / 10,
            _ => rng.range(1, idle as u64 - 1) as u32,
        }
        .max(1);
        let n = rng.range(0, 8) as u32;
        // every third time the stream is dead by then: its shutdown fails as well
        let shutdown_fails = rng.chance(1, 3);
        report.evaluations += 1;
        if shutdown_fails {
            report.count("local_idle_with_failing_shutdown");
        }
        match run_local_idle_on(idle, gap, n, shutdown_fails) {
            Ok(r) => {
                if r.1.is_some() {
                    report.nontrivial_case(fnv(&format!("li{}/{}/{}/{}", idle, gap, n, shutdown_fails)));
                }
                if let Some((key, desc)) = check_local_idle(idle, gap, &r) {
                    let key = if shutdown_fails && key == "time-out-not-reported" { "time-out-not-reported:shutdown-failed-too".to_string() } else { key };
                    report.finding(Finding { kind: "violation", key, description: desc, replay: json!({"property": prop, "module": "limits", "local_idle": {"idle_ms": idle, "gap_ms": gap, "n": n, "shutdown_fails": shutdown_fails}}) });
                }
            }
            Err(e) => report.finding(Finding { kind: "violation", key: "local-idle-scenario-failed".into(), description: e, replay: json!({"property": prop, "module": "limits", "local_idle": {"idle_ms": idle, "gap_ms": gap, "n": n, "shutdown_fails": shutdown_fails}}) }),
        }
    }
    // (c') a peer that has gone silent AND reads nothing any more, behind a stream that holds 32 / 64 octets:
    // the time-out is still reported, and in time (nothing the endpoint may want to say on its way out can
    // be allowed to wait for a reader that is gone)
    for &pipe in &[32usize, 64] {
        for &idle in &[50u32, 1000] {
            report.evaluations += 1;
            report.count("local_idle_peer_not_reading");
            let replay = json!({"property": prop, "module": "limits", "local_idle": {"idle_ms": idle, "gap_ms": idle / 4, "n": 0, "pipe": pipe}});
            match run_local_idle_pipe(idle, idle / 4, 0, false, pipe) {
                Ok(r) => {
                    report.nontrivial_case(fnv(&format!("lip{}/{}", idle, pipe)));
                    if let Some((key, desc)) = check_local_idle(idle, idle / 4, &r) {
                        report.finding(Finding { kind: "violation", key: format!("{}:peer-not-reading", key), description: format!("stream of {} octets, peer silent and not reading: {}", pipe, desc), replay });
                    }
                }
                Err(e) => report.finding(Finding { kind: "violation", key: "local-idle-scenario-failed".into(), description: e, replay }),
            }
        }
    }
    // (c'') close(), then a peer that never answers
    for &idle in &[100u32, 1000] {
        for (ln, cn) in [(3u32, 4u32), (1, 2), (5, 9)] {
            let (last, close) = (idle * ln / 10, idle * cn / 10);
            report.evaluations += 1;
            report.count("close_then_silence");
            report.nontrivial_case(fnv(&format!("cts{}/{}/{}", idle, last, close)));
            let replay = json!({"property": prop, "module": "limits", "close_then_silence": {"idle_ms": idle, "last_frame_ms": last, "close_ms": close}});
            match run_close_then_silence(idle, last, close) {
                Ok((None, _)) => report.finding(Finding { kind: "violation", key: "idle-time-out-not-enforced:after-local-close".into(), description: format!("idle-time-out {} ms: the peer's last frame came at {} ms, close() was called at {} ms and never answered; close() is still waiting {} ms later", idle, last, close, idle as u64 * 4 + 1000), replay }),
                Ok((Some(d), verdict)) => {
                    if d > idle as u64 + 50 {
                        report.finding(Finding { kind: "violation", key: "timed-out-late:after-local-close".into(), description: format!("idle-time-out {} ms: close() returned only {} ms after the peer's last frame ({})", idle, d, verdict), replay });
                    } else if d + 1 < idle as u64 {
                        report.finding(Finding { kind: "violation", key: "timed-out-early:after-local-close".into(), description: format!("idle-time-out {} ms: close() gave up {} ms after the peer's last frame ({})", idle, d, verdict), replay });
                    } else if !verdict.contains("IdleTimeout") {
                        report.finding(Finding { kind: "violation", key: "time-out-not-reported:after-local-close".into(), description: format!("idle-time-out {} ms fired while close() waited for the peer; close() reports {}", idle, verdict), replay });
                    }
                }
                Err(e) => report.finding(Finding { kind: "violation", key: "close-then-silence-scenario-failed".into(), description: e, replay }),
            }
        }
    }
    // (d)
    for &idle in &[40u32, 200, 1000, 30000] {
        for (wn, wd) in [(1u32, 4u32), (3, 4), (99, 100)] {
            for (pn, pd) in [(5u32, 4u32), (2, 1), (7, 1)] {
                let (w, p) = (idle * wn / wd, idle * pn / pd);
                report.evaluations += 1;
                report.count("late_reader_probes");
                match run_late_reader(idle, w, p) {
                    Ok(polls) => {
                        report.nontrivial_case(fnv(&format!("late{}/{}/{}", idle, w, p)));
                        if polls != ["frame", "frame"] {
                            report.finding(Finding {
                                kind: "violation",
                                key: "timed-out-although-frames-arrived-in-time".into(),
                                description: format!(
                                    "idle-time-out {} ms; a frame arrived at {} ms and was still unread when the transport was next polled at {} ms, one more arrived 3/8 of the time-out after that read: the polls returned {:?}, expected both frames (frames kept arriving in time; only the reader was late)",
                                    idle, w, p, polls
                                ),
                                replay: json!({"property": prop, "module": "limits", "late_reader": {"idle_ms": idle, "write_at_ms": w, "poll_at_ms": p}}),
                            });
                        }
                        // the model of one poll: input pending and deadline passed
                        lines.push("N poll 1 1".into());
                        imp.push(polls[0].clone());
                    }
                    Err(e) => report.finding(Finding { kind: "violation", key: "late-reader-scenario-failed".into(), description: e, replay: json!({"property": prop, "module": "limits", "late_reader": {"idle_ms": idle, "write_at_ms": w, "poll_at_ms": p}}) }),
                }
            }
        }
    }
    if driver_available() {
        match run_driver(&lines) {
            Ok(model) => {
                report.model_used = true;
                report.model_lines = model.len() as u64;
                let mut bad = 0;
                for i in 0..model.len().min(imp.len()) {
                    let same = match imp[i].strip_prefix('~') {
                        Some(v) => {
                            let a: i64 = v.parse().unwrap_or(-1);
                            let b: i64 = model[i].parse().unwrap_or(-100000);
                            (a - b).abs() <= 500
                        }
                        None => model[i] == imp[i],
                    };
                    if imp[i] != "skip" && !same {
                        if bad == 0 {
                            let case = refs.iter().rev().find(|(s, _)| *s <= i).map(|x| x.1.to_json());
                            report.finding(Finding { kind: "disagreement", key: "model-vs-implementation".into(), description: format!("{} -> implementation {} model {}", lines[i], imp[i], model[i]), replay: json!({"property": prop, "module": "limits", "channels": case, "line": lines[i], "implementation": imp[i], "model": model[i]}) });
                        }
                        bad += 1;
                    }
                }
                report.count_n("lines_disagreeing_with_model", bad);
            }
            Err(e) => report.notes.push(format!("model driver failed: {}", e)),
        }
    } else {
        report.notes.push("model driver not available: correspondence skipped".into());
    }
    report.write(&opts.report);
    println!("limits: {} cases, {} non-trivial, {} findings", report.evaluations, report.nontrivial.len(), report.findings.len());
}

/// the longest stretch without a frame, if it reaches the advertised time-out
fn worst_gap(times: &[u64], end: u64, idle_ms: u32) -> Option<String> {
    let mut prev = 0u64;
    let mut worst = (0u64, 0u64);
    for t in times.iter().chain(std::iter::once(&end)) {
        if t - prev > worst.1 - worst.0 {
            worst = (prev, *t);
        }
        prev = *t;
    }
    if worst.1 - worst.0 >= idle_ms as u64 * 1000 {
        Some(format!("the peer advertised idle-time-out {} ms; nothing was written between t={} us and t={} us ({} us); frames at {:?} us", idle_ms, worst.0, worst.1, worst.1 - worst.0, times.iter().take(8).collect::<Vec<_>>()))
    } else {
        None
    }
}

fn check_local_idle(idle: u32, gap: u32, r: &(Option<u32>, Option<u64>, String, bool)) -> Option<(String, String)> {
    let (advertised, stopped_after, verdict, early) = r;
    if gap < idle && *early {
        return Some(("timed-out-while-frames-kept-arriving".into(), format!("idle-time-out {} ms, a frame every {} ms, yet the connection stopped ({})", idle, gap, verdict)));
    }
    match stopped_after {
        None => Some(("idle-time-out-not-enforced".into(), format!("idle-time-out {} ms: the connection is still open {} ms after the last frame", idle, idle as u64 * 4 + 1000))),
        Some(d) => {
            if *d + 1 < idle as u64 && !*early {
                return Some(("timed-out-early".into(), format!("idle-time-out {} ms: torn down {} ms after the last frame", idle, d)));
            }
            if *d > idle as u64 + 50 {
                return Some(("timed-out-late".into(), format!("idle-time-out {} ms: torn down only {} ms after the last frame", idle, d)));
            }
            if !verdict.contains("IdleTimeout") {
                return Some(("time-out-not-reported".into(), format!("idle-time-out {} ms fired; the handle reports {}", idle, verdict)));
            }
            // what is advertised must not exceed the threshold enforced
            match advertised {
                Some(a) if *a > idle => Some(("advertised-above-threshold".into(), format!("advertises {} ms but tears down after {} ms", a, idle))),
                None => Some(("idle-time-out-not-advertised".into(), format!("enforces {} ms but its open carries no idle-time-out", idle))),
                _ => None,
            }
        }
    }
}
