//! C12 — connection lifecycle.  A real client connection against a scripted peer that plays
//! arbitrary frame sequences (legal and illegal in the current state), interleaved with local
//! requests (begin a session, close, close with error) and heartbeat periods.  What the
//! client writes is recorded event by event, judged against the property and compared with
//! the model's outputs for the same events.

use std::time::Duration;

use fe2o3_amqp::connection::ConnectionHandle;
use fe2o3_amqp::session::SessionHandle;
use fe2o3_amqp::{Connection, Session};
use fe2o3_amqp_types::definitions::{self, AmqpError, Handle};
use fe2o3_amqp_types::performatives::{Begin, Close, End, Flow, Open, Performative};
use serde_json::{json, Value as J};
use tokio::io::AsyncWriteExt;

use crate::common::*;
use crate::peer::*;

#[derive(Clone, Debug, PartialEq)]
pub enum Ev {
    POpen,
    PClose(bool),
    PBegin(u16, Option<u16>),
    PSession(u16),
    PEnd(u16),
    PEmpty,
    Eof,
    CtlClose(bool),
    /// `ConnectionHandle::try_close`: asks for the close without waiting (may be repeated)
    TryClose,
    /// `Session::begin`, answered by the peer on this incoming channel
    CtlBegin(u16),
    Tick,
}

impl Ev {
    pub fn line(&self) -> String {
        match self {
            Ev::POpen => "C peer open".into(),
            Ev::PClose(e) => format!("C peer close {}", *e as u8),
            Ev::PBegin(ch, rc) => format!("C peer begin {} {}", ch, rc.map(|x| x as i64).unwrap_or(-1)),
            Ev::PSession(ch) => format!("C peer session {}", ch),
            Ev::PEnd(ch) => format!("C peer end {}", ch),
            Ev::PEmpty => "C peer empty".into(),
            Ev::Eof => "C eof".into(),
            Ev::CtlClose(e) => format!("C ctlclose {}", *e as u8),
            Ev::TryClose => "C ctlclose 0".into(),
            Ev::CtlBegin(ch) => format!("C ctlbegin {}", ch),
            Ev::Tick => "C heartbeat".into(),
        }
    }
    pub fn parse(s: &str) -> Option<Ev> {
        let w: Vec<&str> = s.split(' ').collect();
        Some(match w.as_slice() {
            ["C", "peer", "open"] => Ev::POpen,
            ["C", "peer", "close", e] => Ev::PClose(*e == "1"),
            ["C", "peer", "begin", ch, rc] => Ev::PBegin(ch.parse().ok()?, rc.parse::<i64>().ok().and_then(|x| if x < 0 { None } else { Some(x as u16) })),
            ["C", "peer", "session", ch] => Ev::PSession(ch.parse().ok()?),
            ["C", "peer", "end", ch] => Ev::PEnd(ch.parse().ok()?),
            ["C", "peer", "empty"] => Ev::PEmpty,
            ["C", "eof"] => Ev::Eof,
            ["C", "tryclose"] => Ev::TryClose,
            ["C", "ctlclose", e] => Ev::CtlClose(*e == "1"),
            ["C", "ctlbegin", ch] => Ev::CtlBegin(ch.parse().ok()?),
            ["C", "heartbeat"] => Ev::Tick,
            _ => return None,
        })
    }
}

#[derive(Clone, Debug)]
pub struct Case {
    /// what the peer answers the client's open with: 0 open, 1 close, 2 close with error, 3 a begin, 4 nothing (eof)
    pub first: u8,
    /// peer's idle-time-out in its open (ms); 0 = none
    pub idle_ms: u32,
    pub events: Vec<Ev>,
}

impl Case {
    pub fn to_json(&self) -> J {
        json!({"first": self.first, "idle_ms": self.idle_ms, "events": self.events.iter().map(|e| if *e == Ev::TryClose { "C tryclose".to_string() } else { e.line() }).collect::<Vec<_>>()})
    }
    pub fn from_json(j: &J) -> Option<Case> {
        Some(Case {
            first: j.get("first")?.as_u64()? as u8,
            idle_ms: j.get("idle_ms")?.as_u64()? as u32,
            events: j.get("events")?.as_array()?.iter().filter_map(|x| x.as_str().and_then(Ev::parse)).collect(),
        })
    }
}

#[derive(Clone, Debug, Default)]
pub struct Observed {
    /// frames written by the client during the open phase
    pub open_phase: Vec<String>,
    pub open_ok: bool,
    /// per event: what the client wrote while the event was being absorbed
    pub per_event: Vec<Vec<String>>,
    /// result of close / on_close: "ok", "RemoteClosed", … ; "none" if never asked / still pending
    pub result: String,
    pub errors: Vec<String>,
    pub trace: Vec<String>,
}

fn kind_of(ch: u16, p: &Performative) -> String {
    match p {
        Performative::Open(_) => "open".into(),
        Performative::Close(c) => format!("close:{}", c.error.is_some() as u8),
        Performative::End(_) => format!("f{}e", ch),
        _ => format!("f{}", ch),
    }
}

fn err_name(e: &fe2o3_amqp::connection::Error) -> String {
    use fe2o3_amqp::connection::Error as E;
    match e {
        E::TransportError(_) => "transport".into(),
        E::IllegalState => "illegalState".into(),
        E::NotImplemented(_) => "notImplemented".into(),
        E::NotFound(_) => "notFound".into(),
        E::NotAllowed(_) => "notAllowed".into(),
        E::RemoteClosed => "remoteClosed".into(),
        E::RemoteClosedWithError(_) => "remoteClosedWithError".into(),
        E::JoinError(_) => "join".into(),
    }
}

async fn drain(peer: &mut Peer, out: &mut Vec<String>, quiet: Duration) -> bool {
    // collect frames until nothing arrives for `quiet` (virtual); returns false on eof
    peer.recv_timeout = quiet;
    loop {
        match peer.recv().await {
            Ok(Incoming::Frame { channel, performative, .. }) => out.push(kind_of(channel, &performative)),
            Ok(Incoming::Empty { .. }) => out.push("empty".into()),
            Err(PeerError::Timeout) => return true,
            Err(_) => return false,
        }
    }
}

pub fn run(case: &Case) -> Observed {
    let rt = paused_runtime();
    let case = case.clone();
    rt.block_on(async move {
        let mut obs = Observed { result: "none".into(), ..Default::default() };
        let (cio, pio) = tokio::io::duplex(1 << 18);
        let mut peer = Peer::new(pio);
        let client = tokio::spawn(async move { Connection::builder().container_id("c12").open_with_stream(cio).await });
        // open phase
        match peer.recv_header().await {
            Ok(_) => obs.open_phase.push("header".into()),
            Err(e) => {
                obs.errors.push(format!("no header: {:?}", e));
                return obs;
            }
        }
        if peer.send_header().await.is_err() {
            obs.errors.push("cannot send header".into());
            return obs;
        }
        // the client's open
        peer.recv_timeout = Duration::from_millis(100);
        match peer.recv().await {
            Ok(Incoming::Frame { channel, performative, .. }) => obs.open_phase.push(kind_of(channel, &performative)),
            other => {
                obs.errors.push(format!("no open: {:?}", other.map(|_| ())));
                return obs;
            }
        }
        let our_open = Open {
            container_id: "peer".into(),
            hostname: None,
            max_frame_size: 65536.into(),
            channel_max: 100.into(),
            idle_time_out: if case.idle_ms == 0 { None } else { Some(case.idle_ms) },
            outgoing_locales: None,
            incoming_locales: None,
            offered_capabilities: None,
            desired_capabilities: None,
            properties: None,
        };
        let amqp_err = || definitions::Error::new(AmqpError::InternalError, Some("scripted".to_string()), None);
        let first_sent = match case.first {
            0 => peer.send(0, Performative::Open(our_open), &[]).await.is_ok(),
            1 => peer.send(0, Performative::Close(Close { error: None }), &[]).await.is_ok(),
            2 => peer.send(0, Performative::Close(Close { error: Some(amqp_err()) }), &[]).await.is_ok(),
            3 => peer
                .send(0, Performative::Begin(Begin { remote_channel: None, next_outgoing_id: 0, incoming_window: 1, outgoing_window: 1, handle_max: Handle(1), offered_capabilities: None, desired_capabilities: None, properties: None }), &[])
                .await
                .is_ok(),
            _ => peer.io.shutdown().await.is_ok(),
        };
        if !first_sent {
            obs.errors.push("cannot send the first frame".into());
        }
        let mut rest = vec![];
        let alive = drain(&mut peer, &mut rest, Duration::from_millis(20)).await;
        obs.open_phase.extend(rest);
        let mut conn: Option<ConnectionHandle<()>> = None;
        if case.first != 0 {
            // opening must fail; a peer that refuses the connection then goes away
            if alive && case.first != 4 {
                let _ = peer.io.shutdown().await;
            }
            match tokio::time::timeout(Duration::from_secs(5), client).await {
                Ok(Ok(Ok(_))) => obs.open_ok = true,
                Ok(Ok(Err(e))) => obs.result = format!("open-error:{:?}", e).chars().take(60).collect(),
                _ => obs.errors.push("open neither failed nor succeeded".into()),
            }
            let mut tail = vec![];
            drain(&mut peer, &mut tail, Duration::from_millis(20)).await;
            obs.open_phase.extend(tail);
            obs.trace = peer.trace_lines();
            return obs;
        }
        match tokio::time::timeout(Duration::from_secs(5), client).await {
            Ok(Ok(Ok(c))) => {
                obs.open_ok = true;
                conn = Some(c);
            }
            Ok(Ok(Err(e))) => {
                obs.result = format!("open-error:{:?}", e).chars().take(60).collect();
                obs.trace = peer.trace_lines();
                return obs;
            }
            _ => {
                obs.errors.push("open did not return".into());
                return obs;
            }
        }
        let mut sessions: Vec<SessionHandle<()>> = vec![];
        let mut closer: Option<tokio::task::JoinHandle<Result<(), fe2o3_amqp::connection::Error>>> = None;
        let mut eof_sent = false;
        let mut tried: Option<String> = None;
        for ev in &case.events {
            let mut out = vec![];
            let quiet = Duration::from_millis(20);
            match ev {
                Ev::POpen => {
                    let o = Open { container_id: "peer".into(), hostname: None, max_frame_size: 65536.into(), channel_max: 100.into(), idle_time_out: None, outgoing_locales: None, incoming_locales: None, offered_capabilities: None, desired_capabilities: None, properties: None };
                    let _ = peer.send(0, Performative::Open(o), &[]).await;
                }
                Ev::PClose(e) => {
                    let _ = peer.send(0, Performative::Close(Close { error: if *e { Some(amqp_err()) } else { None } }), &[]).await;
                }
                Ev::PBegin(ch, rc) => {
                    let b = Begin { remote_channel: *rc, next_outgoing_id: 0, incoming_window: 100, outgoing_window: 100, handle_max: Handle(10), offered_capabilities: None, desired_capabilities: None, properties: None };
                    let _ = peer.send(*ch, Performative::Begin(b), &[]).await;
                }
                Ev::PSession(ch) => {
                    // a session-level flow: absorbed by a mapped session without an answer
                    let f = Flow { next_incoming_id: Some(0), incoming_window: 100, next_outgoing_id: 0, outgoing_window: 100, handle: None, delivery_count: None, link_credit: None, available: None, drain: false, echo: false, properties: None };
                    let _ = peer.send(*ch, Performative::Flow(f), &[]).await;
                }
                Ev::PEnd(ch) => {
                    let _ = peer.send(*ch, Performative::End(End { error: None }), &[]).await;
                }
                Ev::PEmpty => {
                    let _ = peer.send_empty().await;
                }
                Ev::Eof => {
                    if !eof_sent {
                        let _ = peer.io.shutdown().await;
                        eof_sent = true;
                    }
                }
                Ev::CtlClose(e) => {
                    if let Some(mut c) = conn.take() {
                        let with_err = *e;
                        closer = Some(tokio::spawn(async move {
                            if with_err {
                                c.close_with_error(definitions::Error::new(AmqpError::InternalError, Some("local".to_string()), None)).await
                            } else {
                                c.close().await
                            }
                        }));
                    }
                }
                Ev::TryClose => {
                    if let Some(c) = conn.as_mut() {
                        // if the engine has already stopped this is where its verdict comes out
                        match c.try_close() {
                            Ok(Ok(())) => tried = Some("ok".to_string()),
                            Ok(Err(e)) => tried = Some(err_name(&e)),
                            Err(_) => {}
                        }
                    }
                }
                Ev::CtlBegin(in_ch) => {
                    if let Some(c) = conn.as_mut() {
                        let in_ch = *in_ch;
                        let begin_fut = tokio::time::timeout(Duration::from_millis(200), Session::begin(c));
                        let peer_fut = async {
                            // the client's begin, answered on `in_ch`
                            peer.recv_timeout = Duration::from_millis(20);
                            let mut seen = vec![];
                            loop {
                                match peer.recv().await {
                                    Ok(Incoming::Frame { channel, performative, .. }) => {
                                        seen.push(kind_of(channel, &performative));
                                        if let Performative::Begin(_) = performative {
                                            let b = Begin { remote_channel: Some(channel), next_outgoing_id: 0, incoming_window: 100, outgoing_window: 100, handle_max: Handle(10), offered_capabilities: None, desired_capabilities: None, properties: None };
                                            let _ = peer.send(in_ch, Performative::Begin(b), &[]).await;
                                            break;
                                        }
                                    }
                                    Ok(Incoming::Empty { .. }) => seen.push("empty".into()),
                                    Err(_) => break,
                                }
                            }
                            seen
                        };
                        let (r, seen) = tokio::join!(begin_fut, peer_fut);
                        out.extend(seen);
                        if let Ok(Ok(sh)) = r {
                            sessions.push(sh);
                        }
                    }
                }
                Ev::Tick => {
                    // one heartbeat period: half the idle-time-out the peer advertised (C17)
                    tokio::time::sleep(Duration::from_millis((case.idle_ms / 2).max(1) as u64)).await;
                }
            }
            drain(&mut peer, &mut out, quiet).await;
            obs.per_event.push(out);
        }
        // result
        if let Some(t) = tried {
            obs.result = t;
        } else if let Some(h) = closer {
            match tokio::time::timeout(Duration::from_secs(2), h).await {
                Ok(Ok(Ok(()))) => obs.result = "ok".into(),
                Ok(Ok(Err(e))) => obs.result = err_name(&e),
                Ok(Err(_)) => obs.result = "panic".into(),
                Err(_) => obs.result = "pending".into(),
            }
        } else if let Some(mut c) = conn.take() {
            match tokio::time::timeout(Duration::from_millis(50), c.on_close()).await {
                Ok(Ok(())) => obs.result = "ok".into(),
                Ok(Err(e)) => obs.result = err_name(&e),
                Err(_) => obs.result = "running".into(),
            }
        }
        drop(sessions);
        obs.trace = peer.trace_lines();
        obs
    })
}

/// the property, on the wire alone
pub fn check(case: &Case, obs: &Observed) -> Option<(String, String)> {
    if let Some(e) = obs.errors.first() {
        return Some(("scenario-failed".into(), e.clone()));
    }
    let mut wire: Vec<String> = obs.open_phase.clone();
    for o in &obs.per_event {
        wire.extend(o.iter().cloned());
    }
    if wire.first().map(|s| s.as_str()) != Some("header") {
        return Some(("header-not-first".into(), format!("{:?}", wire)));
    }
    if wire.len() > 1 && wire[1] != "open" {
        return Some(("open-not-second".into(), format!("{:?}", wire)));
    }
    if wire.iter().filter(|k| *k == "open").count() > 1 {
        return Some(("open-sent-twice".into(), format!("{:?}", wire)));
    }
    let closes: Vec<usize> = wire.iter().enumerate().filter(|(_, k)| k.starts_with("close")).map(|(i, _)| i).collect();
    if closes.len() > 1 {
        return Some(("close-sent-twice".into(), format!("{:?}", wire)));
    }
    if let Some(i) = closes.first() {
        if *i + 1 < wire.len() {
            return Some(("frame-after-close".into(), format!("after its close the endpoint wrote {:?} (whole wire: {:?})", &wire[*i + 1..], wire)));
        }
    }
    if case.first != 0 {
        return None;
    }
    // event-level obligations
    let mut client_closed = false; // a close has been written
    let mut closed_with_error = false;
    let mut peer_closed = false;
    let mut begun: Vec<u16> = vec![]; // outgoing channels of begins seen
    let mut mapped: Vec<u16> = vec![]; // incoming channels the peer mapped
    let mut dead = false; // transport gone
    for (i, ev) in case.events.iter().enumerate() {
        let out = &obs.per_event[i];
        for k in out {
            if let Some(ch) = k.strip_prefix('f') {
                if let Ok(c) = ch.trim_end_matches('e').parse::<u16>() {
                    if !begun.contains(&c) {
                        begun.push(c);
                    }
                }
            }
        }
        let wrote_close = out.iter().find(|k| k.starts_with("close")).cloned();
        match ev {
            Ev::PClose(_) if !client_closed && !peer_closed && !dead => {
                if wrote_close.is_none() {
                    return Some(("peer-close-not-answered".into(), format!("event {}: the peer's close was followed by {:?}", i, out)));
                }
                peer_closed = true;
            }
            Ev::PClose(_) => peer_closed = true,
            Ev::POpen if !client_closed && !peer_closed && !dead => {
                // a second open is illegal in the opened state
                if wrote_close.as_deref() != Some("close:1") {
                    return Some(("illegal-frame-not-refused".into(), format!("event {}: a second open was answered with {:?}, expected a close with an error", i, out)));
                }
            }
            Ev::PBegin(ch, rc) if !client_closed && !peer_closed && !dead => {
                let legal = matches!(rc, Some(oc) if begun.contains(oc));
                if legal {
                    if !mapped.contains(ch) {
                        mapped.push(*ch);
                    }
                } else if wrote_close.as_deref() != Some("close:1") {
                    return Some(("illegal-frame-not-refused".into(), format!("event {}: {:?} (no such local channel) was answered with {:?}, expected a close with an error", i, ev, out)));
                }
            }
            Ev::PSession(ch) | Ev::PEnd(ch) if !client_closed && !peer_closed && !dead => {
                if !mapped.contains(ch) && wrote_close.as_deref() != Some("close:1") {
                    return Some(("illegal-frame-not-refused".into(), format!("event {}: {:?} on an unmapped channel was answered with {:?}, expected a close with an error", i, ev, out)));
                }
                if let Ev::PEnd(c) = ev {
                    mapped.retain(|x| x != c);
                }
            }
            Ev::CtlBegin(in_ch) => {
                if out.iter().any(|k| k.starts_with('f')) && !mapped.contains(in_ch) {
                    mapped.push(*in_ch);
                }
            }
            Ev::Eof => dead = true,
            _ => {}
        }
        if closed_with_error && !out.is_empty() {
            return Some(("output-while-discarding".into(), format!("event {} ({:?}): after closing with an error the endpoint wrote {:?}", i, ev, out)));
        }
        if let Some(c) = wrote_close {
            client_closed = true;
            if c == "close:1" {
                closed_with_error = true;
            }
        }
    }
    // the handle's verdict
    let clean = case.events.iter().any(|e| matches!(e, Ev::CtlClose(false)));
    let first_close_local = {
        let pc = case.events.iter().position(|e| matches!(e, Ev::PClose(_)));
        let lc = case.events.iter().position(|e| matches!(e, Ev::CtlClose(_)));
        match (lc, pc) {
            (Some(l), Some(p)) => l < p,
            (Some(_), None) => true,
            _ => false,
        }
    };
    let illegal_before = obs.per_event.iter().zip(case.events.iter()).any(|(o, e)| !matches!(e, Ev::CtlClose(_)) && o.iter().any(|k| k == "close:1"));
    // every frame the peer sends is legal for an open connection (frames in flight after our close included)
    let mut mapped2: Vec<u16> = vec![];
    let mut all_legal = true;
    for (i, e) in case.events.iter().enumerate() {
        match e {
            Ev::CtlBegin(ch) => {
                if obs.per_event[i].iter().any(|k| k.starts_with('f')) {
                    mapped2.push(*ch);
                }
            }
            Ev::POpen | Ev::PBegin(_, _) => all_legal = false,
            Ev::PSession(ch) => {
                if !mapped2.contains(ch) {
                    all_legal = false;
                }
            }
            Ev::PEnd(ch) => {
                if !mapped2.contains(ch) {
                    all_legal = false;
                }
                mapped2.retain(|x| x != ch);
            }
            _ => {}
        }
    }
    if clean && first_close_local && !illegal_before && all_legal && !case.events.contains(&Ev::Eof) {
        let peer_err = case.events.iter().find_map(|e| if let Ev::PClose(x) = e { Some(*x) } else { None });
        match peer_err {
            Some(false) if obs.result != "ok" => return Some(("clean-close-reported-as-error".into(), format!("close() returned {} although both sides closed without error and the peer sent only legal frames", obs.result))),
            Some(true) if obs.result != "remoteClosedWithError" => return Some(("peer-error-not-reported".into(), format!("the peer closed with an error; close() returned {}", obs.result))),
            _ => {}
        }
    }
    None
}

pub fn gen_case(rng: &mut Rng) -> Case {
    let first = *rng.pick(&[0u8, 0, 0, 0, 0, 0, 0, 0, 1, 2, 3, 4]);
    let idle_ms = *rng.pick(&[0u32, 0, 1000]);
    let n = rng.range(1, 7);
    let mut events = vec![];
    let mut closed_ctl = false;
    let mut begins = 0u16;
    for _ in 0..n {
        let ev = match rng.below(16) {
            0 => Ev::POpen,
            1 | 2 => Ev::PClose(rng.chance(1, 3)),
            // a begin naming no local channel, or one that was never handed out (a second begin for a live
            // session is the session's business: C13)
            3 | 4 => Ev::PBegin(*rng.pick(&[0u16, 1, 7]), if rng.chance(1, 3) { None } else { Some(*rng.pick(&[5u16, 9])) }),
            5 | 6 => Ev::PSession(*rng.pick(&[0u16, 0, 1, 7])),
            7 => Ev::PEnd(*rng.pick(&[0u16, 0, 1, 7])),
            8 => {
                if rng.chance(1, 2) {
                    Ev::TryClose
                } else {
                    Ev::PEmpty
                }
            }
            9 => {
                if rng.chance(1, 3) {
                    Ev::Eof
                } else {
                    Ev::PEmpty
                }
            }
            10 | 11 => {
                if closed_ctl {
                    Ev::PEmpty
                } else {
                    closed_ctl = true;
                    Ev::CtlClose(rng.chance(1, 3))
                }
            }
            12 | 13 | 14 => {
                if closed_ctl || begins >= 2 {
                    Ev::PSession(0)
                } else {
                    begins += 1;
                    Ev::CtlBegin(*rng.pick(&[0u16, 1, 7]))
                }
            }
            _ => {
                if idle_ms > 0 {
                    Ev::Tick
                } else {
                    Ev::PEmpty
                }
            }
        };
        events.push(ev);
    }
    Case { first, idle_ms, events }
}

/// "a close from the peer is answered with a close, after already queued frames are flushed":
/// `n` sessions are begun over a pipe of `pipe` bytes; the peer stops reading; the application ends all
/// sessions (their end frames queue up behind a write that cannot complete); the peer sends its close
/// (with an error or not) and only then reads again.  Returns the kinds of frames the peer then reads,
/// up to the end of the stream.
pub fn run_flush_before_close(n: usize, pipe: usize, with_error: bool) -> Result<Vec<String>, String> {
    let rt = paused_runtime();
    rt.block_on(async move {
        let (cio, pio) = tokio::io::duplex(pipe);
        let mut peer = Peer::new(pio);
        let (go_tx, go_rx) = tokio::sync::oneshot::channel::<()>();
        let client = tokio::spawn(async move {
            let mut conn = Connection::builder().container_id("c12-flush").open_with_stream(cio).await.map_err(|e| format!("open: {:?}", e))?;
            let mut ss = vec![];
            for _ in 0..n {
                ss.push(Session::begin(&mut conn).await.map_err(|e| format!("begin: {:?}", e))?);
            }
            let _ = go_rx.await;
            let mut tasks = vec![];
            for mut s in ss {
                tasks.push(tokio::spawn(async move {
                    let _ = tokio::time::timeout(Duration::from_secs(5), s.end()).await;
                }));
            }
            for t in tasks {
                let _ = t.await;
            }
            let _ = tokio::time::timeout(Duration::from_secs(5), conn.close()).await;
            Ok::<(), String>(())
        });
        peer.accept_open(&PeerOpen::default()).await.map_err(|e| format!("{:?}", e))?;
        peer.recv_timeout = Duration::from_secs(30);
        let mut begun = 0;
        while begun < n {
            match peer.recv().await {
                Ok(Incoming::Frame { channel, performative: Performative::Begin(_), .. }) => {
                    let b = Begin { remote_channel: Some(channel), next_outgoing_id: 0, incoming_window: 1000, outgoing_window: 1000, handle_max: Handle(100), offered_capabilities: None, desired_capabilities: None, properties: None };
                    peer.send(channel, Performative::Begin(b), &[]).await.map_err(|e| format!("{:?}", e))?;
                    begun += 1;
                }
                Ok(_) => {}
                Err(e) => return Err(format!("peer: {:?}", e)),
            }
        }
        // stop reading; let the application end its sessions
        let _ = go_tx.send(());
        tokio::time::sleep(Duration::from_millis(50)).await;
        let error = if with_error { Some(definitions::Error::new(AmqpError::InternalError, Some("scripted".to_string()), None)) } else { None };
        tokio::time::timeout(Duration::from_secs(5), peer.send(0, Performative::Close(Close { error }), &[]))
            .await
            .map_err(|_| "the pipe is too small for the peer's close".to_string())?
            .map_err(|e| format!("{:?}", e))?;
        tokio::time::sleep(Duration::from_millis(50)).await;
        let mut seen = vec![];
        loop {
            match peer.recv().await {
                Ok(Incoming::Frame { channel, performative, .. }) => {
                    let k = kind_of(channel, &performative);
                    let is_close = matches!(performative, Performative::Close(_));
                    seen.push(k);
                    if is_close {
                        // anything after the close?
                        peer.recv_timeout = Duration::from_millis(200);
                    }
                }
                Ok(Incoming::Empty { .. }) => seen.push("empty".into()),
                Ok(_) => {}
                Err(_) => break,
            }
        }
        let _ = client.await;
        Ok(seen)
    })
}

pub fn check_flush_before_close(n: usize, seen: &[String]) -> Option<(String, String)> {
    let close_at = seen.iter().position(|k| k.starts_with("close"));
    let ends_before = seen.iter().take(close_at.unwrap_or(seen.len())).filter(|k| k.ends_with('e') && k.starts_with('f')).count();
    match close_at {
        None => Some(("peer-close-not-answered".into(), format!("the peer's close was not answered with a close; the peer read {:?}", seen))),
        Some(i) => {
            if i + 1 != seen.len() {
                return Some(("frame-after-close".into(), format!("frames after the close: {:?}", &seen[i + 1..])));
            }
            if ends_before != n {
                return Some(("queued-frames-not-flushed-before-close".into(), format!("{} sessions had been ended by the application when the peer's close arrived, but only {} end frames were written before the answering close: {:?}", n, ends_before, seen)));
            }
            None
        }
    }
}

pub fn main(opts: &Opts) {
    let mut report = Report::new(
        "C12",
        "a client connection against a scripted peer: the peer's answer to the open (open / close / close with error / a begin / eof), then \
         1..7 events drawn from peer frames (second open, close with and without error, begins naming known, unknown or no local channel, \
         session frames and ends on mapped and unmapped channels, empty frames, eof), local requests (begin a session, close, close with an \
         error) and heartbeat periods; non-trivial = the connection opened and at least one close was exchanged or refused frame seen; \
         distinct by hash of the case",
    );
    if let Some(path) = &opts.replay {
        let j: J = serde_json::from_str(&std::fs::read_to_string(path).expect("read")).expect("json");
        if let Some(c) = j.get("flush_before_close") {
            let n = c.get("sessions").and_then(|x| x.as_u64()).unwrap_or(3) as usize;
            let pipe = c.get("pipe").and_then(|x| x.as_u64()).unwrap_or(16) as usize;
            let we = c.get("with_error").and_then(|x| x.as_bool()).unwrap_or(false);
            let r = run_flush_before_close(n, pipe, we);
            println!("{:?}", r);
            match r.as_ref().ok().and_then(|s| check_flush_before_close(n, s)) {
                Some((k, d)) => {
                    println!("REPLAY: property violated [{}]: {}", k, d);
                    std::process::exit(1);
                }
                None if r.is_ok() => {
                    println!("REPLAY: property holds on this scenario");
                    std::process::exit(0);
                }
                None => std::process::exit(1),
            }
        }
        if let Some(case) = j.get("case").and_then(Case::from_json) {
            let obs = run(&case);
            for l in &obs.trace {
                println!("{}", l);
            }
            println!("open phase {:?} ok={}\nper event {:?}\nresult {}\nerrors {:?}", obs.open_phase, obs.open_ok, obs.per_event, obs.result, obs.errors);
            match check(&case, &obs) {
                Some((k, d)) => {
                    println!("REPLAY: property violated [{}]: {}", k, d);
                    std::process::exit(1);
                }
                None => {
                    println!("REPLAY: property holds on this scenario");
                    std::process::exit(0);
                }
            }
        }
        std::process::exit(2);
    }
    let mut rng = Rng::new(opts.seed ^ 0xc12);
    let mut corpus: Vec<Case> = vec![];
    if let Ok(rd) = std::fs::read_dir("/verif/corpus/C12") {
        let mut paths: Vec<_> = rd.filter_map(|e| e.ok().map(|e| e.path())).collect();
        paths.sort();
        for p in paths {
            if let Ok(txt) = std::fs::read_to_string(&p) {
                if let Ok(j) = serde_json::from_str::<J>(&txt) {
                    if let Some(c) = j.get("case").and_then(Case::from_json) {
                        corpus.push(c);
                    }
                }
            }
        }
    }
    report.count_n("corpus_cases", corpus.len() as u64);
    let n = if opts.thorough() { 30000 } else { 2500 };
    let mut lines: Vec<String> = vec![];
    let mut segs: Vec<(usize, Case, Observed)> = vec![];
    for k in 0..(n + corpus.len() as u64) {
        let case = if (k as usize) < corpus.len() { corpus[k as usize].clone() } else { gen_case(&mut rng) };
        let obs = run(&case);
        report.evaluations += 1;
        let wire_closes = obs.open_phase.iter().chain(obs.per_event.iter().flatten()).filter(|k| k.starts_with("close")).count();
        if obs.open_ok && wire_closes > 0 {
            report.nontrivial_case(fnv(&case.to_json().to_string()));
        }
        report.count(&format!("first_answer_{}", case.first));
        report.count(&format!("result_{}", obs.result.split(':').next().unwrap_or("")));
        if k % (n / 3).max(1) == 0 {
            report.sample(case.to_json());
        }
        if let Some((key, desc)) = check(&case, &obs) {
            let key0 = key.clone();
            let evs = shrink_list(&case.events, &mut |e: &[Ev]| {
                let c = Case { first: case.first, idle_ms: case.idle_ms, events: e.to_vec() };
                let o = run(&c);
                matches!(check(&c, &o), Some((k2, _)) if k2 == key0)
            });
            let best = Case { first: case.first, idle_ms: case.idle_ms, events: evs };
            let o2 = run(&best);
            let desc2 = check(&best, &o2).map(|x| x.1).unwrap_or(desc);
            report.finding(Finding { kind: "violation", key, description: desc2, replay: json!({"property": "C12", "module": "connlife", "case": best.to_json(), "trace": o2.trace}) });
        }
        if obs.errors.is_empty() {
            let start = lines.len();
            lines.push(format!("C reset {} {}", case.first, if case.idle_ms > 0 { 1 } else { 0 }));
            for e in &case.events {
                lines.push(e.line());
            }
            lines.push("C result".into());
            segs.push((start, case, obs));
        }
    }
    // queued frames are flushed before a close from the peer is answered
    // (the pipe has to take the peer's close while the client is not reading: a close with an error needs 128 bytes)
    for (n, pipe, with_error) in [(1usize, 16usize, false), (3, 16, false), (12, 16, false), (12, 64, false), (40, 32, false), (5, 256, true), (12, 128, true), (40, 128, true)] {
        {
            report.evaluations += 1;
            report.count("flush_before_close_cases");
            report.nontrivial_case(fnv(&format!("flush{}/{}/{}", n, pipe, with_error)));
            match run_flush_before_close(n, pipe, with_error) {
                Ok(seen) => {
                    if let Some((key, desc)) = check_flush_before_close(n, &seen) {
                        report.finding(Finding { kind: "violation", key, description: desc, replay: json!({"property": "C12", "module": "connlife", "flush_before_close": {"sessions": n, "pipe": pipe, "with_error": with_error}}) });
                    }
                }
                Err(e) => report.finding(Finding { kind: "violation", key: "scenario-failed".into(), description: e, replay: json!({"property": "C12", "module": "connlife", "flush_before_close": {"sessions": n, "pipe": pipe, "with_error": with_error}}) }),
            }
        }
    }
    if driver_available() {
        // the model is driven interactively per case: session-originated frames seen on the wire are fed
        // back as `C sess <ch>` events (the model does not contain the session engine)
        let mut all: Vec<String> = vec![];
        let mut plan: Vec<(usize, usize)> = vec![]; // (segment index, number of lines)
        for (si, (_, case, obs)) in segs.iter().enumerate() {
            let start = all.len();
            all.push(format!("C reset {} {}", case.first, if case.idle_ms > 0 { 1 } else { 0 }));
            if case.first == 0 {
                for (i, e) in case.events.iter().enumerate() {
                    if let Ev::CtlBegin(in_ch) = e {
                        all.push("C ctlbegin".into());
                        // answered only if the begin frame reached the peer
                        if let Some(oc) = obs.per_event[i].iter().find_map(|k| k.strip_prefix('f').filter(|x| !x.ends_with('e'))) {
                            all.push(format!("C peer begin {} {}", in_ch, oc));
                        }
                        continue;
                    }
                    all.push(e.line());
                    // session-originated frames observed for this event (the model has no session engine)
                    for k in &obs.per_event[i] {
                        if let Some(ch) = k.strip_prefix('f') {
                            match ch.strip_suffix('e') {
                                Some(c) => all.push(format!("C sess {} end", c)),
                                None => all.push(format!("C sess {}", ch)),
                            }
                        }
                    }
                }
            }
            all.push("C result".into());
            plan.push((si, all.len() - start));
        }
        match run_driver(&all) {
            Ok(model) => {
                report.model_used = true;
                report.model_lines = model.len() as u64;
                let mut pos = 0;
                let mut bad = 0u64;
                for (si, len) in plan {
                    let (_, case, obs) = &segs[si];
                    let m = &model[pos..pos + len];
                    let l = &all[pos..pos + len];
                    pos += len;
                    // model wire: concatenation of outputs; implementation wire likewise
                    let mut mw: Vec<String> = vec![];
                    for (li, line) in m.iter().enumerate() {
                        if li == m.len() - 1 {
                            continue;
                        }
                        for tok in line.split(' ') {
                            if tok != "-" && !tok.is_empty() && !tok.starts_with("to") {
                                mw.push(tok.to_string());
                            }
                        }
                    }
                    let mut iw: Vec<String> = obs.open_phase.clone();
                    for o in &obs.per_event {
                        iw.extend(o.iter().map(|k| if k.starts_with('f') { k.trim_end_matches('e').to_string() } else { k.clone() }));
                    }
                    // how many heartbeats fall into a stretch of (virtual) time is C17's matter: a run of empty frames counts as one
                    mw.dedup_by(|a, b| a == "empty" && b == "empty");
                    iw.dedup_by(|a, b| a == "empty" && b == "empty");
                    let mres = m[m.len() - 1].clone();
                    let ires = if obs.result.starts_with("open-error") { "open-error".to_string() } else { obs.result.clone() };
                    let res_ok = mres == ires || (ires == "running" && mres == "running") || (ires == "pending" && mres == "running");
                    if mw != iw || !res_ok {
                        if bad == 0 {
                            report.finding(Finding {
                                kind: "disagreement",
                                key: "model-vs-implementation".into(),
                                description: format!("wire: implementation {:?} model {:?}; result: implementation {} model {}", iw, mw, ires, mres),
                                replay: json!({"property": "C12", "module": "connlife", "case": case.to_json(), "model_lines": l, "model": m}),
                            });
                        }
                        bad += 1;
                    }
                }
                report.count_n("cases_disagreeing_with_model", bad);
            }
            Err(e) => report.notes.push(format!("model driver failed: {}", e)),
        }
    } else {
        report.notes.push("model driver not available: correspondence skipped".into());
    }
    let _ = &lines;
    report.write(&opts.report);
    println!("connlife: {} cases, {} non-trivial, {} findings", report.evaluations, report.nontrivial.len(), report.findings.len());
}
