//! C14 — failures propagate.  A client with two sessions, senders, a receiver and several
//! operations in progress (a send waiting for its outcome, a send waiting for credit, a recv, an
//! attach the peer does not answer) is hit by one failure at a chosen moment: the transport
//! goes away, or the peer closes the connection / ends a session / detaches a link, with or
//! without an error.  Every operation in progress and every operation issued afterwards must
//! come back within a bound, with an error that names the right level and carries the peer's
//! condition; teardown must return; no engine task may be left running; nothing may panic.

use std::sync::atomic::Ordering;
use std::time::Duration;

use fe2o3_amqp::link::delivery::Sendable;
use fe2o3_amqp::link::receiver::CreditMode;
use fe2o3_amqp::link::sender::Sender;
use fe2o3_amqp::{Connection, Receiver, Session};
use fe2o3_amqp_types::definitions::{self, AmqpError, Handle, ReceiverSettleMode, Role};
use fe2o3_amqp_types::messaging::Message;
use fe2o3_amqp_types::performatives::{Attach, Begin, Close, Detach, End, Flow, Performative};
use serde_amqp::Value;
use serde_json::{json, Value as J};
use tokio::sync::mpsc;

use crate::common::*;
use crate::hostile::{install_panic_counter, PANICS};
use crate::peer::*;

#[derive(Clone, Debug, PartialEq)]
pub enum Failure {
    /// the peer's end of the stream is dropped (both directions fail)
    TransportDrop,
    PeerClose(bool),
    /// session 0 or 1, with error?
    PeerEnd(usize, bool),
    /// link: 0 = sender on session 0 (send awaiting outcome), 1 = receiver on session 0, 2 = sender on session 1 (awaiting credit)
    PeerDetach(usize, bool, bool),
    /// the peer ends session 0 (with error?) and closes the connection in the same write: the session's handles
    /// learn that, and why, their session ended, not merely that the connection went afterwards
    PeerEndThenClose(bool),
}

impl Failure {
    pub fn to_json(&self) -> J {
        match self {
            Failure::TransportDrop => json!({"kind": "transport-drop"}),
            Failure::PeerClose(e) => json!({"kind": "peer-close", "error": e}),
            Failure::PeerEnd(s, e) => json!({"kind": "peer-end", "session": s, "error": e}),
            Failure::PeerDetach(l, c, e) => json!({"kind": "peer-detach", "link": l, "closed": c, "error": e}),
            Failure::PeerEndThenClose(e) => json!({"kind": "peer-end-then-close", "error": e}),
        }
    }
    pub fn from_json(j: &J) -> Option<Failure> {
        let e = j.get("error").and_then(|x| x.as_bool()).unwrap_or(false);
        Some(match j.get("kind")?.as_str()? {
            "transport-drop" => Failure::TransportDrop,
            "peer-close" => Failure::PeerClose(e),
            "peer-end" => Failure::PeerEnd(j.get("session")?.as_u64()? as usize, e),
            "peer-detach" => Failure::PeerDetach(j.get("link")?.as_u64()? as usize, j.get("closed")?.as_bool()?, e),
            "peer-end-then-close" => Failure::PeerEndThenClose(e),
            _ => return None,
        })
    }
}

#[derive(Clone, Debug)]
pub struct Case {
    pub failure: Failure,
    /// virtual ms after set-up at which it happens (operations are started at 10 ms)
    pub at_ms: u64,
}

#[derive(Clone, Debug, Default)]
pub struct Observed {
    /// operations in progress when the failure struck: (name, result or "PENDING")
    pub in_progress: Vec<(String, String)>,
    /// operations issued afterwards: (name, result or "TIMEOUT")
    pub after: Vec<(String, String)>,
    pub teardown: Vec<(String, String)>,
    pub alive_tasks_before: usize,
    pub alive_tasks_after: usize,
    pub panics: u64,
    pub errors: Vec<String>,
}

enum Cmd {
    Fail(Failure),
}

fn scripted_error() -> definitions::Error {
    definitions::Error::new(AmqpError::ResourceLimitExceeded, Some("scripted-condition".to_string()), None)
}

async fn peer_task(mut peer: Peer, mut cmds: mpsc::UnboundedReceiver<Cmd>) {
    if peer.accept_open(&PeerOpen::default()).await.is_err() {
        return;
    }
    peer.recv_timeout = Duration::from_secs(3600);
    let mut answered_attach = 0;
    // ends / detaches of our own that the client still has to answer: its frame is then a reply, not a request
    let mut our_ends: Vec<u16> = vec![];
    let mut our_detaches: Vec<(u16, u32)> = vec![];
    loop {
        tokio::select! {
            c = cmds.recv() => match c {
                None => break,
                Some(Cmd::Fail(f)) => match f {
                    Failure::TransportDrop => return, // dropping the peer drops its io
                    Failure::PeerClose(e) => {
                        let _ = peer.send(0, Performative::Close(Close { error: if e { Some(scripted_error()) } else { None } }), &[]).await;
                    }
                    Failure::PeerEnd(s, e) => {
                        our_ends.push(s as u16);
                        let _ = peer.send(10 + s as u16, Performative::End(End { error: if e { Some(scripted_error()) } else { None } }), &[]).await;
                    }
                    Failure::PeerEndThenClose(e) => {
                        our_ends.push(0);
                        let mut bytes = Peer::encode_frame(10, &Performative::End(End { error: if e { Some(scripted_error()) } else { None } }), &[]);
                        bytes.extend(Peer::encode_frame(0, &Performative::Close(Close { error: None }), &[]));
                        let _ = peer.send_raw(&bytes).await;
                    }
                    Failure::PeerDetach(l, closed, e) => {
                        let (ch, h) = match l { 0 => (10u16, 20u32), 1 => (10, 21), _ => (11, 20) };
                        our_detaches.push((ch - 10, h - 20));
                        let _ = peer.send(ch, Performative::Detach(Detach { handle: Handle(h), closed, error: if e { Some(scripted_error()) } else { None } }), &[]).await;
                    }
                },
            },
            r = peer.recv() => match r {
                Ok(Incoming::Frame { channel, performative, .. }) => match performative {
                    Performative::Begin(_) => {
                        let b = Begin { remote_channel: Some(channel), next_outgoing_id: 0, incoming_window: 1000, outgoing_window: 1000, handle_max: Handle(100), offered_capabilities: None, desired_capabilities: None, properties: None };
                        let _ = peer.send(10 + channel, Performative::Begin(b), &[]).await;
                    }
                    Performative::Attach(a) => {
                        answered_attach += 1;
                        // the 4th attach (the one started as an operation in progress) is never answered
                        if a.name == "pending-attach" {
                            continue;
                        }
                        let sender = matches!(a.role, Role::Sender);
                        let ours = Attach { name: a.name.clone(), handle: Handle(20 + a.handle.0), role: if sender { Role::Receiver } else { Role::Sender }, snd_settle_mode: a.snd_settle_mode.clone(), rcv_settle_mode: ReceiverSettleMode::First, source: a.source.clone(), target: a.target.clone(), unsettled: None, incomplete_unsettled: false, initial_delivery_count: if sender { None } else { Some(0) }, max_message_size: None, offered_capabilities: None, desired_capabilities: None, properties: None };
                        let _ = peer.send(10 + channel, Performative::Attach(ours), &[]).await;
                        // credit for the sender on session 0 only; the one on session 1 waits for credit
                        // (that one gets a single credit, which an earlier batchable send uses up)
                        if sender {
                            let f = Flow { next_incoming_id: Some(0), incoming_window: 1000, next_outgoing_id: 0, outgoing_window: 1000, handle: Some(Handle(20 + a.handle.0)), delivery_count: Some(0), link_credit: Some(if channel == 0 { 100 } else { 1 }), available: None, drain: false, echo: false, properties: None };
                            let _ = peer.send(10 + channel, Performative::Flow(f), &[]).await;
                        }
                        let _ = answered_attach;
                    }
                    Performative::Detach(d) => {
                        if let Some(i) = our_detaches.iter().position(|x| *x == (channel, d.handle.0)) {
                            our_detaches.remove(i);
                        } else {
                            let _ = peer.send(10 + channel, Performative::Detach(Detach { handle: Handle(20 + d.handle.0), closed: d.closed, error: None }), &[]).await;
                        }
                    }
                    Performative::End(_) => {
                        if let Some(i) = our_ends.iter().position(|x| *x == channel) {
                            our_ends.remove(i);
                        } else {
                            let _ = peer.send(10 + channel, Performative::End(End { error: None }), &[]).await;
                        }
                    }
                    Performative::Close(_) => {
                        let _ = peer.send(0, Performative::Close(Close { error: None }), &[]).await;
                    }
                    _ => {}
                },
                Ok(Incoming::Empty { .. }) => {}
                Err(_) => break,
            },
        }
    }
}

pub fn run(case: &Case) -> Observed {
    let rt = paused_runtime();
    let case = case.clone();
    let panics0 = PANICS.load(Ordering::SeqCst);
    let mut obs = rt.block_on(async move {
        let mut obs = Observed::default();
        let (cio, pio) = tokio::io::duplex(1 << 18);
        let (ctx, crx) = mpsc::unbounded_channel();
        let ptask = tokio::spawn(peer_task(Peer::new(pio), crx));
        let metrics = tokio::runtime::Handle::current().metrics();
        let baseline_tasks = metrics.num_alive_tasks(); // the peer
        macro_rules! tr {
            ($e:expr, $what:expr) => {
                match $e {
                    Ok(v) => v,
                    Err(e) => {
                        obs.errors.push(format!("{}: {:?}", $what, e));
                        return obs;
                    }
                }
            };
        }
        let mut conn = tr!(Connection::builder().container_id("c14").open_with_stream(cio).await, "open");
        let mut s0 = tr!(Session::begin(&mut conn).await, "begin 0");
        let mut s1 = tr!(Session::begin(&mut conn).await, "begin 1");
        let mut snd0 = tr!(Sender::builder().name("snd0").target("q").attach(&mut s0).await, "attach snd0");
        let mut rcv0 = tr!(Receiver::builder().name("rcv0").source("q").credit_mode(CreditMode::Manual).auto_accept(case.at_ms % 2 == 1).attach(&mut s0).await, "attach rcv0");
        let mut snd1 = tr!(Sender::builder().name("snd1").target("q").attach(&mut s1).await, "attach snd1");
        let _ = rcv0.set_credit(5).await;
        obs.alive_tasks_before = metrics.num_alive_tasks();
        tokio::time::sleep(Duration::from_millis(10)).await;
        // operations in progress
        let msg = || Sendable::builder().message(Message::from(Value::Bool(true))).build();
        let fmt = |r: Result<String, String>| match r {
            Ok(s) => format!("ok:{}", s),
            Err(e) => format!("err:{}", e),
        };
        // the outcome of an earlier batchable send is awaited apart from the sender
        let batch_fut = tr!(snd0.send_batchable(msg()).await, "send_batchable");
        let t_batch = tokio::spawn(async move {
            let r = batch_fut.await.map(|o| format!("{:?}", o)).map_err(|e| format!("{:?}", e));
            ((), r)
        });
        let t_send_outcome = tokio::spawn(async move {
            let r = snd0.send(msg()).await.map(|o| format!("{:?}", o)).map_err(|e| format!("{:?}", e));
            (snd0, r)
        });
        // the same on the sender of session 1, whose only credit this uses up
        let batch1_fut = tr!(tokio::time::timeout(Duration::from_secs(5), snd1.send_batchable(msg())).await.map_err(|_| "no credit for the batchable send on session 1").and_then(|r| r.map_err(|_| "send_batchable on session 1 failed")), "send_batchable 1");
        let t_batch1 = tokio::spawn(async move {
            let r = batch1_fut.await.map(|o| format!("{:?}", o)).map_err(|e| format!("{:?}", e));
            ((), r)
        });
        let t_send_credit = tokio::spawn(async move {
            let r = snd1.send(msg()).await.map(|o| format!("{:?}", o)).map_err(|e| format!("{:?}", e));
            (snd1, r)
        });
        let t_recv = tokio::spawn(async move {
            let r = rcv0.recv::<Value>().await.map(|_| "delivery".to_string()).map_err(|e| format!("{:?}", e));
            (rcv0, r)
        });
        // an attach the peer never answers, on session 1 (the handle is needed again later: lend it to the task)
        let t_attach = tokio::spawn(async move {
            let r = Sender::builder().name("pending-attach").target("q").attach(&mut s1).await.map(|_| "attached".to_string()).map_err(|e| format!("{:?}", e));
            (s1, r)
        });
        tokio::time::sleep(Duration::from_millis(case.at_ms)).await;
        let _ = ctx.send(Cmd::Fail(case.failure.clone()));
        if case.failure == Failure::TransportDrop {
            // make sure the peer task is gone
            tokio::time::sleep(Duration::from_millis(1)).await;
        }
        // give the failure a bounded (virtual) time to arrive everywhere
        tokio::time::sleep(Duration::from_millis(500)).await;
        macro_rules! take {
            ($name:expr, $task:expr) => {{
                if $task.is_finished() {
                    match $task.await {
                        Ok((h, r)) => {
                            obs.in_progress.push(($name.to_string(), fmt(r)));
                            Some(h)
                        }
                        Err(_) => {
                            obs.in_progress.push(($name.to_string(), "err:task-panicked".into()));
                            None
                        }
                    }
                } else {
                    obs.in_progress.push(($name.to_string(), "PENDING".into()));
                    $task.abort();
                    None
                }
            }};
        }
        let _ = take!("outcome of an earlier batchable send (session 0)", t_batch);
        let _ = take!("outcome of an earlier batchable send (session 1)", t_batch1);
        let snd0 = take!("send awaiting its outcome (session 0)", t_send_outcome);
        let snd1 = take!("send awaiting credit (session 1)", t_send_credit);
        let rcv0 = take!("recv (session 0)", t_recv);
        let s1 = take!("attach the peer does not answer (session 1)", t_attach);
        // operations issued afterwards
        macro_rules! op {
            ($vec:expr, $name:expr, $fut:expr) => {{
                let r = tokio::time::timeout(Duration::from_secs(5), $fut).await;
                $vec.push(($name.to_string(), match r {
                    Err(_) => "TIMEOUT".to_string(),
                    Ok(Ok(s)) => format!("ok:{}", s),
                    Ok(Err(e)) => format!("err:{}", e),
                }));
            }};
        }
        let mut snd0 = snd0;
        let mut snd1 = snd1;
        let mut rcv0 = rcv0;
        let mut s1 = s1;
        if let Some(s) = snd0.as_mut() {
            op!(obs.after, "send on session 0", async { tokio::time::timeout(Duration::from_millis(300), s.send(Sendable::builder().message(Message::from(Value::Bool(true))).settled(true).build())).await.map_err(|_| "still-waiting".to_string()).and_then(|r| r.map(|_| "sent".to_string()).map_err(|e| format!("{:?}", e))) });
        }
        if let Some(r) = rcv0.as_mut() {
            op!(obs.after, "recv on session 0", async { tokio::time::timeout(Duration::from_millis(300), r.recv::<Value>()).await.map_err(|_| "still-waiting".to_string()).and_then(|x| x.map(|_| "delivery".to_string()).map_err(|e| format!("{:?}", e))) });
        }
        op!(obs.after, "attach on session 0", async { Sender::builder().name("late0").target("q").attach(&mut s0).await.map(|_| "attached".to_string()).map_err(|e| format!("{:?}", e)) });
        if let Some(s) = s1.as_mut() {
            op!(obs.after, "attach on session 1", async { Sender::builder().name("late1").target("q").attach(s).await.map(|_| "attached".to_string()).map_err(|e| format!("{:?}", e)) });
        }
        op!(obs.after, "begin a session", async { Session::begin(&mut conn).await.map(|_| "begun".to_string()).map_err(|e| format!("{:?}", e)) });
        // teardown
        if let Some(s) = snd0.take() {
            op!(obs.teardown, "close sender (session 0)", async { s.close().await.map(|_| String::new()).map_err(|e| format!("{:?}", e)) });
        }
        if let Some(r) = rcv0.take() {
            op!(obs.teardown, "close receiver (session 0)", async { r.close().await.map(|_| String::new()).map_err(|e| format!("{:?}", e)) });
        }
        if let Some(s) = snd1.take() {
            op!(obs.teardown, "close sender (session 1)", async { s.close().await.map(|_| String::new()).map_err(|e| format!("{:?}", e)) });
        }
        op!(obs.teardown, "end session 0", async { s0.end().await.map(|_| String::new()).map_err(|e| format!("{:?}", e)) });
        if let Some(mut s) = s1.take() {
            op!(obs.teardown, "end session 1", async { s.end().await.map(|_| String::new()).map_err(|e| format!("{:?}", e)) });
        }
        op!(obs.teardown, "close connection", async { conn.close().await.map(|_| String::new()).map_err(|e| format!("{:?}", e)) });
        drop(s0);
        drop(conn);
        drop(ctx);
        tokio::time::sleep(Duration::from_millis(200)).await;
        ptask.abort();
        let _ = ptask.await;
        tokio::time::sleep(Duration::from_millis(10)).await;
        obs.alive_tasks_after = metrics.num_alive_tasks().saturating_sub(0);
        let _ = baseline_tasks;
        obs
    });
    obs.panics = PANICS.load(Ordering::SeqCst) - panics0;
    obs
}

pub fn check(case: &Case, obs: &Observed) -> Option<(String, String)> {
    if let Some(e) = obs.errors.first() {
        return Some(("scenario-failed".into(), e.clone()));
    }
    let f = &case.failure;
    let tag = match f {
        Failure::TransportDrop => "transport-drop".to_string(),
        Failure::PeerClose(e) => format!("peer-close(error={})", e),
        Failure::PeerEnd(s, e) => format!("peer-end(session={},error={})", s, e),
        Failure::PeerDetach(l, c, e) => format!("peer-detach(link={},closed={},error={})", l, c, e),
        Failure::PeerEndThenClose(e) => format!("peer-end-then-close(error={})", e),
    };
    if obs.panics > 0 {
        return Some((format!("panic:{}", tag), format!("{} panic(s)", obs.panics)));
    }
    // which operations in progress does the failure reach?
    let reaches = |name: &str| -> bool {
        match f {
            Failure::TransportDrop | Failure::PeerClose(_) | Failure::PeerEndThenClose(_) => true,
            Failure::PeerEnd(s, _) => name.contains(&format!("session {}", s)),
            Failure::PeerDetach(l, _, _) => match l {
                0 => name.starts_with("send awaiting its outcome") || name == "outcome of an earlier batchable send (session 0)",
                1 => name.starts_with("recv"),
                _ => name.starts_with("send awaiting credit") || name == "outcome of an earlier batchable send (session 1)",
            },
        }
    };
    let with_error = match f {
        Failure::TransportDrop => false,
        Failure::PeerClose(e) | Failure::PeerEnd(_, e) | Failure::PeerDetach(_, _, e) => *e,
        // the close itself carries no error; the end's error is judged for the operations of session 0 below
        Failure::PeerEndThenClose(_) => false,
    };
    for (name, r) in &obs.in_progress {
        if reaches(name) {
            // the future of an earlier send_batchable after the peer detached its link: two recorded findings,
            // keyed by what happens rather than by the error flag of the scenario
            if name.starts_with("outcome of an earlier batchable") {
                if let Failure::PeerDetach(0, closed, _) | Failure::PeerDetach(2, closed, _) = f {
                    if r == "PENDING" && !*closed {
                        return Some(("hangs:batchable-outcome-after-non-closing-detach".into(), format!("`{}` was still pending 500 virtual ms after the peer detached the link ({})", name, tag)));
                    }
                    if *closed && r.contains("IllegalState") {
                        return Some(("uninformative-error:batchable-outcome-after-peer-close".into(), format!("`{}` failed with {} after the peer closed the link ({}): neither the level nor the peer's condition", name, r, tag)));
                    }
                }
            }
            if r == "PENDING" {
                return Some((format!("hangs:{}:{}", tag, name.split(' ').take(4).collect::<Vec<_>>().join("-")), format!("`{}` was still pending 500 virtual ms after the failure", name)));
            }
            if r.starts_with("ok:") && !name.starts_with("recv") {
                return Some((format!("completed-without-error:{}", tag), format!("`{}` returned {}", name, r)));
            }
            // the level
            if let Failure::PeerEndThenClose(e) = f {
                // the session ended first: its operations say so, with the peer's error; everything else went with the
                // connection.  Judged once the engines are idle (from 50 ms on): earlier, whether the session engine
                // gets to see the end before the connection has gone is the scheduler's choice, and an end without
                // an error yields to the connection's reason by design.
                if *e && case.at_ms >= 50 && name.contains("session 0") && r.starts_with("err:") {
                    if !(r.contains("RemoteEnded") || r.contains("Ended")) {
                        return Some((format!("error-names-wrong-level:{}", tag), format!("`{}` failed with {}: the peer had ended its session before it closed the connection", name, r)));
                    }
                    if *e && !(r.contains("scripted-condition") || r.contains("ResourceLimitExceeded")) {
                        return Some((format!("peer-condition-lost:{}:{}", tag, name.split(' ').take(2).collect::<Vec<_>>().join("-")), format!("`{}` failed with {} which does not carry the error of the peer's end", name, r)));
                    }
                }
                continue;
            }
            let level_ok = match f {
                Failure::PeerEndThenClose(_) => true,
                Failure::TransportDrop | Failure::PeerClose(_) => r.contains("Connection") || r.contains("Transport") || r.contains("RemoteClosed"),
                Failure::PeerEnd(_, _) => r.contains("Session") || r.contains("RemoteEnded") || r.contains("Ended"),
                Failure::PeerDetach(_, closed, _) => r.contains("Detach") || r.contains("Closed") || r.contains("detach") || (*closed && r.contains("Close")),
            };
            if r.starts_with("err:") && !level_ok {
                return Some((format!("error-names-wrong-level:{}", tag), format!("`{}` failed with {}", name, r)));
            }
            if with_error && r.starts_with("err:") && !(r.contains("scripted-condition") || r.contains("ResourceLimitExceeded")) {
                return Some((format!("peer-condition-lost:{}:{}", tag, name.split(' ').take(2).collect::<Vec<_>>().join("-")), format!("`{}` failed with {} which does not carry the peer's error", name, r)));
            }
        }
    }
    for (name, r) in obs.after.iter().chain(obs.teardown.iter()) {
        if r == "TIMEOUT" {
            return Some((format!("hangs:{}:{}", tag, name.replace(' ', "-")), format!("`{}` did not return within 5 virtual seconds", name)));
        }
    }
    // operations issued afterwards on something that has stopped must fail
    let conn_level = matches!(f, Failure::TransportDrop | Failure::PeerClose(_));
    for (name, r) in &obs.after {
        let stopped = conn_level || matches!(f, Failure::PeerEnd(s, _) if name.contains(&format!("session {}", s)));
        if stopped && name != "begin a session" || (conn_level && name == "begin a session") {
            if r.starts_with("ok:") {
                return Some((format!("operation-on-stopped-handle-succeeds:{}", tag), format!("`{}` returned {}", name, r)));
            }
            if r.contains("still-waiting") {
                return Some((format!("hangs:{}:{}", tag, name.replace(' ', "-")), format!("`{}` keeps waiting although its {} has stopped", name, if conn_level { "connection" } else { "session" })));
            }
        }
    }
    // what the failure does not reach keeps working
    if !conn_level {
        for (name, r) in obs.after.iter().chain(obs.teardown.iter()) {
            let untouched = match f {
                Failure::PeerEnd(s, _) => name == "begin a session" || name == "close connection" || name.contains(&format!("session {}", 1 - s)),
                Failure::PeerDetach(l, _, _) => {
                    name == "begin a session" || name == "close connection" || name.starts_with("attach on") || name.starts_with("end session")
                        || (*l != 0 && name == "send on session 0") || (*l != 1 && name == "close receiver (session 0)") || (*l != 0 && name == "close sender (session 0)")
                }
                _ => false,
            };
            // the sender on session 1 never got credit: its own operations are not judged here
            if untouched && !name.contains("sender (session 1)") && r.starts_with("err:") {
                return Some((format!("failure-spreads:{}:{}", tag, name.replace(' ', "-")), format!("`{}` failed with {} although the failure concerns something else", name, r)));
            }
        }
    }
    // the connection handle's own verdict
    if let Some((_, r)) = obs.teardown.iter().find(|(n, _)| n == "close connection") {
        match f {
            Failure::TransportDrop => {
                if !r.starts_with("err:") {
                    return Some((format!("transport-error-not-reported:{}", tag), format!("close() returned {}", r)));
                }
            }
            Failure::PeerClose(true) => {
                if !(r.contains("RemoteClosedWithError") && (r.contains("scripted-condition") || r.contains("ResourceLimitExceeded"))) {
                    return Some((format!("peer-condition-lost:{}:connection-handle", tag), format!("close() returned {}", r)));
                }
            }
            _ => {}
        }
    }
    if obs.alive_tasks_after > 0 {
        return Some((format!("engine-tasks-left:{}", tag), format!("{} task(s) still alive after every handle was closed and dropped ({} were alive before the failure)", obs.alive_tasks_after, obs.alive_tasks_before)));
    }
    None
}

/// the transport fails while the application is closing the connection: the peer reads the client's
/// close and then (0) drops the stream without answering, (1) answers with a close (control),
/// (2) had dropped the stream before the close was written, (3) answers with a close that carries an
/// error.  With `sessions` sessions begun (and left open) before.  Returns what `close()` returned.
pub fn run_cut_during_close(variant: u8, sessions: usize) -> Result<String, String> {
    let rt = paused_runtime();
    rt.block_on(async move {
        let (cio, pio) = tokio::io::duplex(1 << 16);
        let mut peer = Peer::new(pio);
        let client = tokio::spawn(async move {
            let mut conn = Connection::builder().container_id("c14-close").open_with_stream(cio).await.map_err(|e| format!("open: {:?}", e))?;
            let mut ss = vec![];
            for _ in 0..sessions {
                ss.push(Session::begin(&mut conn).await.map_err(|e| format!("begin: {:?}", e))?);
            }
            tokio::time::sleep(Duration::from_millis(20)).await;
            let r = tokio::time::timeout(Duration::from_secs(10), conn.close()).await;
            drop(ss);
            Ok::<String, String>(match r {
                Err(_) => "TIMEOUT".into(),
                Ok(Ok(())) => "ok".into(),
                Ok(Err(e)) => format!("err:{:?}", e),
            })
        });
        peer.accept_open(&PeerOpen::default()).await.map_err(|e| format!("{:?}", e))?;
        peer.recv_timeout = Duration::from_secs(3600);
        let mut begun = 0;
        while begun < sessions {
            match peer.recv().await {
                Ok(Incoming::Frame { channel, performative: Performative::Begin(_), .. }) => {
                    let b = Begin { remote_channel: Some(channel), next_outgoing_id: 0, incoming_window: 1000, outgoing_window: 1000, handle_max: Handle(100), offered_capabilities: None, desired_capabilities: None, properties: None };
                    peer.send(10 + channel, Performative::Begin(b), &[]).await.map_err(|e| format!("{:?}", e))?;
                    begun += 1;
                }
                Ok(_) => {}
                Err(e) => return Err(format!("peer: {:?}", e)),
            }
        }
        if variant == 2 {
            drop(peer);
        } else {
            loop {
                match peer.recv().await {
                    Ok(Incoming::Frame { performative: Performative::Close(_), .. }) => break,
                    Ok(_) => {}
                    Err(e) => return Err(format!("peer: {:?}", e)),
                }
            }
            match variant {
                1 => {
                    let _ = peer.send(0, Performative::Close(Close { error: None }), &[]).await;
                }
                3 => {
                    let _ = peer.send(0, Performative::Close(Close { error: Some(scripted_error()) }), &[]).await;
                }
                _ => {}
            }
            drop(peer);
        }
        client.await.map_err(|e| format!("{:?}", e))?
    })
}

pub fn check_cut_during_close(variant: u8, r: &str) -> Option<(String, String)> {
    let what = ["the peer read the close and dropped the stream without answering", "the peer answered the close", "the stream had ended before the close was written", "the peer answered with a close carrying an error"][variant as usize];
    match variant {
        1 => (r != "ok").then(|| ("clean-close-reported-as-failure".to_string(), format!("{}: close() returned {}", what, r))),
        3 => (!(r.starts_with("err:") && r.contains("scripted-condition"))).then(|| ("peer-error-not-reported-by-close".to_string(), format!("{}: close() returned {}", what, r))),
        _ => {
            if r == "TIMEOUT" {
                Some(("hangs:close-on-a-dead-transport".into(), format!("{}: close() did not return within 10 virtual seconds", what)))
            } else if r == "ok" {
                Some(("clean-close-reported-although-the-peer-never-closed".into(), format!("{}: close() returned Ok(()) — the failure of the transport is not reported", what)))
            } else {
                None
            }
        }
    }
}

pub fn all_failures() -> Vec<Failure> {
    let mut v = vec![Failure::TransportDrop, Failure::PeerClose(false), Failure::PeerClose(true)];
    for s in 0..2 {
        for e in [false, true] {
            v.push(Failure::PeerEnd(s, e));
        }
    }
    for l in 0..3 {
        for c in [false, true] {
            for e in [false, true] {
                v.push(Failure::PeerDetach(l, c, e));
            }
        }
    }
    v.push(Failure::PeerEndThenClose(true));
    v
}

pub fn main(opts: &Opts) {
    install_panic_counter();
    let mut report = Report::new(
        "C14",
        "a client with two sessions, two senders, a receiver and four operations in progress (send awaiting its outcome, send awaiting credit, \
         recv, an attach the peer never answers) hit by one failure — the transport dropped, or the peer closing the connection, ending either \
         session, or detaching / closing any of the three links, each with and without an error condition — at 0..400 virtual ms; then one \
         operation of each kind on every handle, then the whole teardown, each under a 5-virtual-second limit, and the runtime's count of live \
         tasks; non-trivial = every case; distinct by failure and moment",
    );
    if let Some(path) = &opts.replay {
        let j: J = serde_json::from_str(&std::fs::read_to_string(path).expect("read")).expect("json");
        if let Some(c) = j.get("cut_during_close") {
            let v = c.get("variant").and_then(|x| x.as_u64()).unwrap_or(0) as u8;
            let n = c.get("sessions").and_then(|x| x.as_u64()).unwrap_or(0) as usize;
            let r = run_cut_during_close(v, n);
            println!("{:?}", r);
            match r.as_ref().ok().and_then(|r| check_cut_during_close(v, r)) {
                Some((k, d)) => {
                    println!("REPLAY: property violated [{}]: {}", k, d);
                    std::process::exit(1);
                }
                None if r.is_ok() => {
                    println!("REPLAY: property holds on this scenario");
                    std::process::exit(0);
                }
                None => std::process::exit(1),
            }
        }
        if let Some(f) = j.get("failure").and_then(Failure::from_json) {
            std::env::set_var("VERIF_TRACE", "1");
            let case = Case { failure: f, at_ms: j.get("at_ms").and_then(|x| x.as_u64()).unwrap_or(50) };
            let obs = run(&case);
            println!("in progress: {:#?}\nafter: {:#?}\nteardown: {:#?}\ntasks before {} after {}; panics {}; errors {:?}", obs.in_progress, obs.after, obs.teardown, obs.alive_tasks_before, obs.alive_tasks_after, obs.panics, obs.errors);
            match check(&case, &obs) {
                Some((k, d)) => {
                    println!("REPLAY: property violated [{}]: {}", k, d);
                    std::process::exit(1);
                }
                None => {
                    println!("REPLAY: property holds on this scenario");
                    std::process::exit(0);
                }
            }
        }
        std::process::exit(2);
    }
    let mut rng = Rng::new(opts.seed ^ 0xc14);
    let moments: Vec<u64> = if opts.thorough() { (0..40).map(|_| rng.below(400)).collect() } else { vec![0, 1, 50, 333] };
    for f in all_failures() {
        for at in &moments {
            let case = Case { failure: f.clone(), at_ms: *at };
            let obs = run(&case);
            report.evaluations += 1;
            report.nontrivial_case(fnv(&format!("{:?}{}", f, at)));
            report.count(&format!("failure_{}", f.to_json().get("kind").and_then(|x| x.as_str()).unwrap_or("")));
            if let Some((key, desc)) = check(&case, &obs) {
                report.finding(Finding { kind: "violation", key, description: desc, replay: json!({"property": "C14", "module": "failprop", "failure": f.to_json(), "at_ms": at, "in_progress": format!("{:?}", obs.in_progress), "after": format!("{:?}", obs.after), "teardown": format!("{:?}", obs.teardown)}) });
            }
        }
    }
    // the transport failing while the application closes the connection
    for variant in 0..4u8 {
        for sessions in [0usize, 1, 3] {
            report.evaluations += 1;
            report.count("cut_during_close_cases");
            report.nontrivial_case(fnv(&format!("cut-during-close{}/{}", variant, sessions)));
            match run_cut_during_close(variant, sessions) {
                Ok(r) => {
                    if let Some((key, desc)) = check_cut_during_close(variant, &r) {
                        report.finding(Finding { kind: "violation", key, description: desc, replay: json!({"property": "C14", "module": "failprop", "cut_during_close": {"variant": variant, "sessions": sessions}}) });
                    }
                }
                Err(e) => report.finding(Finding { kind: "violation", key: "scenario-failed".into(), description: e, replay: json!({"property": "C14", "module": "failprop", "cut_during_close": {"variant": variant, "sessions": sessions}}) }),
            }
        }
    }
    // correspondence: the class of error the model predicts for the operations the failure reaches
    if driver_available() {
        let class_of = |r: &str| -> String {
            let table = [
                ("ConnectionStopped(RemoteClosedWithError", "connRemoteClosedWithError"),
                ("ConnectionStopped(RemoteClosed)", "connRemoteClosed"),
                ("ConnectionStopped(Closed)", "connClosed"),
                ("RemoteEndedWithError", "sessRemoteEndedWithError"),
                ("RemoteEnded", "sessRemoteEnded"),
                ("RemoteClosedWithError", "linkRemoteClosedWithError"),
                ("RemoteDetachedWithError", "linkRemoteDetachedWithError"),
                ("RemoteClosed", "linkRemoteClosed"),
                ("RemoteDetached", "linkRemoteDetached"),
            ];
            for (pat, c) in table {
                if r.contains(pat) {
                    return c.to_string();
                }
            }
            format!("other:{}", r.chars().take(60).collect::<String>())
        };
        let mut lines = vec![];
        let mut imp = vec![];
        let mut names = vec![];
        for f in all_failures() {
            let case = Case { failure: f.clone(), at_ms: 50 };
            let obs = run(&case);
            let line = match &f {
                Failure::TransportDrop => "P cause transport".to_string(),
                Failure::PeerClose(e) => format!("P cause close {}", *e as u8),
                Failure::PeerEnd(_, e) => format!("P cause end {}", *e as u8),
                Failure::PeerDetach(_, c, e) => format!("P cause detach {} {}", *c as u8, *e as u8),
                // for the operations of the session that was ended first, the cause is that end
                Failure::PeerEndThenClose(e) => format!("P cause end {}", *e as u8),
            };
            for (name, r) in &obs.in_progress {
                // the operations the failure reaches directly, except the two recorded batchable-outcome findings
                let reached = match &f {
                    Failure::TransportDrop | Failure::PeerClose(_) => true,
                    Failure::PeerEnd(s, _) => name.contains(&format!("session {}", s)),
                    Failure::PeerDetach(l, _, _) => match l {
                        0 => name.starts_with("send awaiting its outcome"),
                        1 => name.starts_with("recv"),
                        _ => name.starts_with("send awaiting credit"),
                    },
                    Failure::PeerEndThenClose(_) => name.contains("session 0") && !name.starts_with("outcome of an earlier"),

                };
                if reached && r.starts_with("err:") && !(name.starts_with("outcome of an earlier") && matches!(f, Failure::PeerDetach(..))) {
                    lines.push(line.clone());
                    imp.push(class_of(r));
                    names.push(format!("{} / {:?}", name, f));
                }
            }
        }
        match run_driver(&lines) {
            Ok(model) => {
                report.model_used = true;
                report.model_lines = model.len() as u64;
                let mut bad = 0;
                for i in 0..model.len().min(imp.len()) {
                    if model[i] != imp[i] {
                        if bad == 0 {
                            report.finding(Finding { kind: "disagreement", key: "model-vs-implementation".into(), description: format!("{} ({}) -> implementation {} model {}", lines[i], names[i], imp[i], model[i]), replay: json!({"property": "C14", "module": "failprop", "line": lines[i], "implementation": imp[i], "model": model[i]}) });
                        }
                        bad += 1;
                    }
                }
                report.count_n("lines_disagreeing_with_model", bad);
            }
            Err(e) => report.notes.push(format!("model driver failed: {}", e)),
        }
    } else {
        report.notes.push("model driver not available: correspondence skipped".into());
    }
    report.sample(json!({"failures": all_failures().iter().map(|f| f.to_json()).collect::<Vec<_>>(), "moments": moments}));
    report.write(&opts.report);
    println!("failprop: {} cases, {} non-trivial, {} findings", report.evaluations, report.nontrivial.len(), report.findings.len());
}
