//! Busy-wait probe shared by the lifecycle checks (C13 / C15): while an endpoint waits for
//! the peer's answer to its end / close it must be parked, not polling.  The scenario runs
//! on a real-time current-thread runtime; the peer withholds its answer for a fixed wall
//! time and the CPU time the thread burnt during that wait is read from the kernel.

use std::time::{Duration, Instant};

use fe2o3_amqp::{Connection, Session};
use fe2o3_amqp_types::performatives::{Close, End, Performative};

use crate::peer::*;

fn thread_cpu_ns() -> u64 {
    // /proc/thread-self/schedstat: "<cpu time ns> <run-queue wait ns> <timeslices>"
    std::fs::read_to_string("/proc/thread-self/schedstat").ok().and_then(|s| s.split_whitespace().next().and_then(|x| x.parse().ok())).unwrap_or(0)
}

#[derive(Clone, Copy, Debug, PartialEq)]
pub enum Wait {
    /// local `Session::end()`, the peer answers the end late
    SessionEnd,
    /// local `Connection::close()`, the peer answers the close late
    ConnectionClose,
}

/// returns (wall ns waited, cpu ns burnt by the runtime thread during the wait, completed)
pub fn probe(which: Wait, hold: Duration) -> Result<(u64, u64, bool), String> {
    let rt = tokio::runtime::Builder::new_current_thread().enable_all().build().map_err(|e| e.to_string())?;
    rt.block_on(async move {
        let (cio, pio) = tokio::io::duplex(1 << 16);
        let mut peer = Peer::new(pio);
        let client = tokio::spawn(async move {
            let mut conn = Connection::builder().container_id("spin").open_with_stream(cio).await.map_err(|e| format!("open: {:?}", e))?;
            let mut session = Session::begin(&mut conn).await.map_err(|e| format!("begin: {:?}", e))?;
            if which == Wait::SessionEnd {
                session.end().await.map_err(|e| format!("end: {:?}", e))?;
                conn.close().await.map_err(|e| format!("close: {:?}", e))?;
            } else {
                // the session handle stays alive; the connection is closed under it
                conn.close().await.map_err(|e| format!("close: {:?}", e))?;
                drop(session);
            }
            Ok::<(), String>(())
        });
        peer.accept_open(&PeerOpen::default()).await.map_err(|e| format!("{:?}", e))?;
        peer.accept_begin(0, 0, 2048, 2048).await.map_err(|e| format!("{:?}", e))?;
        let mut measured = (0u64, 0u64);
        loop {
            match peer.recv_frame().await {
                Ok((_, Performative::End(_), _)) => {
                    if which == Wait::SessionEnd {
                        let (c0, t0) = (thread_cpu_ns(), Instant::now());
                        tokio::time::sleep(hold).await;
                        measured = (t0.elapsed().as_nanos() as u64, thread_cpu_ns() - c0);
                    }
                    peer.send(0, Performative::End(End { error: None }), &[]).await.map_err(|e| format!("{:?}", e))?;
                }
                Ok((_, Performative::Close(_), _)) => {
                    if which == Wait::ConnectionClose {
                        let (c0, t0) = (thread_cpu_ns(), Instant::now());
                        tokio::time::sleep(hold).await;
                        measured = (t0.elapsed().as_nanos() as u64, thread_cpu_ns() - c0);
                    }
                    peer.send(0, Performative::Close(Close { error: None }), &[]).await.map_err(|e| format!("{:?}", e))?;
                    break;
                }
                Ok(_) => {}
                Err(e) => return Err(format!("peer: {:?}", e)),
            }
        }
        let done = matches!(tokio::time::timeout(Duration::from_secs(5), client).await, Ok(Ok(Ok(()))));
        Ok((measured.0, measured.1, done))
    })
}
