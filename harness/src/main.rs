//! vharness — correspondence + search harness.
//!
//! usage: vharness <module> [--tier quick|thorough] [--seed N] [--report FILE] [--replay FILE]
//!
//! Every module (a) generates inputs / operation sequences from the seed,
//! (b) runs the real implementation on them, (c) evaluates the property
//! directly on the implementation's behaviour (search for a failing input),
//! (d) feeds the same lines to the Lean model driver and diffs the outputs
//! (correspondence).  Findings go to the report file; the verdict is taken by
//! tools/check.py.

mod cancel;
mod chunks;
mod sasl;
mod txn;
mod typed;
mod gen_typed;
mod specenc;
mod delivery;
mod codec;
mod common;
mod connlife;
mod credit;
mod e2e;
mod failprop;
mod frame;
mod framebody;
mod held;
mod hostile;
mod ids;
mod ioread;
mod life;
mod limits;
mod lsender;
mod peer;
mod pipeline;
mod reasm;
mod recvcredit;
mod session;
mod sessionwire;
mod settle;
mod spinprobe;

use common::Opts;

#[global_allocator]
static GLOBAL: codec::CountingAlloc = codec::CountingAlloc;

fn main() {
    let args: Vec<String> = std::env::args().collect();
    if args.len() < 2 {
        eprintln!("usage: vharness <module> [--tier T] [--seed N] [--report F] [--replay F]");
        std::process::exit(64);
    }
    if args[1] == "nesting-probe" && args.len() == 4 {
        codec::nesting_probe_child(&args[2], args[3].parse().expect("levels"));
        return;
    }
    let mut opts = Opts {
        tier: std::env::var("VERIF_TIER").unwrap_or_else(|_| "quick".into()),
        seed: std::env::var("VERIF_SEED").ok().and_then(|s| s.parse().ok()).unwrap_or(1),
        report: "/dev/null".into(),
        replay: None,
        property: String::new(),
    };
    let mut i = 2;
    while i < args.len() {
        match args[i].as_str() {
            "--tier" => {
                opts.tier = args[i + 1].clone();
                i += 2;
            }
            "--seed" => {
                opts.seed = args[i + 1].parse().expect("seed");
                i += 2;
            }
            "--report" => {
                opts.report = args[i + 1].clone();
                i += 2;
            }
            "--replay" => {
                opts.replay = Some(args[i + 1].clone());
                i += 2;
            }
            "--property" => {
                opts.property = args[i + 1].clone();
                i += 2;
            }
            other => {
                eprintln!("unknown option {}", other);
                std::process::exit(64);
            }
        }
    }
    match args[1].as_str() {
        "session" => session::main(&opts),
        "codec" => codec::main(&opts),
        "credit" => credit::main(&opts),
        "lsender" => lsender::main(&opts),
        "frame" => frame::main(&opts),
        "framebody" => framebody::main(&opts),
        "recvcredit" => recvcredit::main(&opts),
        "reasm" => reasm::main(&opts),
        "ids" => ids::main(&opts),
        "cancel" => cancel::main(&opts),
        "sasl" => sasl::main(&opts),
        "txn" => txn::main(&opts),
        "specenc" => specenc::main(&opts),
        "delivery" => delivery::main(&opts),
        "failprop" => failprop::main(&opts),
        "hostile" => hostile::main(&opts),
        "limits" => limits::main(&opts),
        "connlife" => connlife::main(&opts),
        "settle" => settle::main(&opts),
        "sessionwire" => sessionwire::main(&opts),
        "life" => life::main(&opts),
        "typed" => typed::main(&opts),
        "ioread" => ioread::main(&opts),
        "chunks" => chunks::main(&opts),
        "held" => held::main(&opts),
        "pipeline" => pipeline::main(&opts),
        "probe-to-value" => typed::probe_to_value(&opts),
        "probe-messages" => typed::probe_messages(&opts),
        other => {
            eprintln!("unknown module {}", other);
            std::process::exit(64);
        }
    }
}
