//! C03 / C04 / C05 / C20 — the wire codec for untyped values.  Drives
//! `serde_amqp::{to_vec, from_slice, from_reader, serialized_size}` and the Lean
//! model (`Amqp.Codec`) on generated values and byte strings.

use std::alloc::{GlobalAlloc, Layout, System};
use std::cell::Cell;
use std::io::Read;

use serde::Deserialize;
use serde_amqp::described::Described;
use serde_amqp::descriptor::Descriptor;
use serde_amqp::primitives::{Array, Dec128, Dec32, Dec64, OrderedMap, Symbol, Timestamp, Uuid};
use serde_amqp::Value;
use serde_json::{json, Value as J};

use crate::common::*;

// ---- allocation accounting ---------------------------------------------------------------

thread_local! {
    static TRACK: Cell<bool> = const { Cell::new(false) };
    static ALLOCATED: Cell<u64> = const { Cell::new(0) };
    static LARGEST: Cell<u64> = const { Cell::new(0) };
}

pub struct CountingAlloc;

unsafe impl GlobalAlloc for CountingAlloc {
    unsafe fn alloc(&self, layout: Layout) -> *mut u8 {
        let _ = TRACK.try_with(|t| {
            if t.get() {
                let _ = ALLOCATED.try_with(|a| a.set(a.get() + layout.size() as u64));
                let _ = LARGEST.try_with(|a| a.set(a.get().max(layout.size() as u64)));
            }
        });
        System.alloc(layout)
    }
    unsafe fn dealloc(&self, ptr: *mut u8, layout: Layout) {
        System.dealloc(ptr, layout)
    }
    unsafe fn realloc(&self, ptr: *mut u8, layout: Layout, new_size: usize) -> *mut u8 {
        let _ = TRACK.try_with(|t| {
            if t.get() && new_size > layout.size() {
                let _ = ALLOCATED.try_with(|a| a.set(a.get() + (new_size - layout.size()) as u64));
                let _ = LARGEST.try_with(|a| a.set(a.get().max(new_size as u64)));
            }
        });
        System.realloc(ptr, layout, new_size)
    }
    unsafe fn alloc_zeroed(&self, layout: Layout) -> *mut u8 {
        let _ = TRACK.try_with(|t| {
            if t.get() {
                let _ = ALLOCATED.try_with(|a| a.set(a.get() + layout.size() as u64));
                let _ = LARGEST.try_with(|a| a.set(a.get().max(layout.size() as u64)));
            }
        });
        System.alloc_zeroed(layout)
    }
}

/// runs `f`, returns (result, bytes allocated, largest single allocation)
pub fn tracked<T>(f: impl FnOnce() -> T) -> (T, u64, u64) {
    ALLOCATED.with(|a| a.set(0));
    LARGEST.with(|a| a.set(0));
    TRACK.with(|t| t.set(true));
    let r = f();
    TRACK.with(|t| t.set(false));
    (r, ALLOCATED.with(|a| a.get()), LARGEST.with(|a| a.get()))
}

// ---- value <-> text ------------------------------------------------------------------------

pub fn show(v: &Value) -> String {
    fn x(k: usize, bs: &[u8]) -> String {
        format!("x{}.{}", k, hex(bs))
    }
    match v {
        Value::Null => "n".into(),
        Value::Bool(true) => "t".into(),
        Value::Bool(false) => "f".into(),
        Value::Ubyte(n) => x(0, &n.to_be_bytes()),
        Value::Ushort(n) => x(1, &n.to_be_bytes()),
        Value::Uint(n) => x(2, &n.to_be_bytes()),
        Value::Ulong(n) => x(3, &n.to_be_bytes()),
        Value::Byte(n) => x(4, &n.to_be_bytes()),
        Value::Short(n) => x(5, &n.to_be_bytes()),
        Value::Int(n) => x(6, &n.to_be_bytes()),
        Value::Long(n) => x(7, &n.to_be_bytes()),
        Value::Float(f) => x(8, &f.into_inner().to_be_bytes()),
        Value::Double(f) => x(9, &f.into_inner().to_be_bytes()),
        Value::Decimal32(d) => x(10, &d.clone().into_inner()),
        Value::Decimal64(d) => x(11, &d.clone().into_inner()),
        Value::Decimal128(d) => x(12, &d.clone().into_inner()),
        Value::Char(c) => x(13, &(*c as u32).to_be_bytes()),
        Value::Timestamp(t) => x(14, &t.milliseconds().to_be_bytes()),
        Value::Uuid(u) => x(15, &u.clone().into_inner()),
        Value::Binary(b) => format!("y0.{}", hex(b)),
        Value::String(s) => format!("y1.{}", hex(s.as_bytes())),
        Value::Symbol(s) => format!("y2.{}", hex(s.0.as_bytes())),
        Value::List(vs) => format!("l({})", vs.iter().map(show).collect::<Vec<_>>().join(",")),
        Value::Map(m) => format!("m({})", m.iter().flat_map(|(k, v)| [show(k), show(v)]).collect::<Vec<_>>().join(",")),
        Value::Array(a) => format!("a({})", a.0.iter().map(show).collect::<Vec<_>>().join(",")),
        Value::Described(d) => {
            let desc = match &d.descriptor {
                Descriptor::Name(s) => format!("y2.{}", hex(s.0.as_bytes())),
                Descriptor::Code(c) => x(3, &c.to_be_bytes()),
            };
            format!("d({},{})", desc, show(&d.value))
        }
    }
}

pub fn parse(s: &str) -> Option<Value> {
    let cs: Vec<char> = s.chars().collect();
    let (v, rest) = parse_value(&cs)?;
    if rest.is_empty() {
        Some(v)
    } else {
        None
    }
}

fn take_until<'a>(cs: &'a [char], stop: &[char]) -> (&'a [char], &'a [char]) {
    let i = cs.iter().position(|c| stop.contains(c)).unwrap_or(cs.len());
    (&cs[..i], &cs[i..])
}

fn parse_value(cs: &[char]) -> Option<(Value, &[char])> {
    match cs.first()? {
        'n' => Some((Value::Null, &cs[1..])),
        't' => Some((Value::Bool(true), &cs[1..])),
        'f' => Some((Value::Bool(false), &cs[1..])),
        'x' | 'y' => {
            let (head, rest) = take_until(&cs[1..], &[',', ')']);
            let head: String = head.iter().collect();
            let (k, h) = head.split_once('.')?;
            let k: usize = k.parse().ok()?;
            let bs = unhex(h)?;
            let v = if cs[0] == 'x' {
                fn arr<const N: usize>(b: &[u8]) -> Option<[u8; N]> {
                    b.try_into().ok()
                }
                match k {
                    0 => Value::Ubyte(u8::from_be_bytes(arr(&bs)?)),
                    1 => Value::Ushort(u16::from_be_bytes(arr(&bs)?)),
                    2 => Value::Uint(u32::from_be_bytes(arr(&bs)?)),
                    3 => Value::Ulong(u64::from_be_bytes(arr(&bs)?)),
                    4 => Value::Byte(i8::from_be_bytes(arr(&bs)?)),
                    5 => Value::Short(i16::from_be_bytes(arr(&bs)?)),
                    6 => Value::Int(i32::from_be_bytes(arr(&bs)?)),
                    7 => Value::Long(i64::from_be_bytes(arr(&bs)?)),
                    8 => Value::Float(f32::from_be_bytes(arr(&bs)?).into()),
                    9 => Value::Double(f64::from_be_bytes(arr(&bs)?).into()),
                    10 => Value::Decimal32(Dec32::from(arr::<4>(&bs)?)),
                    11 => Value::Decimal64(Dec64::from(arr::<8>(&bs)?)),
                    12 => Value::Decimal128(Dec128::from(arr::<16>(&bs)?)),
                    13 => Value::Char(char::from_u32(u32::from_be_bytes(arr(&bs)?))?),
                    14 => Value::Timestamp(Timestamp::from_milliseconds(i64::from_be_bytes(arr(&bs)?))),
                    15 => Value::Uuid(Uuid::from(arr::<16>(&bs)?)),
                    _ => return None,
                }
            } else {
                match k {
                    0 => Value::Binary(serde_bytes::ByteBuf::from(bs)),
                    1 => Value::String(String::from_utf8(bs).ok()?),
                    2 => Value::Symbol(Symbol::from(String::from_utf8(bs).ok()?)),
                    _ => return None,
                }
            };
            Some((v, rest))
        }
        'l' | 'm' | 'a' => {
            if cs.get(1) != Some(&'(') {
                return None;
            }
            let mut rest = &cs[2..];
            let mut items = vec![];
            if rest.first() == Some(&')') {
                rest = &rest[1..];
            } else {
                loop {
                    let (v, r) = parse_value(rest)?;
                    items.push(v);
                    match r.first()? {
                        ',' => rest = &r[1..],
                        ')' => {
                            rest = &r[1..];
                            break;
                        }
                        _ => return None,
                    }
                }
            }
            let v = match cs[0] {
                'l' => Value::List(items),
                'a' => Value::Array(Array(items)),
                _ => {
                    let mut m = OrderedMap::new();
                    let mut it = items.into_iter();
                    while let (Some(k), Some(v)) = (it.next(), it.next()) {
                        m.insert(k, v);
                    }
                    Value::Map(m)
                }
            };
            Some((v, rest))
        }
        'd' => {
            if cs.get(1) != Some(&'(') {
                return None;
            }
            let (d, r) = parse_value(&cs[2..])?;
            if r.first() != Some(&',') {
                return None;
            }
            let (v, r2) = parse_value(&r[1..])?;
            if r2.first() != Some(&')') {
                return None;
            }
            let descriptor = match d {
                Value::Symbol(s) => Descriptor::Name(s),
                Value::Ulong(c) => Descriptor::Code(c),
                _ => return None,
            };
            Some((Value::Described(Box::new(Described { descriptor, value: v })), &r2[1..]))
        }
        _ => None,
    }
}

// ---- generators ------------------------------------------------------------------------------

fn boundary_len(rng: &mut Rng) -> usize {
    match rng.below(12) {
        0 => 0,
        1 => 1,
        2 => 253,
        3 => 254,
        4 => 255,
        5 => 256,
        6 => 257,
        7 => rng.range(2, 40) as usize,
        _ => rng.range(0, 12) as usize,
    }
}

fn gen_utf8(rng: &mut Rng, len: usize) -> String {
    let mut s = String::new();
    while s.len() < len {
        let c = match rng.below(6) {
            0 => 'é',
            1 => '€',
            2 => '😀',
            3 => '\u{10FFFF}',
            _ => (b'a' + rng.below(26) as u8) as char,
        };
        if s.len() + c.len_utf8() <= len {
            s.push(c);
        } else {
            s.push('z');
        }
    }
    s
}

fn int_boundary(rng: &mut Rng, bits: u32) -> i128 {
    let r = rng.next() as i128;
    let picks: [i128; 14] = [0, 1, -1, 127, 128, -128, -129, 255, 256, (1i128 << (bits - 1)) - 1, -(1i128 << (bits - 1)), (1i128 << bits) - 1, 1 << (bits / 2), r];
    *rng.pick(&picks)
}

/// a scalar / variable-width value of kind `k` (0..=20), used for homogeneous arrays too
fn gen_simple(rng: &mut Rng, k: u64) -> Value {
    match k {
        0 => Value::Bool(rng.chance(1, 2)),
        1 => Value::Ubyte(int_boundary(rng, 8) as u8),
        2 => Value::Ushort(int_boundary(rng, 16) as u16),
        3 => Value::Uint(int_boundary(rng, 32) as u32),
        4 => Value::Ulong(int_boundary(rng, 64) as u64),
        5 => Value::Byte(int_boundary(rng, 8) as i8),
        6 => Value::Short(int_boundary(rng, 16) as i16),
        7 => Value::Int(int_boundary(rng, 32) as i32),
        8 => Value::Long(int_boundary(rng, 64) as i64),
        9 => {
            let r = rng.next() as u32;
            Value::Float(f32::from_bits(*rng.pick(&[0u32, 0x8000_0000, 0x3f80_0000, 0x7f80_0000, 0x7fc0_0000, 0x0000_0001, r])).into())
        }
        10 => {
            let r = rng.next();
            Value::Double(f64::from_bits(*rng.pick(&[0u64, 0x8000_0000_0000_0000, 0x3ff0_0000_0000_0000, 0x7ff8_0000_0000_0000, r])).into())
        }
        11 => Value::Decimal32(Dec32::from((rng.next() as u32).to_be_bytes())),
        12 => Value::Decimal64(Dec64::from(rng.next().to_be_bytes())),
        13 => {
            let mut b = [0u8; 16];
            b[..8].copy_from_slice(&rng.next().to_be_bytes());
            b[8..].copy_from_slice(&rng.next().to_be_bytes());
            Value::Decimal128(Dec128::from(b))
        }
        14 => Value::Char(*rng.pick(&['a', '\0', 'é', '€', '😀', '\u{10FFFF}', '\u{D7FF}', '\u{E000}'])),
        15 => Value::Timestamp(Timestamp::from_milliseconds(int_boundary(rng, 64) as i64)),
        16 => {
            let mut b = [0u8; 16];
            b[..8].copy_from_slice(&rng.next().to_be_bytes());
            b[8..].copy_from_slice(&rng.next().to_be_bytes());
            Value::Uuid(Uuid::from(b))
        }
        17 => {
            let n = boundary_len(rng);
            Value::Binary(serde_bytes::ByteBuf::from((0..n).map(|_| rng.next() as u8).collect::<Vec<u8>>()))
        }
        18 => {
            let n = boundary_len(rng);
            Value::String(gen_utf8(rng, n))
        }
        _ => {
            let n = boundary_len(rng);
            Value::Symbol(Symbol::from(gen_utf8(rng, n)))
        }
    }
}

/// classification of a value with respect to what the encoder/decoder handle (see DESIGN.md):
/// `None` = in scope; `Some(class)` = contains an array whose elements the codec does not support
pub fn out_of_scope(v: &Value) -> Option<String> {
    match v {
        Value::List(vs) => vs.iter().find_map(out_of_scope),
        Value::Map(m) => m.iter().find_map(|(k, v)| out_of_scope(k).or_else(|| out_of_scope(v))),
        Value::Described(d) => out_of_scope(&d.value),
        Value::Array(a) => {
            let kind = |v: &Value| -> &'static str {
                match v {
                    Value::Null => "null",
                    Value::List(_) => "list",
                    Value::Map(_) => "map",
                    Value::Array(_) => "array",
                    Value::Described(_) => "described",
                    _ => "simple",
                }
            };
            for e in &a.0 {
                if kind(e) != "simple" {
                    return Some(format!("array-of-{}", kind(e)));
                }
            }
            if let Some(first) = a.0.first() {
                if a.0.iter().any(|e| std::mem::discriminant(e) != std::mem::discriminant(first)) {
                    return Some("array-of-mixed-types".into());
                }
            }
            None
        }
        _ => None,
    }
}

/// a list, map or array whose encoded body is within a few bytes of the one-byte / four-byte header
/// boundary (the width class is chosen from the body length, in the encoder and in the size calculator)
fn gen_boundary_compound(rng: &mut Rng) -> Value {
    let t = 248 + rng.below(14) as usize; // body length aimed at: 248..261
    let bin = |n: usize, rng: &mut Rng| Value::Binary(serde_bytes::ByteBuf::from((0..n).map(|_| rng.below(256) as u8).collect::<Vec<u8>>()));
    let inner = match rng.below(4) {
        0 => Value::List(vec![bin(t.saturating_sub(if t - 2 <= 255 { 2 } else { 5 }), rng)]),
        1 => {
            let mut m = OrderedMap::new();
            m.insert(Value::Ubyte(rng.below(256) as u8), bin(t.saturating_sub(if t - 4 <= 255 { 4 } else { 7 }), rng));
            Value::Map(m)
        }
        2 => Value::Array(Array((0..t).map(|_| Value::Ubyte(rng.below(256) as u8)).collect())),
        _ => Value::List((0..t / 2).map(|_| Value::Ubyte(rng.below(256) as u8)).collect()),
    };
    match rng.below(3) {
        0 => inner,
        1 => Value::List(vec![Value::Null, inner]),
        _ => Value::Described(Box::new(Described { descriptor: Descriptor::Code(rng.below(300)), value: inner })),
    }
}

pub fn gen_value(rng: &mut Rng, depth: u32, allow_oos: bool) -> Value {
    if depth >= 2 && rng.chance(1, 20) {
        return gen_boundary_compound(rng);
    }
    let r = rng.below(100);
    if depth == 0 || r < 55 {
        if rng.chance(1, 12) {
            return Value::Null;
        }
        return { let kk = rng.below(20); gen_simple(rng, kk) };
    }
    match r {
        55..=69 => {
            let n = *rng.pick(&[0usize, 1, 2, 3, 5, 40, 130]);
            let n = if depth < 3 { n } else { n.min(5) };
            Value::List((0..n).map(|_| gen_value(rng, depth - 1, allow_oos)).collect())
        }
        70..=81 => {
            let n = *rng.pick(&[0usize, 1, 2, 3, 30]);
            let n = if depth < 3 { n } else { n.min(3) };
            let mut m = OrderedMap::new();
            for _ in 0..n {
                let k = if rng.chance(3, 4) { { let kk = rng.below(20); gen_simple(rng, kk) } } else { gen_value(rng, depth - 1, allow_oos) };
                // floats as keys compare by value (NaN == NaN, 0.0 == -0.0): keep them out of keys
                if matches!(k, Value::Float(_) | Value::Double(_)) {
                    continue;
                }
                let v = gen_value(rng, depth - 1, allow_oos);
                m.insert(k, v);
            }
            Value::Map(m)
        }
        82..=93 => {
            let n = *rng.pick(&[0usize, 1, 2, 3, 60, 128]);
            if allow_oos && rng.chance(1, 6) {
                // arrays the codec does not support: compound / null / described / mixed elements
                let items: Vec<Value> = match rng.below(5) {
                    0 => (0..n.clamp(1, 3)).map(|_| Value::Null).collect(),
                    1 => (0..n.clamp(1, 3)).map(|_| Value::List(vec![gen_simple(rng, 3)])).collect(),
                    2 => (0..n.clamp(1, 3)).map(|_| Value::Array(Array(vec![gen_simple(rng, 2)]))).collect(),
                    3 => (0..n.clamp(1, 3)).map(|_| Value::Described(Box::new(Described { descriptor: Descriptor::Code(5), value: gen_simple(rng, 3) }))).collect(),
                    _ => vec![gen_simple(rng, 3), gen_simple(rng, 18)],
                };
                return Value::Array(Array(items));
            }
            let k = rng.below(20);
            Value::Array(Array((0..n).map(|_| gen_simple(rng, k)).collect()))
        }
        _ => {
            let descriptor = if rng.chance(1, 2) { Descriptor::Code(int_boundary(rng, 64) as u64) } else { { let n = boundary_len(rng).min(40); Descriptor::Name(Symbol::from(gen_utf8(rng, n))) } };
            Value::Described(Box::new(Described { descriptor, value: gen_value(rng, depth - 1, allow_oos) }))
        }
    }
}

// ---- implementation runs --------------------------------------------------------------------------

#[derive(Debug, Clone, PartialEq)]
pub enum DecOut {
    Ok { value: String, rest: usize },
    Err(String),
    Panic(String),
}

fn err_class(e: &serde_amqp::Error) -> &'static str {
    use serde_amqp::Error::*;
    match e {
        Io(io) if io.kind() == std::io::ErrorKind::UnexpectedEof => "eof",
        Io(_) => "io",
        InvalidFormatCode => "badcode",
        InvalidValue => "badvalue",
        InvalidLength => "badlen",
        InvalidUtf8Encoding => "utf8",
        SequenceLengthMismatch => "badlen",
        Message(m) if m.contains("Nesting") => "depth",
        Message(_) => "custom",
    }
}

pub fn dec_slice(bytes: &[u8]) -> DecOut {
    let r = std::panic::catch_unwind(|| {
        let reader = serde_amqp::read::SliceReader::new(bytes);
        let mut de = serde_amqp::de::Deserializer::new(reader);
        let v = Value::deserialize(&mut de);
        (v, de.verif_bytes_consumed())
    });
    match r {
        Ok((Ok(v), consumed)) => DecOut::Ok { value: show(&v), rest: bytes.len() - consumed },
        Ok((Err(e), _)) => DecOut::Err(err_class(&e).to_string()),
        Err(p) => DecOut::Panic(p.downcast_ref::<String>().cloned().or_else(|| p.downcast_ref::<&str>().map(|s| s.to_string())).unwrap_or_default()),
    }
}

/// an `io::Read` that hands out at most `chunk` bytes per call and counts what was taken
struct Chunked<'a> {
    data: &'a [u8],
    pos: usize,
    chunk: usize,
    /// the read call (counted from 0) that reports `ErrorKind::Interrupted` once, if any
    interrupt_at: Option<usize>,
    calls: usize,
}

impl Read for Chunked<'_> {
    fn read(&mut self, buf: &mut [u8]) -> std::io::Result<usize> {
        let call = self.calls;
        self.calls += 1;
        if self.interrupt_at == Some(call) {
            return Err(std::io::Error::new(std::io::ErrorKind::Interrupted, "EINTR"));
        }
        let n = buf.len().min(self.chunk).min(self.data.len() - self.pos);
        if n == 0 && !buf.is_empty() {
            // end of input: a reader that keeps asking is looping without consuming anything
            self.calls += 1_000_000;
            if self.calls > 1_000_000_000 {
                panic!("the decoder asked the stream for more {} times after its end: it loops without consuming input", self.calls / 1_000_000);
            }
        }
        buf[..n].copy_from_slice(&self.data[self.pos..self.pos + n]);
        self.pos += n;
        Ok(n)
    }
}

/// decode through the io reader; returns (outcome, bytes taken from the underlying reader)
pub fn dec_io(bytes: &[u8], chunk: usize) -> (DecOut, usize) {
    dec_io_interrupted(bytes, chunk, None)
}

/// the same with one retryable `Interrupted` reported by the stream at the given read call
pub fn dec_io_interrupted(bytes: &[u8], chunk: usize, interrupt_at: Option<usize>) -> (DecOut, usize) {
    let r = std::panic::catch_unwind(|| {
        let mut src = Chunked { data: bytes, pos: 0, chunk, interrupt_at, calls: 0 };
        let out = {
            let reader = serde_amqp::read::IoReader::new(&mut src);
            let mut de = serde_amqp::de::Deserializer::new(reader);
            let v = Value::deserialize(&mut de);
            (v, de.verif_bytes_consumed())
        };
        (out, src.pos)
    });
    match r {
        Ok(((Ok(v), consumed), taken)) => (DecOut::Ok { value: show(&v), rest: bytes.len().checked_sub(consumed).unwrap_or(usize::MAX) }, taken),
        Ok(((Err(e), _), taken)) => (DecOut::Err(err_class(&e).to_string()), taken),
        Err(p) => (DecOut::Panic(p.downcast_ref::<String>().cloned().or_else(|| p.downcast_ref::<&str>().map(|s| s.to_string())).unwrap_or_default()), 0),
    }
}

fn model_dec_line(o: &DecOut) -> String {
    match o {
        DecOut::Ok { value, rest } => format!("OK {} {}", value, rest),
        DecOut::Err(k) => format!("ERR {}", k),
        DecOut::Panic(m) => format!("PANIC {}", m.replace(' ', "_")),
    }
}

fn hx(b: &[u8]) -> String {
    if b.is_empty() {
        "-".into()
    } else {
        hex(b)
    }
}

/// structure-aware corruptions of a valid encoding
fn corruptions(rng: &mut Rng, enc: &[u8], out: &mut Vec<Vec<u8>>) {
    // truncation at every offset (short encodings) or at sampled offsets
    if enc.len() <= 24 {
        for i in 0..enc.len() {
            out.push(enc[..i].to_vec());
        }
    } else {
        for _ in 0..6 {
            out.push(enc[..rng.below(enc.len() as u64) as usize].to_vec());
        }
    }
    // every byte that looks like a size/count field replaced by interesting values
    for i in 0..enc.len().min(40) {
        for val in [0u8, 1, 2, 3, 0x7f, 0x80, 0xfe, 0xff] {
            if rng.chance(1, 6) {
                let mut m = enc.to_vec();
                m[i] = val;
                out.push(m);
            }
        }
    }
    // constructor replaced by another constructor
    for _ in 0..4 {
        let mut m = enc.to_vec();
        if !m.is_empty() {
            let i = rng.below(m.len() as u64) as usize;
            m[i] = *rng.pick(&[0x00u8, 0x40, 0x41, 0x45, 0x56, 0xa1, 0xb1, 0xa3, 0xc0, 0xc1, 0xd0, 0xd1, 0xe0, 0xf0, 0x53, 0x80, 0x98, 0x99, 0x3f]);
            out.push(m);
        }
    }
    // 32-bit size fields set to extreme values
    for i in 0..enc.len().saturating_sub(4).min(12) {
        if rng.chance(1, 3) {
            let mut m = enc.to_vec();
            let pat: [u8; 4] = *rng.pick(&[[0xffu8, 0xff, 0xff, 0xff], [0, 0, 0, 0], [0, 1, 0, 0], [0x7f, 0xff, 0xff, 0xff]]);
            m[i + 1..i + 5].copy_from_slice(&pat);
            out.push(m);
        }
    }
}

fn hand_written_hostile() -> Vec<Vec<u8>> {
    let mut v: Vec<Vec<u8>> = vec![
        vec![0xc0, 0x00, 0x00],
        vec![0xc1, 0x02, 0x01, 0x40],
        vec![0xe0, 0x01, 0x01, 0x40],
        vec![0xb0, 0xff, 0xff, 0xff, 0xff],
        vec![0xb1, 0xff, 0xff, 0xff, 0xff, 0x41],
        vec![0xd0, 0, 0, 0, 3, 0, 0, 0, 0],
        vec![0xd1, 0, 0, 0, 4, 0, 1, 0, 1],
        vec![0xf0, 0, 1, 0, 0, 0, 1, 0, 0, 0x40],
        vec![0xf0, 0, 0, 0, 4, 0xff, 0xff, 0xff, 0xff, 0x40],
        vec![0xe0, 0xff, 0xff, 0x41],
        vec![0xe0, 0x03, 0x02, 0xc0, 0x01, 0x00],
        vec![0xe0, 0x05, 0x01, 0xc1, 0x01, 0x00, 0x01, 0x00],
        vec![0x00],
        vec![0x00, 0x53],
        vec![0x00, 0x40, 0x40],
        vec![0x00, 0xa3, 0x01],
        vec![0x00, 0xb3, 0xff, 0xff, 0xff, 0xff],
        vec![0x73, 0x00, 0x00, 0xd8, 0x00],
        vec![0x73, 0x00, 0x11, 0x00, 0x00],
        vec![0xa1, 0x02, 0xc3, 0x28],
        vec![0xa3, 0x01, 0xff],
        vec![0x56, 0x02],
    ];
    // many arrays of zero-width elements in one input: 10 bytes each, 65536 elements each
    {
        let one: Vec<u8> = vec![0xf0, 0, 1, 0, 0, 0, 1, 0, 0, 0x40];
        for k in [2usize, 8] {
            let mut b = vec![0xd0];
            b.extend_from_slice(&((4 + one.len() * k) as u32).to_be_bytes());
            b.extend_from_slice(&(k as u32).to_be_bytes());
            for _ in 0..k {
                b.extend_from_slice(&one);
            }
            v.push(b);
        }
    }
    // nesting: list8 headers k deep, for k around the depth limit and far beyond
    for k in [1usize, 10, 127, 128, 129, 130, 1000, 20000] {
        let mut b = vec![];
        for i in 0..k {
            let remaining = (k - i - 1) * 3 + 1;
            if remaining + 1 <= 255 {
                b.extend_from_slice(&[0xc0, (remaining + 1) as u8, 1]);
            } else {
                b.push(0xd0);
                b.extend_from_slice(&((remaining + 4) as u32).to_be_bytes());
                b.extend_from_slice(&1u32.to_be_bytes());
            }
        }
        b.push(0x40);
        v.push(b);
    }
    // siblings do not buy depth: a list of `pad` empty lists followed by a chain of `d` nested lists
    for (pad, d) in [(1usize, 126usize), (1, 127), (1, 128), (5, 128), (5, 130), (40, 128), (40, 160), (200, 127)] {
        let chain = |k: usize| -> Vec<u8> {
            let mut b = vec![];
            for i in 0..k {
                let remaining = (k - i - 1) * 9 + 1;
                b.push(0xd0);
                b.extend_from_slice(&((remaining + 4) as u32).to_be_bytes());
                b.extend_from_slice(&1u32.to_be_bytes());
            }
            b.push(0x40);
            b
        };
        let c = chain(d);
        let mut b = vec![0xd0];
        b.extend_from_slice(&((4 + pad + c.len()) as u32).to_be_bytes());
        b.extend_from_slice(&((pad + 1) as u32).to_be_bytes());
        b.extend(std::iter::repeat(0x45).take(pad));
        b.extend_from_slice(&c);
        v.push(b);
    }
    // described nesting
    for k in [5usize, 127, 128, 129, 5000] {
        let mut b = vec![];
        for _ in 0..k {
            b.extend_from_slice(&[0x00, 0x53, 0x01]);
        }
        b.push(0x40);
        v.push(b);
    }
    v
}

pub fn main(opts: &Opts) {
    let prop = if opts.property.is_empty() { "C03".to_string() } else { opts.property.clone() };
    let mut report = Report::new(
        &prop,
        "type-directed random AMQP values over all 25 constructors (width boundaries 0/1/253..257, integer boundaries, 1-4 byte UTF-8, \
         nesting to depth 4, maps keyed by every kind, homogeneous arrays of every simple kind incl. empty, plus arrays of unsupported \
         element kinds) through to_vec / serialized_size / from_slice / from_reader(chunked); byte strings: exhaustive short strings, \
         structure-aware corruptions of valid encodings, hand-written hostile inputs, deep nesting; non-trivial = compound value or \
         corrupted encoding; distinct by hash of the text form",
    );
    if let Some(path) = &opts.replay {
        let j: J = serde_json::from_str(&std::fs::read_to_string(path).expect("read replay")).expect("json");
        if let Some(vt) = j.get("value").and_then(|x| x.as_str()) {
            let v = parse(vt).expect("value text");
            let enc = serde_amqp::to_vec(&v);
            println!("value   {}", vt);
            match &enc {
                Ok(b) => {
                    println!("encoded {}", hx(b));
                    println!("size    {:?}", serde_amqp::serialized_size(&v).ok());
                    println!("decoded {:?}", dec_slice(b));
                    let ok = matches!(dec_slice(b), DecOut::Ok { value, rest: 0 } if value == *vt) && serde_amqp::serialized_size(&v).ok() == Some(b.len());
                    std::process::exit(if ok { 0 } else { 1 });
                }
                Err(e) => {
                    println!("encode error {:?}", e);
                    std::process::exit(1);
                }
            }
        }
        if let Some(h) = j.get("bytes").and_then(|x| x.as_str()) {
            let bytes = if h == "-" { vec![] } else { unhex(h).expect("hex") };
            let (out, alloc, largest) = tracked(|| dec_slice(&bytes));
            println!("bytes   {} ({} bytes)", hx(&bytes[..bytes.len().min(64)]), bytes.len());
            println!("decoded {:?}; allocated {} bytes (largest {})", out, alloc, largest);
            let bad = matches!(out, DecOut::Panic(_)) || largest > 64 * bytes.len() as u64 + 6_000_000 || alloc > 4096 * (bytes.len() as u64 + 16) + 12_000_000;
            std::process::exit(if bad { 1 } else { 0 });
        }
        std::process::exit(2);
    }

    let n_values: u64 = if opts.thorough() { 60_000 } else { 5_000 };
    let mut rng = Rng::new(opts.seed);
    let mut lines: Vec<String> = vec![];
    let mut expect: Vec<String> = vec![];
    let mut ctx: Vec<J> = vec![];
    let mut byte_strings: Vec<Vec<u8>> = vec![];

    // corpus of values
    let mut corpus_values: Vec<Value> = vec![];
    if let Ok(rd) = std::fs::read_dir("/verif/corpus/codec") {
        let mut paths: Vec<_> = rd.filter_map(|e| e.ok()).map(|e| e.path()).collect();
        paths.sort();
        for p in paths {
            if let Ok(t) = std::fs::read_to_string(&p) {
                if let Ok(j) = serde_json::from_str::<J>(&t) {
                    if let Some(v) = j.get("value").and_then(|x| x.as_str()).and_then(parse) {
                        corpus_values.push(v);
                    }
                    if let Some(b) = j.get("bytes").and_then(|x| x.as_str()).and_then(|h| if h == "-" { Some(vec![]) } else { unhex(h) }) {
                        byte_strings.push(b);
                    }
                }
            }
        }
    }
    report.count_n("corpus_values", corpus_values.len() as u64);

    long_bodies(&mut report, &prop);
    many_elements(&mut report, &prop);
    deep_nesting_probes(&mut report, &prop);

    for k in 0..(n_values + corpus_values.len() as u64) {
        let v = if (k as usize) < corpus_values.len() { corpus_values[k as usize].clone() } else { gen_value(&mut rng, 4, true) };
        let text = show(&v);
        let oos = out_of_scope(&v);
        report.evaluations += 1;
        report.count(match &v {
            Value::List(_) => "top_list",
            Value::Map(_) => "top_map",
            Value::Array(_) => "top_array",
            Value::Described(_) => "top_described",
            Value::Null | Value::Bool(_) => "top_null_bool",
            Value::Binary(_) | Value::String(_) | Value::Symbol(_) => "top_variable_width",
            _ => "top_fixed_width",
        });
        if oos.is_some() {
            report.count("values_with_unsupported_array");
        }
        if matches!(v, Value::List(_) | Value::Map(_) | Value::Array(_) | Value::Described(_)) {
            report.nontrivial_case(fnv(&text));
        }
        if k % (n_values / 4).max(1) == 0 && text.len() < 400 {
            report.sample(json!({"value": text}));
        }
        let enc = match std::panic::catch_unwind(|| serde_amqp::to_vec(&v)) {
            Ok(Ok(b)) => b,
            Ok(Err(e)) => {
                report.finding(Finding { kind: "violation", key: format!("encode-error:{}", oos.clone().unwrap_or_else(|| "in-scope".into())), description: format!("to_vec failed: {:?}", e), replay: json!({"property": prop, "module": "codec", "value": text}) });
                continue;
            }
            Err(_) => {
                report.finding(Finding { kind: "violation", key: format!("encode-panic:{}", oos.clone().unwrap_or_else(|| "in-scope".into())), description: "to_vec panicked".into(), replay: json!({"property": prop, "module": "codec", "value": text}) });
                continue;
            }
        };
        let class = oos.clone().unwrap_or_else(|| "in-scope".into());
        if class == "array-of-mixed-types" {
            // an AMQP array is homogeneous: this is not a value of the AMQP type system
            report.count("values_skipped_mixed_array");
            continue;
        }
        // C03: round trip
        let back = dec_slice(&enc);
        match &back {
            DecOut::Ok { value, rest: 0 } if *value == text => {}
            other => report.finding(Finding {
                kind: "violation",
                key: format!("roundtrip:{}", class),
                description: format!("decode(encode(x)) != x: {:?}", match other { DecOut::Ok { value, rest } => format!("decoded to {} with {} bytes left", &value[..value.len().min(120)], rest), o => format!("{:?}", o) }),
                replay: json!({"property": prop, "module": "codec", "value": text, "encoded": hx(&enc)}),
            }),
        }
        // C20: size, io reader
        match serde_amqp::serialized_size(&v) {
            Ok(n) if n == enc.len() => {}
            other => report.finding(Finding { kind: "violation", key: format!("size:{}", class), description: format!("serialized_size = {:?}, encoding has {} bytes", other.ok(), enc.len()), replay: json!({"property": prop, "module": "codec", "value": text}) }),
        }
        // C20: the untyped value tree of a value is the value itself, in both directions
        if oos.is_none() {
            report.count("to_value_from_value");
            match std::panic::catch_unwind(|| serde_amqp::to_value(&v)) {
                Ok(Ok(w)) if w == v => {}
                Ok(r) => report.finding(Finding { kind: "violation", key: "to-value:in-scope".into(), description: format!("to_value({}) = {}", &text[..text.len().min(200)], match r { Ok(w) => { let t = show(&w); t[..t.len().min(200)].to_string() } Err(e) => format!("{:?}", e) }), replay: json!({"property": prop, "module": "codec", "value": text, "to_value": true}) }),
                Err(_) => report.finding(Finding { kind: "violation", key: "to-value:in-scope".into(), description: format!("to_value({}) panicked", &text[..text.len().min(200)]), replay: json!({"property": prop, "module": "codec", "value": text, "to_value": true}) }),
            }
            match std::panic::catch_unwind(|| serde_amqp::from_value::<Value>(v.clone())) {
                Ok(Ok(w)) if w == v => {}
                Ok(r) => report.finding(Finding { kind: "violation", key: if contains_described(&v) && r.is_err() { "from-value:described-composite-refused".into() } else { "from-value:in-scope".into() }, description: format!("from_value::<Value>({}) = {}", &text[..text.len().min(200)], match r { Ok(w) => { let t = show(&w); t[..t.len().min(200)].to_string() } Err(e) => format!("{:?}", e) }), replay: json!({"property": prop, "module": "codec", "value": text, "from_value": true}) }),
                Err(_) => report.finding(Finding { kind: "violation", key: "from-value:in-scope".into(), description: format!("from_value::<Value>({}) panicked", &text[..text.len().min(200)]), replay: json!({"property": prop, "module": "codec", "value": text, "from_value": true}) }),
            }
        }
        if k % 5 == 0 {
            let mut tail = enc.clone();
            let extra: Vec<u8> = (0..rng.below(6)).map(|_| rng.next() as u8).collect();
            tail.extend_from_slice(&extra);
            let s = dec_slice(&tail);
            for chunk in [1usize, 2, 3, 7, 64, 1 << 20] {
                let (o, taken) = dec_io(&tail, chunk);
                if o != s {
                    report.finding(Finding { kind: "violation", key: format!("io-vs-slice:{}", class), description: format!("slice reader: {:?}; io reader (chunks of {}): {:?}", s, chunk, o), replay: json!({"property": prop, "module": "codec", "value": text, "bytes": hx(&tail)}) });
                }
                if let DecOut::Ok { rest, .. } = &o {
                    if *rest == usize::MAX || taken != tail.len() - rest {
                        report.finding(Finding { kind: "violation", key: format!("io-overread:{}", class), description: format!("io reader took {} bytes from the stream for a value of {} bytes (chunk {})", taken, tail.len().wrapping_sub(*rest), chunk), replay: json!({"property": prop, "module": "codec", "value": text, "bytes": hx(&tail)}) });
                    }
                }
            }
            // LazyValue: the bytes of exactly this value, whatever follows (in-scope values whose value part is not itself described)
            if oos.is_none() && lazy_in_scope(&v) {
                let (l, e) = lazy_checks(&enc, &tail, report_ptr(&mut report), &prop, &text);
                if tail.len() <= 4096 {
                    lines.push(l);
                    expect.push(e);
                    ctx.push(json!({"value": text, "lazy": true}));
                }
            }
            // a stream may report a retryable interruption at any read call: the result must not change
            if tail.len() <= 48 {
                for chunk in [1usize, 5] {
                    for at in 0..(tail.len() + 3) {
                        let (o, _) = dec_io_interrupted(&tail, chunk, Some(at));
                        report.count("io_interrupted");
                        if o != s {
                            report.finding(Finding { kind: "violation", key: format!("io-vs-slice:interrupted-read:{}", class), description: format!("slice reader: {:?}; io reader (chunks of {}, read call {} interrupted once): {:?}", s, chunk, at, o), replay: json!({"property": prop, "module": "codec", "value": text, "bytes": hx(&tail), "interrupt_at": at}) });
                            break;
                        }
                    }
                }
            }
        }
        // model lines
        lines.push(format!("V enc {}", text));
        expect.push(hx(&enc));
        ctx.push(json!({"value": text}));
        lines.push(format!("V size {}", text));
        expect.push(enc.len().to_string());
        ctx.push(json!({"value": text}));
        lines.push(format!("V dec {}", hx(&enc)));
        expect.push(model_dec_line(&back));
        ctx.push(json!({"bytes": hx(&enc), "value": text}));
        if k % 3 == 0 && enc.len() < 600 {
            corruptions(&mut rng, &enc, &mut byte_strings);
        }
    }

    // byte strings: exhaustive short strings (constructor-led), corruptions, hostile
    let limit2 = if opts.thorough() { 256 } else { 32 };
    for a in 0..=255u16 {
        byte_strings.push(vec![a as u8]);
        for b in 0..limit2 {
            let b = if opts.thorough() { b as u8 } else { (b * 8 + (a % 8)) as u8 };
            byte_strings.push(vec![a as u8, b]);
            for c in [0u8, 1, 2, 0x40, 0x41, 0xa1, 0xc0, 0xe0, 0xff] {
                byte_strings.push(vec![a as u8, b, c]);
            }
        }
    }
    byte_strings.extend(hand_written_hostile());
    let mut seen = std::collections::HashSet::new();
    for bs in &byte_strings {
        if !seen.insert(fnv(&hex(bs))) {
            continue;
        }
        report.evaluations += 1;
        report.nontrivial_case(fnv(&hex(bs)) ^ 0x5555);
        let (out, alloc, largest) = tracked(|| dec_slice(bs));
        report.count(match &out {
            DecOut::Ok { .. } => "bytes_decode_ok",
            DecOut::Err(k) => match k.as_str() {
                "eof" => "bytes_err_eof",
                "badcode" => "bytes_err_badcode",
                "badvalue" => "bytes_err_badvalue",
                "badlen" => "bytes_err_badlen",
                "utf8" => "bytes_err_utf8",
                "depth" => "bytes_err_depth",
                _ => "bytes_err_other",
            },
            DecOut::Panic(_) => "bytes_panic",
        });
        let short = |b: &[u8]| if b.len() > 48 { format!("{}..({} bytes)", hex(&b[..48]), b.len()) } else { hx(b) };
        if let DecOut::Panic(m) = &out {
            report.finding(Finding { kind: "violation", key: "decode-panic".into(), description: format!("decoding {} panicked: {}", short(bs), m), replay: json!({"property": prop, "module": "codec", "bytes": hx(bs)}) });
        }
        // allocation in proportion to the input: linear in the input length plus a constant
        // (the read chunk and the budget of MAX_ARRAY_COUNT zero-width array elements,
        // 65536 * size_of::<Value>() ~ 4.7 MB, which the decoder grants once per input)
        if largest > 64 * bs.len() as u64 + 6_000_000 || alloc > 4096 * (bs.len() as u64 + 16) + 12_000_000 {
            report.finding(Finding { kind: "violation", key: "decode-allocation".into(), description: format!("decoding {} allocated {} bytes in total, {} in one piece", short(bs), alloc, largest), replay: json!({"property": prop, "module": "codec", "bytes": hx(bs)}) });
        }
        // C04: a successful decode re-encodes and decodes to the same value
        if let DecOut::Ok { value, .. } = &out {
            if let Some(v) = parse(value) {
                if out_of_scope(&v).is_none() {
                    if let Ok(Ok(enc2)) = std::panic::catch_unwind(|| serde_amqp::to_vec(&v)) {
                        match dec_slice(&enc2) {
                            DecOut::Ok { value: v2, rest: 0 } if v2 == *value => {}
                            other => report.finding(Finding { kind: "violation", key: "redecode-unstable".into(), description: format!("{} decodes to {}, whose encoding decodes to {:?}", short(bs), &value[..value.len().min(100)], other), replay: json!({"property": prop, "module": "codec", "bytes": hx(bs)}) }),
                        }
                    }
                }
            }
        }
        // io reader agrees (every chunk size for short inputs)
        if bs.len() <= 12 {
            for chunk in 1..=bs.len().max(1) {
                let (o, _) = dec_io(bs, chunk);
                if let DecOut::Panic(m) = &o {
                    report.finding(Finding { kind: "violation", key: "decode-panic:io-reader".into(), description: format!("decoding {} from a stream (chunks of {}) panicked or looped: {}", short(bs), chunk, m), replay: json!({"property": prop, "module": "codec", "bytes": hx(bs)}) });
                }
                if o != out {
                    report.finding(Finding { kind: "violation", key: "io-vs-slice:bytes".into(), description: format!("{}: slice reader {:?}, io reader (chunks of {}) {:?}", short(bs), out, chunk, o), replay: json!({"property": prop, "module": "codec", "bytes": hx(bs)}) });
                    break;
                }
            }
        }
        if bs.len() <= 4096 {
            lines.push(format!("V dec {}", hx(bs)));
            expect.push(model_dec_line(&out));
            ctx.push(json!({"bytes": hx(bs)}));
            // the byte scanner behind LazyValue on the same bytes, slice and stream
            let lz = std::panic::catch_unwind(|| serde_amqp::from_slice::<serde_amqp::lazy::LazyValue>(bs));
            let lzs = match &lz {
                Ok(Ok(l)) => format!("OK {} {}", l.as_slice().len(), bs.len() - l.as_slice().len().min(bs.len())),
                Ok(Err(_)) => "ERR".to_string(),
                Err(_) => "PANIC".to_string(),
            };
            if let Ok(Ok(l)) = &lz {
                if !bs.starts_with(l.as_slice()) {
                    report.finding(Finding { kind: "violation", key: "lazy:not-a-prefix".into(), description: format!("LazyValue from {} holds {}, which is not a prefix of the input", short(bs), short(l.as_slice())), replay: json!({"property": prop, "module": "codec", "bytes": hx(bs), "lazy": true}) });
                }
            }
            if lzs == "PANIC" {
                report.finding(Finding { kind: "violation", key: "decode-panic:LazyValue".into(), description: format!("from_slice::<LazyValue>({}) panicked", short(bs)), replay: json!({"property": prop, "module": "codec", "bytes": hx(bs), "lazy": true}) });
            }
            if bs.len() <= 64 {
                let src = Chunked { data: bs, pos: 0, chunk: 3, interrupt_at: None, calls: 0 };
                let io = match std::panic::catch_unwind(std::panic::AssertUnwindSafe(|| serde_amqp::from_reader::<serde_amqp::lazy::LazyValue>(src))) {
                    Ok(Ok(l)) => format!("OK {} {}", l.as_slice().len(), bs.len() - l.as_slice().len().min(bs.len())),
                    Ok(Err(_)) => "ERR".to_string(),
                    Err(p) => format!("PANIC {}", p.downcast_ref::<String>().cloned().unwrap_or_default()),
                };
                if io != lzs {
                    report.finding(Finding { kind: "violation", key: "lazy:io-vs-slice".into(), description: format!("{} as a LazyValue: slice {}, stream {}", short(bs), lzs, io), replay: json!({"property": prop, "module": "codec", "bytes": hx(bs), "lazy": true}) });
                }
            }
            report.count(if lzs.starts_with("OK") { "lazy_bytes_ok" } else { "lazy_bytes_err" });
            lines.push(format!("V lazy {}", if bs.is_empty() { "-".to_string() } else { hx(bs) }));
            expect.push(lzs);
            ctx.push(json!({"bytes": hx(bs), "lazy": true}));
        }
    }
    report.count_n("byte_strings", seen.len() as u64);

    // C04 — "as any public type": the same byte strings, plus corruptions of valid encodings of protocol
    // items, decoded as the typed items of fe2o3-amqp-types (composite decoding goes through its own
    // access types in the deserializer)
    if prop == "C04" || prop.is_empty() {
        typed_decoding(&mut rng, &byte_strings, &mut report, &prop, opts.thorough());
    }

    if driver_available() {
        match run_driver(&lines) {
            Ok(model) => {
                report.model_used = true;
                report.model_lines = model.len() as u64;
                let mut bad = 0u64;
                for i in 0..lines.len() {
                    // the model does not say *which* error for inputs rejected by both
                    let same = model[i] == expect[i] || (model[i].starts_with("ERR") && expect[i].starts_with("ERR"));
                    if !same {
                        if bad < 3 {
                            report.finding(Finding {
                                kind: "disagreement",
                                key: format!("model-vs-implementation:{}", lines[i].split(' ').nth(1).unwrap_or("")),
                                description: format!("{} -> implementation `{}`, model `{}`", &lines[i][..lines[i].len().min(160)], &expect[i][..expect[i].len().min(160)], &model[i][..model[i].len().min(160)]),
                                replay: json!({"property": prop, "module": "codec", "line": lines[i], "implementation": expect[i], "model": model[i], "input": ctx[i]}),
                            });
                        }
                        bad += 1;
                    }
                }
                report.count_n("lines_disagreeing_with_model", bad);
                let exact = (0..lines.len()).filter(|&i| model[i] == expect[i]).count();
                report.count_n("lines_identical_including_error_kind", exact as u64);
            }
            Err(e) => report.notes.push(format!("model driver failed: {}", e)),
        }
    } else {
        report.notes.push("model driver not available: correspondence skipped".into());
    }
    // one module serves several properties: keep the findings that concern the one being checked
    let relevant = |key: &str| -> bool {
        let c03 = key.starts_with("roundtrip:") || key.starts_with("encode-");
        let c20 = key.starts_with("size:") || key.starts_with("io-") || key.starts_with("lazy:") || key.starts_with("to-value:") || key.starts_with("from-value:");
        let c04 = key.starts_with("decode-") || key.starts_with("redecode-");
        match prop.as_str() {
            "C03" => c03,
            "C20" => c20,
            "C04" => c04,
            "C05" => c03,
            _ => true,
        }
    };
    report.findings.retain(|f| f.kind != "violation" || relevant(&f.key));
    report.write(&opts.report);
    println!("codec: {} cases, {} non-trivial, {} findings", report.evaluations, report.nontrivial.len(), report.findings.len());
}

/// the child side of `deep_nesting_probes`: decodes the input in this process and exits 0 whatever the result is
pub fn nesting_probe_child(kind: &str, n: usize) {
    use serde_amqp::lazy::LazyValue;
    let mut input: Vec<u8> = vec![];
    match kind {
        // a described value whose value is a described value whose value is …, ended by a null
        "described" => {
            for _ in 0..n {
                input.extend_from_slice(&[0x00, 0x44]);
            }
            input.push(0x40);
        }
        // a list32 holding n empty lists (list0) and then a chain of n nested list32: siblings must
        // not buy depth
        "padded" => {
            let chain_len = |k: usize| k * 9 + 1;
            input.push(0xd0);
            input.extend_from_slice(&((4 + n + chain_len(n)) as u32).to_be_bytes());
            input.extend_from_slice(&((n + 1) as u32).to_be_bytes());
            for _ in 0..n {
                input.push(0x45);
            }
            for k in 0..n {
                input.push(0xd0);
                input.extend_from_slice(&((4 + chain_len(n - k - 1)) as u32).to_be_bytes());
                input.extend_from_slice(&1u32.to_be_bytes());
            }
            input.push(0x40);
        }
        // the same with the descriptor nested instead of the value
        _ => {
            for _ in 0..n {
                input.push(0x00);
            }
            input.push(0x44);
            for _ in 0..n {
                input.push(0x40);
            }
        }
    }
    let a = serde_amqp::from_slice::<LazyValue>(&input).is_ok();
    let b = serde_amqp::from_reader::<LazyValue>(std::io::Cursor::new(input.clone())).is_ok();
    let c = {
        let mut rd = serde_amqp::read::SliceReader::new(&input);
        LazyValue::from_reader(&mut rd).is_ok()
    };
    let d = serde_amqp::from_slice::<Value>(&input).is_ok();
    println!("nesting probe {} x {}: lazy slice {} / stream {} / from_reader {} / value {}", kind, n, a, b, c, d);
    std::process::exit(0);
}

/// inputs nested far deeper than any stack allows are decoded in a child process: an overflowing stack
/// kills the process (it cannot be caught), so the verdict is the child's exit status
pub fn deep_nesting_probes(report: &mut Report, prop: &str) {
    let exe = match std::env::current_exe() {
        Ok(e) => e,
        Err(_) => return,
    };
    for kind in ["described", "descriptor", "padded"] {
        for n in [20_000usize, 600_000] {
            if kind == "padded" && n > 60_000 {
                // one list of n + 1 entries: the count limit of the decoder refuses it before any descent
                continue;
            }
            report.evaluations += 1;
            report.count("deep_nesting_probes");
            let out = std::process::Command::new(&exe).arg("nesting-probe").arg(kind).arg(n.to_string()).output();
            match out {
                Ok(o) if o.status.success() => {}
                Ok(o) => {
                    let err = String::from_utf8_lossy(&o.stderr);
                    report.finding(Finding { kind: "violation", key: if kind == "padded" { "decode-stack-overflow:siblings-buy-depth".into() } else { "decode-stack-overflow:LazyValue".into() }, description: format!("decoding {} levels of nested {} (2 bytes per level; `padded`: as many empty lists, then that many nested lists) as a LazyValue / Value ended the process: {:?}: {}", n, if kind == "described" { "described values" } else { "descriptors" }, o.status, err.lines().last().unwrap_or("")), replay: json!({"property": prop, "module": "codec", "nesting_probe": kind, "levels": n}) });
                    break;
                }
                Err(e) => report.notes.push(format!("nesting probe could not be started: {}", e)),
            }
        }
    }
}

fn contains_described(v: &Value) -> bool {
    match v {
        Value::Described(_) => true,
        Value::List(l) => l.iter().any(contains_described),
        Value::Array(a) => a.0.iter().any(contains_described),
        Value::Map(m) => m.iter().any(|(k, x)| contains_described(k) || contains_described(x)),
        _ => false,
    }
}

fn report_ptr(r: &mut Report) -> &mut Report {
    r
}

/// `LazyValue` takes primitives, compounds and a described value whose descriptor and value are not described
fn lazy_in_scope(v: &Value) -> bool {
    match v {
        Value::Described(d) => !matches!(d.value, Value::Described(_)),
        _ => true,
    }
}

/// C20 / C03 for `LazyValue`: from a slice, through `LazyValue::from_reader` and from a stream it holds
/// exactly the bytes of the first value, and writes them back unchanged
fn lazy_checks(enc: &[u8], with_tail: &[u8], report: &mut Report, prop: &str, text: &str) -> (String, String) {
    use serde_amqp::lazy::LazyValue;
    report.count("lazy_values");
    let replay = json!({"property": prop, "module": "codec", "value": text, "bytes": hx(with_tail), "lazy": true});
    let short = |b: &[u8]| if b.len() > 40 { format!("{}..({} bytes)", hx(&b[..40]), b.len()) } else { hx(b) };
    match std::panic::catch_unwind(|| serde_amqp::from_slice::<LazyValue>(with_tail)) {
        Ok(Ok(lv)) => {
            if lv.as_slice() != enc {
                report.finding(Finding { kind: "violation", key: "lazy:wrong-bytes".into(), description: format!("LazyValue from {} holds {} instead of the {} bytes of the first value", short(with_tail), short(lv.as_slice()), enc.len()), replay: replay.clone() });
            }
            match serde_amqp::to_vec(&lv) {
                Ok(b) if b == enc => {}
                r => report.finding(Finding { kind: "violation", key: "lazy:roundtrip".into(), description: format!("a LazyValue holding {} is written as {:?}", short(enc), r.map(|b| short(&b))), replay: replay.clone() }),
            }
        }
        Ok(Err(e)) => report.finding(Finding { kind: "violation", key: "lazy:refused".into(), description: format!("from_slice::<LazyValue> refuses the encoding {} of {}: {:?}", short(enc), &text[..text.len().min(80)], e), replay: replay.clone() }),
        Err(_) => report.finding(Finding { kind: "violation", key: "decode-panic:LazyValue".into(), description: format!("from_slice::<LazyValue>({}) panicked", short(with_tail)), replay: replay.clone() }),
    }
    {
        let mut rd = serde_amqp::read::SliceReader::new(with_tail);
        match LazyValue::from_reader(&mut rd) {
            Ok(lv) if lv.as_slice() == enc => {}
            r => report.finding(Finding { kind: "violation", key: "lazy:from-reader".into(), description: format!("LazyValue::from_reader over a slice reader gives {:?} for {}", r.map(|l| short(l.as_slice())), short(with_tail)), replay: replay.clone() }),
        }
    }
    let line = (format!("V lazy {}", hx(with_tail)), format!("OK {} {}", enc.len(), with_tail.len() - enc.len()));
    for chunk in [1usize, 7, 1 << 16] {
        let src = Chunked { data: with_tail, pos: 0, chunk, interrupt_at: None, calls: 0 };
        match std::panic::catch_unwind(std::panic::AssertUnwindSafe(|| serde_amqp::from_reader::<LazyValue>(src))).unwrap_or_else(|_| Err(serde::de::Error::custom("the stream decoder panicked / looped at the end of the input"))) {
            Ok(lv) if lv.as_slice() == enc => {}
            r => {
                report.finding(Finding { kind: "violation", key: "lazy:io-vs-slice".into(), description: format!("from_reader::<LazyValue> (chunks of {}) gives {:?} where the slice gives the {} bytes of the value", chunk, r.map(|l| short(l.as_slice())), enc.len()), replay: replay.clone() });
                break;
            }
        }
    }
    line
}

/// variable-width bodies around the 64 KiB pieces in which the readers take long bodies: round trip,
/// size and slice = stream on the implementation (the model covers these lengths by the theorems;
/// lines of this size are not sent to the driver)
fn long_bodies(report: &mut Report, prop: &str) {
    for len in [65535usize, 65536, 65537, 70001, 131072, 131073, 196609] {
        let bytes: Vec<u8> = (0..len).map(|i| (i * 31 + len) as u8).collect();
        let text: String = (0..len).map(|i| (b'a' + ((i * 7 + len) % 26) as u8) as char).collect();
        let values = [
            Value::Binary(serde_bytes::ByteBuf::from(bytes.clone())),
            Value::String(text.clone()),
            Value::Symbol(Symbol::from(text.clone())),
            Value::List(vec![Value::Uint(7), Value::Binary(serde_bytes::ByteBuf::from(bytes.clone())), Value::String("after".into())]),
        ];
        for v in values.iter() {
            report.evaluations += 1;
            report.count("long_bodies");
            let what = match v {
                Value::Binary(_) => "binary",
                Value::String(_) => "string",
                Value::Symbol(_) => "symbol",
                _ => "list-holding-a-binary",
            };
            let replay = json!({"property": prop, "module": "codec", "long_body": what, "length": len});
            let enc = match serde_amqp::to_vec(v) {
                Ok(b) => b,
                Err(e) => {
                    report.finding(Finding { kind: "violation", key: "encode-error:in-scope".into(), description: format!("to_vec of a {} of {} bytes failed: {:?}", what, len, e), replay });
                    continue;
                }
            };
            match serde_amqp::from_slice::<Value>(&enc) {
                Ok(w) if w == *v => {}
                r => report.finding(Finding { kind: "violation", key: "roundtrip:in-scope".into(), description: format!("a {} of {} bytes does not come back from its encoding: {}", what, len, match r { Ok(_) => "a different value".to_string(), Err(e) => format!("{:?}", e) }), replay: replay.clone() }),
            }
            match serde_amqp::serialized_size(v) {
                Ok(n) if n == enc.len() => {}
                r => report.finding(Finding { kind: "violation", key: "size:in-scope".into(), description: format!("serialized_size of a {} of {} bytes = {:?}, the encoding has {} bytes", what, len, r.ok(), enc.len()), replay: replay.clone() }),
            }
            for chunk in [1usize << 20, 65536, 4099] {
                let src = Chunked { data: &enc, pos: 0, chunk, interrupt_at: None, calls: 0 };
                match std::panic::catch_unwind(std::panic::AssertUnwindSafe(|| serde_amqp::from_reader::<Value>(src))).unwrap_or_else(|_| Err(serde::de::Error::custom("the stream decoder panicked / looped at the end of the input"))) {
                    Ok(w) if w == *v => {}
                    r => {
                        report.finding(Finding { kind: "violation", key: "io-vs-slice:in-scope".into(), description: format!("from_reader (chunks of {}) of a {} of {} bytes: {}", chunk, what, len, match r { Ok(_) => "a different value".to_string(), Err(e) => format!("{:?}", e) }), replay: replay.clone() });
                        break;
                    }
                }
            }
        }
    }
}

/// values with many elements in several arrays: each array stays within MAX_ARRAY_COUNT, together they hold
/// more elements than the decoder's budget of body-less array elements — which is a budget of elements that
/// take no bytes, not of arrays in general.  Round trip and size on the implementation (lines of this size
/// are not sent to the driver; the model's budget is tied to the source by `source_zero_width_codes`).
fn many_elements(report: &mut Report, prop: &str) {
    use serde_amqp::primitives::{Array, Timestamp, Uuid};
    let ints = |n: usize| Value::Array(Array::from((0..n).map(|i| Value::Int(i as i32 * 7 - 3)).collect::<Vec<_>>()));
    let ubytes = |n: usize| Value::Array(Array::from((0..n).map(|i| Value::Ubyte(i as u8)).collect::<Vec<_>>()));
    let stamps = |n: usize| Value::Array(Array::from((0..n).map(|i| Value::Timestamp(Timestamp::from_milliseconds(i as i64 * 1000))).collect::<Vec<_>>()));
    let uuids = |n: usize| Value::Array(Array::from((0..n).map(|i| Value::Uuid(Uuid::from([i as u8; 16]))).collect::<Vec<_>>()));
    let bools = |n: usize| Value::Array(Array::from((0..n).map(|i| Value::Bool(i % 3 == 0)).collect::<Vec<_>>()));
    let values: Vec<(&str, Value)> = vec![
        ("two arrays of 40000 ints", Value::List(vec![ints(40000), ints(40000)])),
        ("arrays of 30000 ubytes, 30000 timestamps and 30000 uuids", Value::List(vec![ubytes(30000), stamps(30000), uuids(30000)])),
        ("an array of 65536 ints beside an array of 9 booleans", Value::List(vec![ints(65536), bools(9)])),
        ("five lists of 20000 small uints each", Value::List((0..5).map(|k| Value::List((0..20000u32).map(|i| Value::Uint(i % 200 + k)).collect())).collect())),
    ];
    for (what, v) in values.iter() {
        report.evaluations += 1;
        report.count("many_elements");
        let replay = json!({"property": prop, "module": "codec", "many_elements": what});
        let enc = match serde_amqp::to_vec(v) {
            Ok(b) => b,
            Err(e) => {
                report.finding(Finding { kind: "violation", key: "encode-error:in-scope".into(), description: format!("to_vec of {} failed: {:?}", what, e), replay });
                continue;
            }
        };
        match serde_amqp::from_slice::<Value>(&enc) {
            Ok(w) if w == *v => {}
            r => report.finding(Finding { kind: "violation", key: "roundtrip:in-scope".into(), description: format!("{} ({} bytes encoded) does not come back from its encoding: {}", what, enc.len(), match r { Ok(_) => "a different value".to_string(), Err(e) => format!("{:?}", e) }), replay: replay.clone() }),
        }
        match serde_amqp::serialized_size(v) {
            Ok(n) if n == enc.len() => {}
            r => report.finding(Finding { kind: "violation", key: "size:in-scope".into(), description: format!("serialized_size of {} = {:?}, the encoding has {} bytes", what, r.ok(), enc.len()), replay: replay.clone() }),
        }
        let src = Chunked { data: &enc, pos: 0, chunk: 65536, interrupt_at: None, calls: 0 };
        match std::panic::catch_unwind(std::panic::AssertUnwindSafe(|| serde_amqp::from_reader::<Value>(src))).unwrap_or_else(|_| Err(serde::de::Error::custom("the stream decoder panicked"))) {
            Ok(w) if w == *v => {}
            r => report.finding(Finding { kind: "violation", key: "io-vs-slice:in-scope".into(), description: format!("from_reader of {}: {}", what, match r { Ok(_) => "a different value".to_string(), Err(e) => format!("{:?}", e) }), replay: replay.clone() }),
        }
    }
}

fn typed_samples() -> Vec<Vec<u8>> {
    use fe2o3_amqp_types::definitions::{self, AmqpError, Handle, ReceiverSettleMode, Role};
    use fe2o3_amqp_types::messaging::{Accepted, DeliveryState, Modified, Rejected};
    use fe2o3_amqp_types::performatives::*;
    let err = || definitions::Error::new(AmqpError::InternalError, Some("x".to_string()), None);
    let mut out: Vec<Vec<u8>> = vec![];
    let mut push = |p: Performative| out.push(serde_amqp::to_vec(&p).expect("encode"));
    push(Performative::Open(Open { container_id: "c".into(), hostname: Some("h".into()), max_frame_size: 512.into(), channel_max: 7.into(), idle_time_out: Some(1000), outgoing_locales: None, incoming_locales: None, offered_capabilities: None, desired_capabilities: None, properties: None }));
    push(Performative::Begin(Begin { remote_channel: Some(1), next_outgoing_id: 2, incoming_window: 3, outgoing_window: 4, handle_max: Handle(5), offered_capabilities: None, desired_capabilities: None, properties: None }));
    push(Performative::Attach(Attach { name: "l".into(), handle: Handle(1), role: Role::Sender, snd_settle_mode: Default::default(), rcv_settle_mode: ReceiverSettleMode::Second, source: Some(Box::new(Default::default())), target: Some(Box::new(fe2o3_amqp_types::messaging::Target::default().into())), unsettled: None, incomplete_unsettled: false, initial_delivery_count: Some(0), max_message_size: Some(100), offered_capabilities: None, desired_capabilities: None, properties: None }));
    push(Performative::Flow(Flow { next_incoming_id: Some(1), incoming_window: 2, next_outgoing_id: 3, outgoing_window: 4, handle: Some(Handle(5)), delivery_count: Some(6), link_credit: Some(7), available: Some(8), drain: true, echo: true, properties: None }));
    push(Performative::Transfer(Transfer { handle: Handle(1), delivery_id: Some(2), delivery_tag: Some(vec![1u8, 2, 3].into()), message_format: Some(0), settled: Some(false), more: true, rcv_settle_mode: None, state: Some(DeliveryState::Accepted(Accepted {})), resume: false, aborted: false, batchable: true }));
    push(Performative::Disposition(Disposition { role: Role::Receiver, first: 1, last: Some(2), settled: true, state: Some(DeliveryState::Rejected(Rejected { error: Some(err()) })), batchable: false }));
    push(Performative::Disposition(Disposition { role: Role::Sender, first: 1, last: None, settled: false, state: Some(DeliveryState::Modified(Modified { delivery_failed: Some(true), undeliverable_here: None, message_annotations: None })), batchable: false }));
    push(Performative::Detach(Detach { handle: Handle(1), closed: true, error: Some(err()) }));
    push(Performative::End(End { error: Some(err()) }));
    push(Performative::Close(Close { error: None }));
    out
}

fn typed_decoding(rng: &mut Rng, byte_strings: &[Vec<u8>], report: &mut Report, prop: &str, thorough: bool) {
    use fe2o3_amqp_types::messaging::{message::__private::Deserializable, Body, DeliveryState, Message};
    use fe2o3_amqp_types::performatives::Performative;
    let mut inputs: Vec<Vec<u8>> = vec![];
    for enc in typed_samples() {
        inputs.push(enc.clone());
        for _ in 0..(if thorough { 12 } else { 3 }) {
            corruptions(rng, &enc, &mut inputs);
        }
        // every 32-bit window of the list header overwritten with the extreme patterns
        for i in 0..enc.len().saturating_sub(4) {
            for pat in [[0xffu8, 0xff, 0xff, 0xff], [0xff, 0xff, 0xff, 0xf0], [0x7f, 0xff, 0xff, 0xff]] {
                let mut m = enc.clone();
                m[i..i + 4].copy_from_slice(&pat);
                inputs.push(m);
            }
        }
        // the composite re-written with 32-bit list header and hostile size / count
        if enc.len() > 4 && enc[0] == 0x00 && enc[1] == 0x53 {
            for (size, count) in [(0xffff_fff0u32, 0xffff_ffffu32), (8, 0xffff_ffff), (0xffff_ffff, 1), (4, 0)] {
                let mut m = vec![0x00, 0x53, enc[2], 0xd0];
                m.extend_from_slice(&size.to_be_bytes());
                m.extend_from_slice(&count.to_be_bytes());
                m.extend_from_slice(&enc[enc.len().min(5)..]);
                inputs.push(m);
            }
        }
    }
    let stride = if thorough { 1 } else { 7 };
    inputs.extend(byte_strings.iter().step_by(stride).filter(|b| b.len() <= 64).cloned());
    let mut seen = std::collections::HashSet::new();
    let mut n = 0u64;
    // panics are caught and reported as findings; the default hook's backtrace would only add noise (and allocations)
    let prev_hook = std::panic::take_hook();
    std::panic::set_hook(Box::new(|_| {}));
    for bs in &inputs {
        if !seen.insert(fnv(&hex(bs))) {
            continue;
        }
        n += 1;
        report.evaluations += 1;
        let targets: [(&str, Box<dyn Fn(&[u8]) -> bool>); 4] = [
            ("LazyValue", Box::new(|b: &[u8]| serde_amqp::from_slice::<serde_amqp::lazy::LazyValue>(b).is_ok())),
            ("Performative", Box::new(|b: &[u8]| serde_amqp::from_slice::<Performative>(b).is_ok())),
            ("DeliveryState", Box::new(|b: &[u8]| serde_amqp::from_slice::<DeliveryState>(b).is_ok())),
            ("Message", Box::new(|b: &[u8]| serde_amqp::from_slice::<Deserializable<Message<Body<serde_amqp::Value>>>>(b).is_ok())),
        ];
        for (name, f) in targets.iter() {
            let (r, alloc, largest) = tracked(|| std::panic::catch_unwind(std::panic::AssertUnwindSafe(|| f(bs))));
            let short = if bs.len() > 48 { format!("{}..({} bytes)", hex(&bs[..48]), bs.len()) } else { hex(bs) };
            match r {
                Ok(ok) => report.count(if ok { "typed_decode_ok" } else { "typed_decode_err" }),
                Err(p) => {
                    let msg = p.downcast_ref::<String>().cloned().or_else(|| p.downcast_ref::<&str>().map(|s| s.to_string())).unwrap_or_default();
                    report.finding(Finding { kind: "violation", key: format!("decode-panic:{}", name), description: format!("decoding {} as {} panicked: {}", short, name, msg), replay: json!({"property": prop, "module": "codec", "typed": name, "bytes": hex(bs)}) });
                }
            }
            if largest > 64 * bs.len() as u64 + 6_000_000 || alloc > 4096 * (bs.len() as u64 + 16) + 12_000_000 {
                report.finding(Finding { kind: "violation", key: format!("decode-allocation:{}", name), description: format!("decoding {} as {} allocated {} bytes in total, {} in one piece", short, name, alloc, largest), replay: json!({"property": prop, "module": "codec", "typed": name, "bytes": hex(bs)}) });
            }
        }
    }
    std::panic::set_hook(prev_hook);
    report.count_n("typed_inputs", n);
}
