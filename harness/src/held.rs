//! Several links on one session whose peer keeps its incoming-window (almost) shut (C13, C11,
//! C08, C01, C07): transfers and detaches are held back by the session, and what the peer
//! finally sees must still be a legal history.
//!
//! A real client (connection, session, 2..3 pre-settled senders) plays a generated script —
//! sends on any link, close / detach / drop of a link, attach of a new link, and flows of the
//! peer that re-open the window by a few frames, name a link, ask it to drain or to echo.  The
//! scripted peer answers attaches and detaches politely and records every frame.  Judged on
//! the recorded wire alone:
//!   * C13 / C01: after a link's detach no frame for its handle; the messages of a link arrive
//!     in the order sent, all of them once the window was opened, before the link's detach;
//!   * C11: an attach never uses a handle that is still attached on the wire;
//!   * C08: a flow asking a sender to drain (or to echo) is answered by a flow of that link,
//!     with zero credit in the drain case;
//!   * C07: no transfer while the advertised window is used up.

use std::collections::BTreeMap;
use std::time::Duration;

use fe2o3_amqp::link::sender::Sender;
use fe2o3_amqp::{Connection, Session};
use fe2o3_amqp_types::definitions::{Handle, ReceiverSettleMode, Role, SenderSettleMode};
use fe2o3_amqp_types::performatives::{Attach, Detach, End, Flow, Performative};
use serde_json::{json, Value as J};

use crate::common::*;
use crate::peer::*;

#[derive(Clone, Debug, PartialEq)]
pub enum Op {
    /// send one small pre-settled message on link `i`
    Send(usize),
    /// close (0), detach (1) or drop (2) link `i`
    Leave(usize, u8),
    /// attach one more sender
    AttachNew,
    /// the peer re-opens its window by `open` frames; names link `i` if `link` is set, with drain / echo
    PeerFlow { open: u32, link: Option<usize>, drain: bool, echo: bool },
}

#[derive(Clone, Debug)]
pub struct Scenario {
    pub window: u32,
    pub links: usize,
    pub ops: Vec<Op>,
}

impl Scenario {
    pub fn to_json(&self) -> J {
        let ops: Vec<J> = self
            .ops
            .iter()
            .map(|o| match o {
                Op::Send(i) => json!({"send": i}),
                Op::Leave(i, k) => json!({"leave": i, "how": k}),
                Op::AttachNew => json!("attach"),
                Op::PeerFlow { open, link, drain, echo } => json!({"flow": open, "link": link, "drain": drain, "echo": echo}),
            })
            .collect();
        json!({"window": self.window, "links": self.links, "ops": ops})
    }
    pub fn from_json(j: &J) -> Option<Scenario> {
        let mut ops = vec![];
        for o in j.get("ops")?.as_array()? {
            if o.as_str() == Some("attach") {
                ops.push(Op::AttachNew);
            } else if let Some(i) = o.get("send").and_then(|x| x.as_u64()) {
                ops.push(Op::Send(i as usize));
            } else if let Some(i) = o.get("leave").and_then(|x| x.as_u64()) {
                ops.push(Op::Leave(i as usize, o.get("how")?.as_u64()? as u8));
            } else if let Some(n) = o.get("flow").and_then(|x| x.as_u64()) {
                ops.push(Op::PeerFlow { open: n as u32, link: o.get("link").and_then(|x| x.as_u64()).map(|x| x as usize), drain: o.get("drain")?.as_bool()?, echo: o.get("echo")?.as_bool()? });
            } else {
                return None;
            }
        }
        Some(Scenario { window: j.get("window")?.as_u64()? as u32, links: j.get("links")?.as_u64()? as usize, ops })
    }
}

pub fn gen(rng: &mut Rng) -> Scenario {
    let links = 2 + rng.below(2) as usize;
    let window = rng.below(3) as u32;
    let n = 4 + rng.below(10) as usize;
    let mut ops = vec![];
    let mut alive: Vec<usize> = (0..links).collect();
    let mut total = links;
    for _ in 0..n {
        match rng.below(10) {
            0..=4 if !alive.is_empty() => ops.push(Op::Send(*rng.pick(&alive))),
            5 if alive.len() > 1 || (alive.len() == 1 && rng.chance(1, 3)) => {
                let k = rng.below(alive.len() as u64) as usize;
                let i = alive.remove(k);
                ops.push(Op::Leave(i, rng.below(3) as u8));
            }
            6 if total < 5 => {
                ops.push(Op::AttachNew);
                alive.push(total);
                total += 1;
            }
            7 | 8 => {
                let link = if !alive.is_empty() && rng.chance(2, 3) { Some(*rng.pick(&alive)) } else { None };
                let drain = link.is_some() && rng.chance(1, 3);
                let echo = link.is_some() && !drain && rng.chance(1, 2);
                ops.push(Op::PeerFlow { open: rng.below(3) as u32, link, drain, echo });
            }
            _ => {
                if !alive.is_empty() {
                    ops.push(Op::Send(*rng.pick(&alive)))
                }
            }
        }
    }
    Scenario { window, links, ops }
}

/// what the peer saw, in order
#[derive(Clone, Debug)]
pub enum Seen {
    Attach { handle: u32, name: String },
    Transfer { handle: u32, marker: Option<(usize, usize)>, window_left_before: u32 },
    Detach { handle: u32 },
    Flow { handle: Option<u32>, credit: Option<u32>, drain: bool },
}

#[derive(Default, Debug)]
pub struct Outcome {
    pub seen: Vec<Seen>,
    /// per link: how many sends returned Ok
    pub sent: BTreeMap<usize, usize>,
    /// (position in `seen` at the time, handle, drain, echo) of the peer's link flows to links the
    /// script had not yet told to leave
    pub asked: Vec<(usize, u32, bool, bool)>,
    pub errors: Vec<String>,
    pub trace: Vec<String>,
    /// link index -> handle the client attached it with
    pub handle_of: BTreeMap<usize, u32>,
    /// what the links handed to the session and what the peer's flows set, in script order (model input)
    pub model_ops: Vec<String>,
    /// number of links the client ended up with (for the teardown)
    pub links_total: usize,
}

fn marker_of(payload: &[u8]) -> Option<(usize, usize)> {
    // body is the string "L<link>-<seq>;"
    let s = String::from_utf8_lossy(payload);
    let i = s.find("L#")?;
    let rest = &s[i + 2..];
    let end = rest.find(';')?;
    let mut it = rest[..end].split('-');
    Some((it.next()?.parse().ok()?, it.next()?.parse().ok()?))
}

pub fn run(sc: &Scenario) -> Outcome {
    let rt = paused_runtime();
    let sc = sc.clone();
    rt.block_on(async move {
        let mut out = Outcome::default();
        let (cio, pio) = tokio::io::duplex(1 << 20);
        let mut peer = Peer::new(pio);
        peer.recv_timeout = Duration::from_millis(30);
        // ---- client side, driven step by step through a channel
        let (tx, mut rx) = tokio::sync::mpsc::unbounded_channel::<Op>();
        let (rtx, mut rrx) = tokio::sync::mpsc::unbounded_channel::<(usize, bool)>();
        let links0 = sc.links;
        let client = tokio::spawn(async move {
            let mut conn = Connection::builder().container_id("held").open_with_stream(cio).await.map_err(|e| format!("open: {:?}", e))?;
            let mut session = Session::builder().begin(&mut conn).await.map_err(|e| format!("begin: {:?}", e))?;
            let mut senders: Vec<Option<Sender>> = vec![];
            let mut seqs: Vec<usize> = vec![];
            for i in 0..links0 {
                let s = Sender::builder().name(format!("link-{}", i)).target("q").sender_settle_mode(SenderSettleMode::Settled).attach(&mut session).await.map_err(|e| format!("attach: {:?}", e))?;
                senders.push(Some(s));
                seqs.push(0);
            }
            let _ = rtx.send((usize::MAX, true));
            let mut side = vec![];
            while let Some(op) = rx.recv().await {
                match op {
                    Op::Send(i) => {
                        let ok = match senders.get_mut(i).and_then(|s| s.as_mut()) {
                            Some(s) => {
                                let body = format!("L#{}-{};", i, seqs[i]);
                                match tokio::time::timeout(Duration::from_millis(200), s.send(body)).await {
                                    Ok(Ok(_)) => {
                                        seqs[i] += 1;
                                        true
                                    }
                                    _ => false,
                                }
                            }
                            None => false,
                        };
                        let _ = rtx.send((i, ok));
                    }
                    Op::Leave(i, how) => {
                        let existed = senders.get(i).map(|s| s.is_some()).unwrap_or(false);
                        if let Some(s) = senders.get_mut(i).and_then(|s| s.take()) {
                            match how {
                                0 => side.push(tokio::spawn(async move {
                                    let _ = tokio::time::timeout(Duration::from_secs(30), s.close()).await;
                                })),
                                1 => side.push(tokio::spawn(async move {
                                    let _ = tokio::time::timeout(Duration::from_secs(30), s.detach()).await;
                                })),
                                _ => drop(s),
                            }
                        }
                        let _ = rtx.send((i, existed));
                    }
                    Op::AttachNew => {
                        let i = senders.len();
                        // the attach completes once the peer has answered; the script goes on meanwhile
                        match tokio::time::timeout(Duration::from_secs(30), Sender::builder().name(format!("link-{}", i)).target("q").sender_settle_mode(SenderSettleMode::Settled).attach(&mut session)).await {
                            Ok(Ok(s)) => senders.push(Some(s)),
                            _ => senders.push(None),
                        }
                        seqs.push(0);
                        let _ = rtx.send((i, true));
                    }
                    Op::PeerFlow { .. } => {}
                }
            }
            for s in senders.into_iter().flatten() {
                let _ = tokio::time::timeout(Duration::from_secs(5), s.close()).await;
            }
            for t in side {
                let _ = t.await;
            }
            let _ = tokio::time::timeout(Duration::from_secs(5), session.end()).await;
            let _ = tokio::time::timeout(Duration::from_secs(5), conn.close()).await;
            Ok::<(), String>(())
        });

        // ---- peer side
        macro_rules! tr {
            ($e:expr) => {
                match $e {
                    Ok(v) => v,
                    Err(e) => {
                        out.errors.push(format!("peer: {:?}", e));
                        out.trace = peer.trace_lines();
                        return out;
                    }
                }
            };
        }
        peer.recv_timeout = Duration::from_secs(5);
        tr!(peer.accept_open(&PeerOpen::default()).await);
        let (_, begin) = tr!(peer.accept_begin(0, 0, sc.window, 2048).await);
        let initial = begin.next_outgoing_id;
        let mut window_left = sc.window;
        let mut received: u32 = 0;
        let mut names: BTreeMap<u32, String> = BTreeMap::new();
        let mut ended = false;

        // one round of the peer: take what has arrived, answer politely
        async fn pump(peer: &mut Peer, out: &mut Outcome, window_left: &mut u32, received: &mut u32, names: &mut BTreeMap<u32, String>, ended: &mut bool, wait: Duration) {
            peer.recv_timeout = wait;
            loop {
                match peer.recv().await {
                    Ok(Incoming::Frame { performative, payload, .. }) => match performative {
                        Performative::Attach(a) => {
                            out.seen.push(Seen::Attach { handle: a.handle.0, name: a.name.clone() });
                            names.insert(a.handle.0, a.name.clone());
                            if let Some(i) = a.name.strip_prefix("link-").and_then(|x| x.parse::<usize>().ok()) {
                                out.handle_of.insert(i, a.handle.0);
                            }
                            let ours = Attach {
                                name: a.name.clone(),
                                handle: Handle(100 + a.handle.0),
                                role: Role::Receiver,
                                snd_settle_mode: a.snd_settle_mode.clone(),
                                rcv_settle_mode: ReceiverSettleMode::First,
                                source: a.source.clone(),
                                target: a.target.clone(),
                                unsettled: None,
                                incomplete_unsettled: false,
                                initial_delivery_count: None,
                                max_message_size: None,
                                offered_capabilities: None,
                                desired_capabilities: None,
                                properties: None,
                            };
                            let _ = peer.send(0, Performative::Attach(ours), &[]).await;
                            let f = Flow { next_incoming_id: Some(*received), incoming_window: *window_left, next_outgoing_id: 0, outgoing_window: 2048, handle: Some(Handle(100 + a.handle.0)), delivery_count: Some(a.initial_delivery_count.unwrap_or(0)), link_credit: Some(1000), available: None, drain: false, echo: false, properties: None };
                            let _ = peer.send(0, Performative::Flow(f), &[]).await;
                        }
                        Performative::Transfer(t) => {
                            out.seen.push(Seen::Transfer { handle: t.handle.0, marker: marker_of(&payload), window_left_before: *window_left });
                            *received = received.wrapping_add(1);
                            *window_left = window_left.saturating_sub(1);
                        }
                        Performative::Detach(d) => {
                            out.seen.push(Seen::Detach { handle: d.handle.0 });
                            let _ = peer.send(0, Performative::Detach(Detach { handle: Handle(100 + d.handle.0), closed: d.closed, error: None }), &[]).await;
                        }
                        Performative::Flow(f) => {
                            out.seen.push(Seen::Flow { handle: f.handle.as_ref().map(|h| h.0), credit: f.link_credit, drain: f.drain });
                        }
                        Performative::End(_) => {
                            *ended = true;
                            let _ = peer.send(0, Performative::End(End { error: None }), &[]).await;
                        }
                        Performative::Close(_) => {
                            let _ = peer.close_politely().await;
                            return;
                        }
                        _ => {}
                    },
                    Ok(Incoming::Empty { .. }) => {}
                    Err(_) => return,
                }
            }
        }

        // the initial attaches
        loop {
            pump(&mut peer, &mut out, &mut window_left, &mut received, &mut names, &mut ended, Duration::from_millis(30)).await;
            if let Ok((usize::MAX, _)) = rrx.try_recv() {
                break;
            }
            if client.is_finished() {
                out.errors.push("the client stopped during the attaches".into());
                out.trace = peer.trace_lines();
                return out;
            }
        }
        let mut next_link = sc.links;
        let mut left: std::collections::BTreeSet<usize> = Default::default();
        let mut gone: std::collections::BTreeSet<usize> = Default::default();
        for op in sc.ops.iter() {
            if let Op::Leave(i, _) = op {
                left.insert(*i);
            }
            match op {
                Op::PeerFlow { open, link, drain, echo } => {
                    window_left += open;
                    let handle = link.and_then(|i| out.handle_of.get(&i).cloned());
                    let f = Flow {
                        next_incoming_id: Some(initial.wrapping_add(received)),
                        incoming_window: window_left,
                        next_outgoing_id: 0,
                        outgoing_window: 2048,
                        handle: handle.map(|h| Handle(100 + h)),
                        delivery_count: handle.map(|_| 0),
                        link_credit: handle.map(|_| 1000),
                        available: None,
                        drain: *drain,
                        echo: *echo,
                        properties: None,
                    };
                    // the delivery-count of the sender is not known to the peer exactly: take it from the transfers seen
                    let mut f = f;
                    if let Some(h) = handle {
                        let dc = out.seen.iter().filter(|s| matches!(s, Seen::Transfer { handle: x, .. } if *x == h)).count() as u32;
                        f.delivery_count = Some(dc);
                        if !link.map(|i| left.contains(&i)).unwrap_or(true) {
                            out.asked.push((out.seen.len(), h, *drain, *echo));
                        }
                    }
                    out.model_ops.push(format!("w{}", window_left));
                    let _ = peer.send(0, Performative::Flow(f), &[]).await;
                    pump(&mut peer, &mut out, &mut window_left, &mut received, &mut names, &mut ended, Duration::from_millis(30)).await;
                }
                other => {
                    let _ = tx.send(other.clone());
                    if let Op::AttachNew = other {
                        next_link += 1;
                    }
                    // let the client act, answer what arrives
                    let mut answered = false;
                    for _ in 0..40 {
                        pump(&mut peer, &mut out, &mut window_left, &mut received, &mut names, &mut ended, Duration::from_millis(10)).await;
                        if let Ok((i, ok)) = rrx.try_recv() {
                            match other {
                                Op::Send(_) if ok => {
                                    let seq = *out.sent.get(&i).unwrap_or(&0);
                                    out.model_ops.push(format!("x{}.{}", i, seq));
                                    *out.sent.entry(i).or_insert(0) += 1;
                                }
                                Op::Leave(l, _) if ok => {
                                    if !gone.contains(l) && *l < next_link {
                                        out.model_ops.push(format!("d{}", l));
                                        gone.insert(*l);
                                    }
                                }
                                _ => {}
                            }
                            answered = true;
                            break;
                        }
                    }
                    if !answered {
                        out.errors.push(format!("the client did not finish {:?} within 400 virtual ms", other));
                        break;
                    }
                }
            }
        }
        // open the window for good and let everything drain; the client then closes what is left, in order
        window_left += 1000;
        out.model_ops.push(format!("w{}", window_left));
        for l in 0..next_link {
            if !gone.contains(&l) {
                out.model_ops.push(format!("d{}", l));
            }
        }
        out.links_total = next_link;
        let f = Flow { next_incoming_id: Some(initial.wrapping_add(received)), incoming_window: window_left, next_outgoing_id: 0, outgoing_window: 2048, handle: None, delivery_count: None, link_credit: None, available: None, drain: false, echo: false, properties: None };
        let _ = peer.send(0, Performative::Flow(f), &[]).await;
        pump(&mut peer, &mut out, &mut window_left, &mut received, &mut names, &mut ended, Duration::from_millis(50)).await;
        drop(tx);
        for _ in 0..200 {
            pump(&mut peer, &mut out, &mut window_left, &mut received, &mut names, &mut ended, Duration::from_millis(50)).await;
            if client.is_finished() {
                break;
            }
        }
        if !client.is_finished() {
            out.errors.push("the client did not finish its teardown".into());
            client.abort();
        }
        out.trace = peer.trace_lines();
        out
    })
}

/// transfers and detaches in the order the peer saw them, in the notation of the model driver
pub fn wire_order(o: &Outcome) -> String {
    let mut attached: BTreeMap<u32, usize> = BTreeMap::new();
    let mut items = vec![];
    for s in o.seen.iter() {
        match s {
            Seen::Attach { handle, name } => {
                if let Some(i) = name.strip_prefix("link-").and_then(|x| x.parse::<usize>().ok()) {
                    attached.insert(*handle, i);
                }
            }
            Seen::Transfer { marker: Some((l, u)), .. } => items.push(format!("x{}.{}", l, u)),
            Seen::Transfer { handle, .. } => items.push(format!("x?{}", handle)),
            Seen::Detach { handle } => match attached.remove(handle) {
                Some(i) => items.push(format!("d{}", i)),
                None => items.push(format!("d?{}", handle)),
            },
            Seen::Flow { .. } => {}
        }
    }
    items.join(" ")
}

/// the property, judged on what the peer saw
pub fn check(sc: &Scenario, o: &Outcome) -> Vec<(String, String)> {
    let mut v: Vec<(String, String)> = vec![];
    let mut attached: BTreeMap<u32, String> = BTreeMap::new();
    let mut got: BTreeMap<usize, Vec<usize>> = BTreeMap::new();
    for (k, s) in o.seen.iter().enumerate() {
        match s {
            Seen::Attach { handle, name } => {
                if let Some(old) = attached.get(handle) {
                    v.push(("C11:handle-reused-while-attached".into(), format!("frame {}: attach of {} uses handle {} which {} still holds on the wire (its detach has not been sent)", k, name, handle, old)));
                }
                attached.insert(*handle, name.clone());
            }
            Seen::Transfer { handle, marker, window_left_before } => {
                if *window_left_before == 0 {
                    v.push(("C07:window-overrun".into(), format!("frame {}: a transfer on handle {} arrived while the advertised window was used up", k, handle)));
                }
                match attached.get(handle) {
                    None => v.push(("C13:frame-after-detach".into(), format!("frame {}: a transfer ({:?}) on handle {} which is not attached (its link's detach went out before)", k, marker, handle))),
                    Some(name) => {
                        if let Some((link, seq)) = marker {
                            if name != &format!("link-{}", link) {
                                v.push(("C11:wrong-handle".into(), format!("frame {}: message {} of link-{} arrives on handle {} which designates {}", k, seq, link, handle, name)));
                            }
                            got.entry(*link).or_default().push(*seq);
                        }
                    }
                }
            }
            Seen::Detach { handle } => {
                if attached.remove(handle).is_none() {
                    v.push(("C13:detach-twice".into(), format!("frame {}: a detach for handle {} which is not attached", k, handle)));
                }
            }
            Seen::Flow { handle: Some(h), .. } => {
                if !attached.contains_key(h) {
                    v.push(("C13:frame-after-detach".into(), format!("frame {}: a flow for handle {} which is not attached", k, h)));
                }
            }
            Seen::Flow { .. } => {}
        }
    }
    if o.errors.is_empty() {
        // everything sent arrives, in order (the window was opened for good at the end)
        for (link, n) in o.sent.iter() {
            let seqs = got.get(link).cloned().unwrap_or_default();
            let want: Vec<usize> = (0..*n).collect();
            if seqs != want {
                v.push(("C01:lost-or-reordered".into(), format!("link-{}: {} sends returned Ok, the peer received the messages {:?}", link, n, seqs)));
            }
        }
        // drain / echo answered
        for (pos, h, drain, echo) in o.asked.iter() {
            let answer = o.seen.iter().skip(*pos).find(|s| matches!(s, Seen::Flow { handle: Some(x), .. } if x == h));
            match answer {
                None if *drain => v.push(("C08:drain-unanswered".into(), format!("the peer asked the sender on handle {} to drain; no flow of that link followed", h))),
                None if *echo => v.push(("C08:echo-unanswered".into(), format!("the peer asked the sender on handle {} for its state (echo); no flow of that link followed", h))),
                Some(Seen::Flow { credit, .. }) if *drain && *credit != Some(0) => v.push(("C08:drain-not-exhausted".into(), format!("the answer to drain on handle {} shows link-credit {:?}", h, credit))),
                _ => {}
            }
        }
    } else {
        v.push(("stuck".into(), format!("{:?}", o.errors)));
    }
    let _ = sc;
    v
}

pub fn main(opts: &Opts) {
    let prop = if opts.property.is_empty() { "C13".to_string() } else { opts.property.clone() };
    let mut report = Report::new(&prop, "several pre-settled senders on one session whose peer keeps its window at 0..2 frames: sends, close / detach / drop, new attaches, flows re-opening the window by 0..2 frames with drain / echo; judged on the recorded wire (no frame after a detach, no handle reused while attached, order and completeness per link, drain / echo answered, no window overrun)");
    if let Some(path) = &opts.replay {
        let j: J = serde_json::from_str(&std::fs::read_to_string(path).expect("read")).expect("json");
        if let Some(sc) = j.get("scenario").and_then(Scenario::from_json) {
            let o = run(&sc);
            for l in o.trace.iter() {
                println!("{}", l);
            }
            let v = check(&sc, &o);
            for (k, d) in v.iter() {
                println!("REPLAY: [{}] {}", k, d);
            }
            std::process::exit(if v.is_empty() { 0 } else { 1 });
        }
        std::process::exit(2);
    }
    let mut rng = Rng::new(opts.seed ^ 0x4e1d);
    let n = if opts.thorough() { 3000 } else { 250 };
    let mut scenarios: Vec<Scenario> = corpus();
    report.count_n("corpus_cases", scenarios.len() as u64);
    for _ in 0..n {
        scenarios.push(gen(&mut rng));
    }
    let mut lines: Vec<String> = vec![];
    let mut expect: Vec<(String, J)> = vec![];
    for (k, sc) in scenarios.iter().enumerate() {
        let o = run(sc);
        report.evaluations += 1;
        if o.errors.is_empty() {
            lines.push(format!("D run {} {}", sc.window, o.model_ops.join(" ")));
            expect.push((format!("{} | held 0", wire_order(&o)), sc.to_json()));
        }
        let held = o.seen.iter().filter(|s| matches!(s, Seen::Transfer { .. })).count();
        report.count_n("transfers", held as u64);
        report.count_n("detaches", o.seen.iter().filter(|s| matches!(s, Seen::Detach { .. })).count() as u64);
        report.count_n("link_flows_of_the_peer", o.asked.len() as u64);
        if sc.ops.iter().any(|o| matches!(o, Op::Leave(..))) && held > sc.window as usize {
            report.nontrivial_case(fnv(&sc.to_json().to_string()));
        }
        if k % 80 == 0 {
            report.sample(sc.to_json());
        }
        for (key, desc) in check(sc, &o) {
            let (p, rest) = key.split_once(':').unwrap_or(("", key.as_str()));
            let relevant = match prop.as_str() {
                "C13" => p == "C13" || p == "C01" || key == "stuck",
                "C11" => p == "C11",
                "C08" => p == "C08",
                "C07" => p == "C07",
                "C01" => p == "C01",
                _ => true,
            };
            if !relevant {
                continue;
            }
            // shrink the script
            let mut fails = |ops: &[Op]| {
                let s2 = Scenario { window: sc.window, links: sc.links, ops: ops.to_vec() };
                let o2 = run(&s2);
                check(&s2, &o2).iter().any(|(k2, _)| *k2 == key)
            };
            let small = shrink_list(&sc.ops, &mut fails);
            let s2 = Scenario { window: sc.window, links: sc.links, ops: small };
            let o2 = run(&s2);
            let desc2 = check(&s2, &o2).into_iter().find(|(k2, _)| *k2 == key).map(|x| x.1).unwrap_or(desc);
            report.finding(Finding { kind: "violation", key: rest.to_string(), description: desc2, replay: json!({"property": prop, "module": "held", "scenario": s2.to_json(), "trace": o2.trace.iter().rev().take(40).rev().collect::<Vec<_>>()}) });
        }
    }
    // ---- the model (Amqp.DetachHold): what leaves the session, in which order
    if driver_available() {
        match run_driver(&lines) {
            Ok(got) => {
                report.model_used = true;
                report.model_lines = got.len() as u64;
                for ((line, g), (want, sc)) in lines.iter().zip(got.iter()).zip(expect.iter()) {
                    if g != want {
                        report.finding(Finding { kind: "disagreement", key: "held-order".into(), description: format!("{}: the model lets the frames leave as `{}`, the peer saw `{}`", line, g, want), replay: json!({"property": prop, "module": "held", "scenario": sc, "line": line, "model": g, "implementation": want}) });
                    }
                }
            }
            Err(e) => report.notes.push(format!("model driver failed: {}", e)),
        }
    } else {
        report.notes.push("model driver not available: correspondence not run".into());
    }
    report.write(&opts.report);
    println!("held: {} cases, {} non-trivial, {} findings", report.evaluations, report.nontrivial.len(), report.findings.len());
}

/// scenarios kept from the seeded round 2 (each was missed before this module existed)
pub fn corpus() -> Vec<Scenario> {
    vec![
        // two links, both with held transfers, the link whose frame is NOT held last leaves
        Scenario { window: 1, links: 2, ops: vec![Op::Send(0), Op::Send(1), Op::Send(0), Op::Leave(1, 0), Op::PeerFlow { open: 3, link: None, drain: false, echo: false }] },
        // a detach held back, a new attach before the window re-opens
        Scenario { window: 1, links: 1, ops: vec![Op::Send(0), Op::Send(0), Op::Leave(0, 2), Op::AttachNew, Op::PeerFlow { open: 3, link: None, drain: false, echo: false }] },
        // drain on a flow that also re-opens the window while transfers are held
        Scenario { window: 1, links: 1, ops: vec![Op::Send(0), Op::Send(0), Op::Send(0), Op::PeerFlow { open: 5, link: Some(0), drain: true, echo: false }] },
    ]
}
