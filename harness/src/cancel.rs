//! C16 — cancelling a pending send or recv.  A future is dropped after it has been polled a
//! chosen number of times (every cancellation point the runtime exposes is reached by some
//! count); between polls every other task runs.
//!
//! recv: a scripted sender delivers N messages (single- and multi-frame); the client calls
//! `recv` again and again, each call cancelled after k_i polls or left to complete; the
//! deliveries returned by the calls that complete must be the messages sent, in order, once.
//!
//! send: a real Sender whose sends are cancelled after k_i polls, while the scripted receiver
//! withholds credit, withholds the session window or has a small max-message-size; whatever
//! arrives must be whole messages, each at most once, the uncancelled ones all there and in
//! order, and the credit granted must be enough for them.

use std::future::Future;
use std::pin::Pin;
use std::task::{Context, Poll};
use std::time::Duration;

use fe2o3_amqp::link::delivery::Sendable;
use fe2o3_amqp::link::receiver::CreditMode;
use fe2o3_amqp::link::sender::Sender;
use fe2o3_amqp::{Connection, Receiver, Session};
use fe2o3_amqp_types::definitions::{Handle, ReceiverSettleMode, Role};
use fe2o3_amqp_types::messaging::{message::__private::Deserializable, Body, Message};
use fe2o3_amqp_types::performatives::{Attach, Flow, Performative};
use serde_amqp::primitives::Binary;
use serde_amqp::Value;
use serde_json::{json, Value as J};

use crate::common::*;
use crate::peer::*;

/// polls the inner future at most `n` times, yielding to the scheduler in between; `None` = dropped unfinished
pub struct PollN<F> {
    fut: Option<Pin<Box<F>>>,
    left: u32,
}

impl<F: Future> Future for PollN<F> {
    type Output = Option<F::Output>;
    fn poll(mut self: Pin<&mut Self>, cx: &mut Context<'_>) -> Poll<Self::Output> {
        if self.left == 0 {
            self.fut = None; // drop it
            return Poll::Ready(None);
        }
        self.left -= 1;
        let r = self.fut.as_mut().expect("polled after completion").as_mut().poll(cx);
        match r {
            Poll::Ready(v) => Poll::Ready(Some(v)),
            Poll::Pending => {
                if self.left == 0 {
                    self.fut = None;
                    return Poll::Ready(None);
                }
                // come back after everybody else has had a turn
                cx.waker().wake_by_ref();
                Poll::Pending
            }
        }
    }
}

pub fn poll_n<F: Future>(f: F, n: u32) -> PollN<F> {
    PollN { fut: Some(Box::pin(f)), left: n }
}

/// the k-th message's body: its index first, so that no two messages of a case are alike
fn body_of(k: usize, n: usize) -> Vec<u8> {
    std::iter::once(k as u8).chain((0..n).map(|i| (k * 31 + i * 7) as u8)).collect()
}

// ---------------------------------------------------------------------------------- recv

#[derive(Clone, Debug)]
pub struct RecvCase {
    /// per message: body size and the sizes of the frames it is cut into (sum = encoded length; computed at run time from cuts)
    pub sizes: Vec<usize>,
    /// cut points per message (fractions of the encoded length in 1/8)
    pub cuts: Vec<Vec<u8>>,
    /// polls granted to each successive recv call (0 = let it complete)
    pub polls: Vec<u32>,
    pub auto_accept: bool,
    /// the session's link-to-session channel: with 1 or 2 the disposition / flow a recv sends can be pending
    pub buffer_size: usize,
    /// CreditMode::Auto(n): small values make recv top the credit up (a flow) after every message or two
    pub auto_credit: u32,
    /// pause between the frames the scripted sender writes, in ms (0 = everything at once)
    pub gap_ms: u64,
    /// the scripted sender sends its deliveries settled
    pub settled: bool,
    /// before a recv that is going to be dropped the application states its credit again, as often as the
    /// link-to-session queue has places: the queue is full when the recv looks for room
    pub fill: bool,
    /// the application makes its first recv call this many ms after attaching: the deliveries are there by then
    pub start_delay_ms: u64,
}

impl RecvCase {
    pub fn to_json(&self) -> J {
        json!({"sizes": self.sizes, "cuts": self.cuts, "polls": self.polls, "auto_accept": self.auto_accept, "buffer_size": self.buffer_size, "auto_credit": self.auto_credit, "gap_ms": self.gap_ms, "settled": self.settled, "fill": self.fill, "start_delay_ms": self.start_delay_ms})
    }
    pub fn from_json(j: &J) -> Option<RecvCase> {
        Some(RecvCase {
            sizes: j.get("sizes")?.as_array()?.iter().filter_map(|x| x.as_u64().map(|v| v as usize)).collect(),
            cuts: j.get("cuts")?.as_array()?.iter().map(|x| x.as_array().map(|a| a.iter().filter_map(|y| y.as_u64().map(|v| v as u8)).collect()).unwrap_or_default()).collect(),
            polls: j.get("polls")?.as_array()?.iter().filter_map(|x| x.as_u64().map(|v| v as u32)).collect(),
            auto_accept: j.get("auto_accept")?.as_bool()?,
            buffer_size: j.get("buffer_size").and_then(|x| x.as_u64()).unwrap_or(2048) as usize,
            auto_credit: j.get("auto_credit").and_then(|x| x.as_u64()).unwrap_or(100) as u32,
            gap_ms: j.get("gap_ms").and_then(|x| x.as_u64()).unwrap_or(2),
            settled: j.get("settled").and_then(|x| x.as_bool()).unwrap_or(false),
            fill: j.get("fill").and_then(|x| x.as_bool()).unwrap_or(false),
            start_delay_ms: j.get("start_delay_ms").and_then(|x| x.as_u64()).unwrap_or(0),
        })
    }
}

/// returns the bodies of the deliveries returned by completed recv calls, and how many calls were cancelled
pub fn run_recv(case: &RecvCase) -> Result<(Vec<Vec<u8>>, u32, Vec<String>), String> {
    let rt = paused_runtime();
    let case = case.clone();
    rt.block_on(async move {
        let (cio, pio) = tokio::io::duplex(1 << 20);
        let mut peer = Peer::new(pio);
        let c = case.clone();
        let client = tokio::spawn(async move {
            let mut conn = Connection::builder().container_id("c16r").open_with_stream(cio).await.map_err(|e| format!("open: {:?}", e))?;
            let mut session = Session::builder().buffer_size(c.buffer_size.max(1)).begin(&mut conn).await.map_err(|e| format!("begin: {:?}", e))?;
            let mut r = Receiver::builder().name("r").source("q").credit_mode(CreditMode::Auto(c.auto_credit.max(1))).auto_accept(c.auto_accept).attach(&mut session).await.map_err(|e| format!("attach: {:?}", e))?;
            let mut got: Vec<Vec<u8>> = vec![];
            let mut cancelled = 0u32;
            let mut i = 0usize;
            let mut notes = vec![];
            if c.start_delay_ms > 0 {
                tokio::time::sleep(Duration::from_millis(c.start_delay_ms)).await;
            }
            let deadline = tokio::time::Instant::now() + Duration::from_secs(30);
            while got.len() < c.sizes.len() && tokio::time::Instant::now() < deadline {
                let polls = c.polls.get(i).copied().unwrap_or(0);
                i += 1;
                if polls == 0 {
                    match tokio::time::timeout(Duration::from_secs(2), r.recv::<Value>()).await {
                        Ok(Ok(d)) => {
                            if let Value::Binary(b) = d.body() {
                                got.push(b.to_vec());
                            } else {
                                got.push(b"<not binary>".to_vec());
                            }
                            if !c.auto_accept {
                                let _ = r.accept(&d).await;
                            }
                        }
                        Ok(Err(e)) => {
                            notes.push(format!("recv error: {:?}", e));
                            break;
                        }
                        Err(_) => {
                            notes.push("a recv left to complete got nothing for 2 virtual seconds".into());
                            break;
                        }
                    }
                } else {
                    if c.fill && c.buffer_size <= 4 {
                        for _ in 0..c.buffer_size {
                            let _ = tokio::time::timeout(Duration::from_millis(50), r.set_credit(c.auto_credit.max(1))).await;
                        }
                    }
                    match poll_n(r.recv::<Value>(), polls).await {
                        Some(Ok(d)) => {
                            if let Value::Binary(b) = d.body() {
                                got.push(b.to_vec());
                            }
                            if !c.auto_accept {
                                let _ = r.accept(&d).await;
                            }
                        }
                        Some(Err(e)) => {
                            notes.push(format!("recv error: {:?}", e));
                            break;
                        }
                        None => cancelled += 1,
                    }
                    // the scripted sender gets a turn (virtual time passes)
                    tokio::time::sleep(Duration::from_millis(1)).await;
                }
            }
            let _ = tokio::time::timeout(Duration::from_millis(200), r.close()).await;
            let _ = tokio::time::timeout(Duration::from_millis(200), session.end()).await;
            let _ = tokio::time::timeout(Duration::from_millis(200), conn.close()).await;
            Ok::<_, String>((got, cancelled, notes))
        });
        peer.accept_open(&PeerOpen::default()).await.map_err(|e| format!("{:?}", e))?;
        peer.accept_begin(0, 0, 2048, 2048).await.map_err(|e| format!("{:?}", e))?;
        peer.accept_attach(0, 3, Some(0), ReceiverSettleMode::First).await.map_err(|e| format!("{:?}", e))?;
        // wait for credit
        peer.recv_timeout = Duration::from_secs(1);
        loop {
            match peer.recv_frame().await {
                Ok((_, Performative::Flow(f), _)) if f.link_credit.unwrap_or(0) > 0 => break,
                Ok(_) => {}
                Err(e) => return Err(format!("peer waiting for credit: {:?}", e)),
            }
        }
        let mut id = 0u32;
        for (k, n) in case.sizes.iter().enumerate() {
            let msg = {
                let m = Message::builder().value(Binary::from(body_of(k, *n))).build();
                serde_amqp::to_vec(&fe2o3_amqp_types::messaging::message::__private::Serializable(m)).map_err(|e| e.to_string())?
            };
            // cut points
            let mut cuts: Vec<usize> = case.cuts.get(k).cloned().unwrap_or_default().iter().map(|c| (*c as usize * msg.len()) / 8).filter(|c| *c > 0 && *c < msg.len()).collect();
            cuts.sort();
            cuts.dedup();
            let mut start = 0;
            let mut pieces: Vec<&[u8]> = vec![];
            for c in &cuts {
                pieces.push(&msg[start..*c]);
                start = *c;
            }
            pieces.push(&msg[start..]);
            for (pi, p) in pieces.iter().enumerate() {
                let first = pi == 0;
                let last = pi + 1 == pieces.len();
                let t = transfer(3, if first { Some(id) } else { None }, if first { Some(vec![k as u8]) } else { None }, if first { Some(case.settled) } else { None }, !last);
                peer.send(0, Performative::Transfer(t), p).await.map_err(|e| format!("{:?}", e))?;
                // a pause between frames: the client's recv may be cancelled in the middle of a delivery
                if case.gap_ms > 0 {
                    tokio::time::sleep(Duration::from_millis(case.gap_ms)).await;
                }
            }
            id = id.wrapping_add(pieces.len() as u32);
        }
        // serve teardown
        peer.recv_timeout = Duration::from_secs(40);
        let serve = async {
            loop {
                match peer.recv_frame().await {
                    Ok((_, Performative::Detach(d), _)) => {
                        let _ = peer.send(0, Performative::Detach(fe2o3_amqp_types::performatives::Detach { handle: Handle(3), closed: d.closed, error: None }), &[]).await;
                    }
                    Ok((_, Performative::End(_), _)) => {
                        let _ = peer.send(0, Performative::End(fe2o3_amqp_types::performatives::End { error: None }), &[]).await;
                    }
                    Ok((_, Performative::Close(_), _)) => {
                        let _ = peer.close_politely().await;
                        break;
                    }
                    Ok(_) => {}
                    Err(_) => break,
                }
            }
        };
        let (r, _) = tokio::join!(client, serve);
        r.map_err(|e| format!("{:?}", e))?
    })
}

pub fn check_recv(case: &RecvCase, got: &[Vec<u8>], notes: &[String]) -> Option<(String, String)> {
    let want: Vec<Vec<u8>> = case.sizes.iter().enumerate().map(|(k, n)| body_of(k, *n)).collect();
    for (i, g) in got.iter().enumerate() {
        match want.get(i) {
            Some(w) if w == g => {}
            Some(_) => {
                // what is it instead?
                let which = want.iter().position(|w| w == g);
                return Some((
                    match which {
                        Some(j) if j < i => "delivery-duplicated".into(),
                        Some(_) => "delivery-lost".into(),
                        None => "delivery-corrupted".into(),
                    },
                    format!("the {}-th delivery returned is {} (expected message {}); cancelled calls before: polls {:?}", i, which.map(|j| format!("message {}", j)).unwrap_or_else(|| format!("{} bytes matching no message", g.len())), i, case.polls),
                ));
            }
            None => return Some(("delivery-duplicated".into(), format!("{} deliveries returned for {} messages", got.len(), want.len()))),
        }
    }
    if got.len() < want.len() {
        return Some(("delivery-lost".into(), format!("{} of {} messages were returned by the recv calls that completed; notes: {:?}; polls {:?}", got.len(), want.len(), notes, case.polls)));
    }
    None
}

// ---------------------------------------------------------------------------------- send

#[derive(Clone, Debug)]
pub struct SendCase {
    pub sizes: Vec<usize>,
    /// polls granted to each send (0 = let it complete)
    pub polls: Vec<u32>,
    /// peer's max-message-size (0 = none): forces the link to cut a message into several transfers
    pub max_message_size: u64,
    /// credit is granted one at a time, `credit_delay_ms` after the previous delivery completed
    pub credit_delay_ms: u64,
    /// the session's link-to-session channel (Session::builder().buffer_size)
    pub buffer_size: usize,
    pub presettled: bool,
    /// credits per flow (1 = one at a time after each delivery; more = granted up front, topped up likewise)
    pub credit_per_grant: u32,
}

impl SendCase {
    pub fn to_json(&self) -> J {
        json!({"sizes": self.sizes, "polls": self.polls, "max_message_size": self.max_message_size, "credit_delay_ms": self.credit_delay_ms, "buffer_size": self.buffer_size, "presettled": self.presettled, "credit_per_grant": self.credit_per_grant})
    }
    pub fn from_json(j: &J) -> Option<SendCase> {
        Some(SendCase {
            sizes: j.get("sizes")?.as_array()?.iter().filter_map(|x| x.as_u64().map(|v| v as usize)).collect(),
            polls: j.get("polls")?.as_array()?.iter().filter_map(|x| x.as_u64().map(|v| v as u32)).collect(),
            max_message_size: j.get("max_message_size")?.as_u64()?,
            credit_delay_ms: j.get("credit_delay_ms")?.as_u64()?,
            buffer_size: j.get("buffer_size")?.as_u64()? as usize,
            presettled: j.get("presettled")?.as_bool()?,
            credit_per_grant: j.get("credit_per_grant").and_then(|x| x.as_u64()).unwrap_or(1) as u32,
        })
    }
}

#[derive(Clone, Debug, Default)]
pub struct SendObserved {
    /// per send: "done" | "cancelled" | "error:<…>"
    pub calls: Vec<String>,
    /// deliveries as the peer reassembled them: (complete?, decoded body or raw length)
    pub deliveries: Vec<(bool, Option<Vec<u8>>, usize)>,
    /// transfer frames per delivery (same order as `deliveries`)
    pub frames_of: Vec<usize>,
    pub credits_granted: u32,
    /// the sender's delivery-count as it reports it when asked at the end (initial value subtracted)
    pub final_delivery_count: Option<u32>,
    pub notes: Vec<String>,
}

pub fn run_send(case: &SendCase) -> Result<SendObserved, String> {
    let rt = paused_runtime();
    let case = case.clone();
    rt.block_on(async move {
        let (cio, pio) = tokio::io::duplex(1 << 20);
        let mut peer = Peer::new(pio);
        let c = case.clone();
        let client = tokio::spawn(async move {
            let mut conn = Connection::builder().container_id("c16s").open_with_stream(cio).await.map_err(|e| format!("open: {:?}", e))?;
            let mut session = Session::builder().buffer_size(c.buffer_size.max(1)).begin(&mut conn).await.map_err(|e| format!("begin: {:?}", e))?;
            let mut s = Sender::builder().name("s").target("q").attach(&mut session).await.map_err(|e| format!("attach: {:?}", e))?;
            let mut calls = vec![];
            for (k, n) in c.sizes.iter().enumerate() {
                let polls = c.polls.get(k).copied().unwrap_or(0);
                let sendable = Sendable::builder().message(Message::builder().value(Binary::from(body_of(k, *n))).build()).settled(if c.presettled { Some(true) } else { None }).build();
                if polls == 0 {
                    match tokio::time::timeout(Duration::from_secs(20), s.send(sendable)).await {
                        Ok(Ok(_)) => calls.push("done".to_string()),
                        Ok(Err(e)) => calls.push(format!("error:{:?}", e)),
                        Err(_) => calls.push("error:timeout-20s".to_string()),
                    }
                } else {
                    match poll_n(s.send(sendable), polls).await {
                        Some(Ok(_)) => calls.push("done".to_string()),
                        Some(Err(e)) => calls.push(format!("error:{:?}", e)),
                        None => calls.push("cancelled".to_string()),
                    }
                    tokio::time::sleep(Duration::from_millis(1)).await;
                }
            }
            tokio::time::sleep(Duration::from_millis(1000)).await;
            let _ = tokio::time::timeout(Duration::from_millis(500), s.close()).await;
            let _ = tokio::time::timeout(Duration::from_millis(500), session.end()).await;
            let _ = tokio::time::timeout(Duration::from_millis(500), conn.close()).await;
            Ok::<_, String>(calls)
        });
        let mut obs = SendObserved::default();
        peer.accept_open(&PeerOpen::default()).await.map_err(|e| format!("{:?}", e))?;
        peer.accept_begin(0, 0, 2048, 2048).await.map_err(|e| format!("{:?}", e))?;
        let (_, p, _) = peer.recv_frame().await.map_err(|e| format!("{:?}", e))?;
        let a = match p {
            Performative::Attach(a) => a,
            other => return Err(format!("expected attach, got {}", summarize(&other, 0))),
        };
        let ours = Attach { name: a.name.clone(), handle: Handle(7), role: Role::Receiver, snd_settle_mode: a.snd_settle_mode.clone(), rcv_settle_mode: ReceiverSettleMode::First, source: a.source.clone(), target: a.target.clone(), unsettled: None, incomplete_unsettled: false, initial_delivery_count: None, max_message_size: if case.max_message_size == 0 { None } else { Some(case.max_message_size) }, offered_capabilities: None, desired_capabilities: None, properties: None };
        peer.send(0, Performative::Attach(ours), &[]).await.map_err(|e| format!("{:?}", e))?;
        let mut deliveries_done = 0u32;
        let mut frames = 0u32;
        let grant = |dc: u32, frames: u32| Flow { next_incoming_id: Some(frames), incoming_window: 2048, next_outgoing_id: 0, outgoing_window: 2048, handle: Some(Handle(7)), delivery_count: Some(a.initial_delivery_count.unwrap_or(0).wrapping_add(dc)), link_credit: Some(case.credit_per_grant.max(1)), available: None, drain: false, echo: false, properties: None };
        let initial_dc = a.initial_delivery_count.unwrap_or(0);
        tokio::time::sleep(Duration::from_millis(case.credit_delay_ms)).await;
        peer.send(0, Performative::Flow(grant(0, 0)), &[]).await.map_err(|e| format!("{:?}", e))?;
        obs.credits_granted = 1;
        let mut cur: Option<Vec<u8>> = None;
        let mut cur_frames = 0usize;
        let mut cur_id: u32 = 0;
        let mut cur_settled = false;
        let mut asked = false;
        peer.recv_timeout = Duration::from_millis(300);
        loop {
            match peer.recv_frame().await {
                Ok((_, Performative::Transfer(t), payload)) => {
                    frames += 1;
                    if t.delivery_tag.is_some() {
                        if let Some(partial) = cur.take() {
                            // a new delivery begins although the previous one never ended
                            obs.deliveries.push((false, None, partial.len()));
                            obs.frames_of.push(cur_frames);
                        }
                        cur = Some(vec![]);
                        cur_frames = 0;
                        cur_id = t.delivery_id.unwrap_or(0);
                        cur_settled = t.settled.unwrap_or(false);
                    }
                    cur_frames += 1;
                    match cur.as_mut() {
                        Some(b) => b.extend_from_slice(&payload),
                        None => obs.notes.push("a continuation frame without a delivery in progress".into()),
                    }
                    if !t.more {
                        if let Some(b) = cur.take() {
                            let body = serde_amqp::from_slice::<Deserializable<Message<Body<Value>>>>(&b).ok().and_then(|m| match m.0.body {
                                Body::Value(v) => match v.0 {
                                    Value::Binary(x) => Some(x.to_vec()),
                                    _ => None,
                                },
                                _ => None,
                            });
                            obs.deliveries.push((true, body, b.len()));
                            obs.frames_of.push(cur_frames);
                        }
                        deliveries_done += 1;
                        if !cur_settled {
                            let d = fe2o3_amqp_types::performatives::Disposition { role: Role::Receiver, first: cur_id, last: None, settled: true, state: Some(crate::e2e::state_of(0)), batchable: false };
                            let _ = peer.send(0, Performative::Disposition(d), &[]).await;
                        }
                        tokio::time::sleep(Duration::from_millis(case.credit_delay_ms)).await;
                        let _ = peer.send(0, Performative::Flow(grant(deliveries_done, frames)), &[]).await;
                        obs.credits_granted += 1;
                    }
                }
                Ok((_, Performative::Flow(f), _)) => {
                    if let Some(dc) = f.delivery_count {
                        obs.final_delivery_count = Some(dc.wrapping_sub(initial_dc));
                    }
                }
                Ok((_, Performative::Detach(d), _)) => {
                    let _ = peer.send(0, Performative::Detach(fe2o3_amqp_types::performatives::Detach { handle: Handle(7), closed: d.closed, error: None }), &[]).await;
                }
                Ok((_, Performative::End(_), _)) => {
                    let _ = peer.send(0, Performative::End(fe2o3_amqp_types::performatives::End { error: None }), &[]).await;
                }
                Ok((_, Performative::Close(_), _)) => {
                    let _ = peer.close_politely().await;
                    break;
                }
                Ok(_) => {}
                Err(PeerError::Timeout) if !asked => {
                    // all quiet: ask the sender for its view of the link
                    asked = true;
                    let mut f = grant(deliveries_done, frames);
                    f.echo = true;
                    let _ = peer.send(0, Performative::Flow(f), &[]).await;
                }
                Err(_) => break,
            }
        }
        if let Some(partial) = cur.take() {
            obs.deliveries.push((false, None, partial.len()));
            obs.frames_of.push(cur_frames);
        }
        match tokio::time::timeout(Duration::from_secs(300), client).await {
            Ok(Ok(Ok(calls))) => obs.calls = calls,
            Ok(Ok(Err(e))) => return Err(e),
            other => return Err(format!("client: {:?}", other.map(|_| ()))),
        }
        Ok(obs)
    })
}

/// encoded length of message `k`
pub fn encoded_len(k: usize, n: usize) -> usize {
    let m = Message::builder().value(Binary::from(body_of(k, n))).build();
    serde_amqp::to_vec(&fe2o3_amqp_types::messaging::message::__private::Serializable(m)).map(|v| v.len()).unwrap_or(0)
}

/// the questions put to the model for one send case, and the implementation's answers
pub fn model_lines(case: &SendCase, obs: &SendObserved) -> (Vec<String>, Vec<String>, Vec<String>) {
    let mut lines = vec![];
    let mut imp = vec![];
    let mut what = vec![];
    // which message is each complete delivery?
    let ks: Vec<Option<usize>> = obs.deliveries.iter().map(|(c, b, _)| if *c { b.as_ref().and_then(|b| (0..case.sizes.len()).find(|k| *b == body_of(*k, case.sizes[*k]))) } else { None }).collect();
    // 1. the number of transfers of each delivery that arrived whole
    for (j, k) in ks.iter().enumerate() {
        if let Some(k) = k {
            lines.push(format!("Q tc {} {}", case.max_message_size, encoded_len(*k, case.sizes[*k])));
            imp.push(obs.frames_of[j].to_string());
            what.push(format!("transfers of message {}", k));
        }
    }
    // 2. the wire as a whole: whole deliveries only?
    let mut frs = vec![];
    for (j, (complete, _, _)) in obs.deliveries.iter().enumerate() {
        let n = obs.frames_of[j];
        let k = ks[j].unwrap_or(900 + j);
        for i in 0..n {
            // an unfinished delivery is one that announces one transfer more than it has
            frs.push(format!("{}:{}:{}", k, i, if *complete { n } else { n + 1 }));
        }
    }
    lines.push(format!("Q whole {}", frs.join(" ")));
    imp.push(if obs.deliveries.iter().all(|d| d.0) {
        format!("whole {}", obs.deliveries.iter().enumerate().map(|(j, _)| format!("{}:{}", ks[j].unwrap_or(900 + j), obs.frames_of[j])).collect::<Vec<_>>().join(" ")).trim_end().to_string()
    } else {
        "cut".to_string()
    });
    what.push("the wire".into());
    // 3. does the model call each cancelled send harmless to drop?
    for (k, c) in obs.calls.iter().enumerate() {
        if c == "cancelled" {
            lines.push(format!("Q atomic {} {}", transfers_of(case, k), case.buffer_size));
            imp.push(if transfers_of(case, k) <= case.buffer_size { "1".into() } else { "0".into() });
            what.push(format!("send {} goes the reserve-then-commit way", k));
        }
    }
    (lines, imp, what)
}

/// how many transfers the link layer makes of message `k` (`SenderLink::link_transfers`)
pub fn transfers_of(case: &SendCase, k: usize) -> usize {
    let m = case.max_message_size as usize;
    let len = encoded_len(k, case.sizes[k]);
    if m == 0 || len <= m {
        1
    } else {
        len.div_ceil(m)
    }
}

/// the class of a send-side finding: did a cancelled send carry a delivery of more transfers than
/// the link-to-session queue can ever hold? (such a delivery cannot be queued in one go)
fn oversize_suffix(case: &SendCase, obs: &SendObserved) -> &'static str {
    let over = obs.calls.iter().enumerate().any(|(k, c)| c == "cancelled" && transfers_of(case, k) > case.buffer_size);
    if over {
        ":cancelled-delivery-of-more-transfers-than-the-session-buffer-holds"
    } else {
        ""
    }
}

pub fn check_send(case: &SendCase, obs: &SendObserved) -> Option<(String, String)> {
    check_send_inner(case, obs).map(|(k, d)| {
        let sfx = if matches!(k.as_str(), "partial-delivery" | "credit-consumed-without-delivery" | "later-send-starved") { oversize_suffix(case, obs) } else { "" };
        (format!("{}{}", k, sfx), d)
    })
}

fn check_send_inner(case: &SendCase, obs: &SendObserved) -> Option<(String, String)> {
    // never partially
    if let Some((_, _, n)) = obs.deliveries.iter().find(|d| !d.0) {
        return Some(("partial-delivery".into(), format!("a delivery of {} bytes was begun and never completed; calls {:?}", n, obs.calls)));
    }
    let bodies: Vec<Option<usize>> = obs.deliveries.iter().map(|(_, b, _)| b.as_ref().and_then(|b| (0..case.sizes.len()).find(|k| *b == body_of(*k, case.sizes[*k])))).collect();
    if let Some(i) = bodies.iter().position(|b| b.is_none()) {
        return Some(("delivery-corrupted".into(), format!("delivery {} ({} bytes) is none of the messages sent; calls {:?}", i, obs.deliveries[i].2, obs.calls)));
    }
    let ks: Vec<usize> = bodies.iter().map(|b| b.unwrap()).collect();
    // at most once, in order
    for w in ks.windows(2) {
        if w[1] <= w[0] {
            return Some((if w[1] == w[0] { "delivered-twice".into() } else { "out-of-order".into() }, format!("messages arrived as {:?}; calls {:?}", ks, obs.calls)));
        }
    }
    // credit: one per delivery that went out, none for a send that was cancelled before anything went out
    if let Some(dc) = obs.final_delivery_count {
        if dc as usize != obs.deliveries.len() {
            return Some(("credit-consumed-without-delivery".into(), format!("the sender's delivery-count advanced by {} while {} deliveries went out; calls {:?}", dc, obs.deliveries.len(), obs.calls)));
        }
    }
    // every send that completed is there; a cancelled one may or may not be
    for (k, c) in obs.calls.iter().enumerate() {
        if c == "done" && !ks.contains(&k) {
            return Some(("completed-send-not-delivered".into(), format!("send {} returned but its message never arrived; arrived {:?}; calls {:?}", k, ks, obs.calls)));
        }
        if c.starts_with("error:") {
            return Some((
                if c.contains("timeout-20s") { "later-send-starved".into() } else { "later-send-fails".into() },
                format!("send {} (not cancelled) ended with {}; arrived {:?}; calls {:?}; credits granted {}", k, c, ks, obs.calls, obs.credits_granted),
            ));
        }
    }
    None
}

pub fn gen_recv_case(rng: &mut Rng) -> RecvCase {
    let n = rng.range(1, 5) as usize;
    let sizes: Vec<usize> = (0..n).map(|_| *rng.pick(&[0usize, 1, 10, 100, 1000])).collect();
    let cuts: Vec<Vec<u8>> = (0..n).map(|_| (0..rng.below(4)).map(|_| rng.range(1, 7) as u8).collect()).collect();
    let polls: Vec<u32> = (0..rng.range(1, 14)).map(|_| if rng.chance(1, 3) { 0 } else { rng.range(1, 6) as u32 }).collect();
    RecvCase { sizes, cuts, polls, auto_accept: rng.chance(1, 2), buffer_size: *rng.pick(&[1usize, 1, 2, 2048]), auto_credit: *rng.pick(&[1u32, 2, 5, 100]), gap_ms: *rng.pick(&[0u64, 0, 2]), settled: rng.chance(1, 3), fill: rng.chance(1, 3), start_delay_ms: *rng.pick(&[0u64, 0, 30]) }
}

pub fn gen_send_case(rng: &mut Rng) -> SendCase {
    let n = rng.range(1, 5) as usize;
    let max_message_size = *rng.pick(&[0u64, 0, 64, 200]);
    let sizes: Vec<usize> = (0..n).map(|_| *rng.pick(&[0usize, 10, 100, 150, 500])).collect();
    let polls: Vec<u32> = (0..n).map(|_| if rng.chance(1, 2) { 0 } else { rng.range(1, 8) as u32 }).collect();
    SendCase { sizes, polls, max_message_size, credit_delay_ms: *rng.pick(&[0u64, 0, 3, 20]), buffer_size: *rng.pick(&[1usize, 1, 2, 2048]), presettled: rng.chance(1, 3), credit_per_grant: *rng.pick(&[1u32, 1, 10]) }
}

pub fn main(opts: &Opts) {
    let mut report = Report::new(
        "C16",
        "recv: 1..5 messages (0..1000 bytes, cut into 1..4 frames, written at once or with pauses) against 1..14 successive recv calls, each \
         cancelled after 1..6 polls or left to complete, with and without auto-accept, credit Auto(1 / 2 / 5 / 100), link-to-session buffer \
         1 / 2 / 2048; send: 1..5 sends (0..500 bytes, with max-message-size none / 64 / 200, \
         link-to-session buffer 1 / 2 / 2048, credit granted one at a time with 0..20 ms delay), each cancelled after 1..8 polls or left to \
         complete; non-trivial = at least one call was cancelled; distinct by hash of the case",
    );
    if let Some(path) = &opts.replay {
        let j: J = serde_json::from_str(&std::fs::read_to_string(path).expect("read")).expect("json");
        if let Some(case) = j.get("recv").and_then(RecvCase::from_json) {
            let r = run_recv(&case);
            println!("{:?}", r.as_ref().map(|(g, c, n)| (g.iter().map(|b| b.len()).collect::<Vec<_>>(), c, n)));
            match r {
                Ok((got, _, notes)) => match check_recv(&case, &got, &notes) {
                    Some((k, d)) => {
                        println!("REPLAY: property violated [{}]: {}", k, d);
                        std::process::exit(1);
                    }
                    None => {
                        println!("REPLAY: property holds on this scenario");
                        std::process::exit(0);
                    }
                },
                Err(e) => {
                    println!("REPLAY: scenario failed: {}", e);
                    std::process::exit(1);
                }
            }
        }
        if let Some(case) = j.get("send").and_then(SendCase::from_json) {
            let r = run_send(&case);
            println!("{:?}", r);
            match r {
                Ok(obs) => match check_send(&case, &obs) {
                    Some((k, d)) => {
                        println!("REPLAY: property violated [{}]: {}", k, d);
                        std::process::exit(1);
                    }
                    None => {
                        println!("REPLAY: property holds on this scenario");
                        std::process::exit(0);
                    }
                },
                Err(e) => {
                    println!("REPLAY: scenario failed: {}", e);
                    std::process::exit(1);
                }
            }
        }
        std::process::exit(2);
    }
    let mut rng = Rng::new(opts.seed ^ 0xc16);
    let n: u64 = if opts.thorough() { 8000 } else { 600 };
    for k in 0..n {
        let case = gen_recv_case(&mut rng);
        report.evaluations += 1;
        match run_recv(&case) {
            Ok((got, cancelled, notes)) => {
                if cancelled > 0 {
                    report.nontrivial_case(fnv(&case.to_json().to_string()));
                }
                report.count_n("recv_calls_cancelled", cancelled as u64);
                if k % (n / 3).max(1) == 0 {
                    report.sample(json!({"recv": case.to_json()}));
                }
                if let Some((key, desc)) = check_recv(&case, &got, &notes) {
                    report.finding(Finding { kind: "violation", key: format!("recv:{}", key), description: desc, replay: json!({"property": "C16", "module": "cancel", "recv": case.to_json()}) });
                }
            }
            Err(e) => report.finding(Finding { kind: "violation", key: "recv:scenario-failed".into(), description: e, replay: json!({"property": "C16", "module": "cancel", "recv": case.to_json()}) }),
        }
    }
    let mut q_lines: Vec<String> = vec![];
    let mut q_imp: Vec<String> = vec![];
    let mut q_what: Vec<(String, J)> = vec![];
    let mut corpus: Vec<SendCase> = vec![];
    let mut rcorpus: Vec<RecvCase> = vec![];
    if let Ok(rd) = std::fs::read_dir(format!("{}/C16", std::env::var("VERIF_CORPUS").unwrap_or_else(|_| "/verif/corpus".into()))) {
        let mut files: Vec<_> = rd.filter_map(|e| e.ok()).map(|e| e.path()).collect();
        files.sort();
        for f in files {
            if let Ok(j) = serde_json::from_str::<J>(&std::fs::read_to_string(&f).unwrap_or_default()) {
                if let Some(c) = j.get("case").and_then(|c| c.get("send")).and_then(SendCase::from_json) {
                    corpus.push(c);
                }
                if let Some(c) = j.get("case").and_then(|c| c.get("recv")).and_then(RecvCase::from_json) {
                    rcorpus.push(c);
                }
            }
        }
    }
    report.count_n("corpus_cases", (corpus.len() + rcorpus.len()) as u64);
    for case in &rcorpus {
        report.evaluations += 1;
        match run_recv(case) {
            Ok((got, _, notes)) => {
                if let Some((key, desc)) = check_recv(case, &got, &notes) {
                    report.finding(Finding { kind: "violation", key: format!("recv:{}", key), description: desc, replay: json!({"property": "C16", "module": "cancel", "recv": case.to_json()}) });
                }
            }
            Err(e) => report.finding(Finding { kind: "violation", key: "recv:scenario-failed".into(), description: e, replay: json!({"property": "C16", "module": "cancel", "recv": case.to_json()}) }),
        }
    }
    for k in 0..(n + corpus.len() as u64) {
        let case = if (k as usize) < corpus.len() { corpus[k as usize].clone() } else { gen_send_case(&mut rng) };
        report.evaluations += 1;
        match run_send(&case) {
            Ok(obs) => {
                let (l, i, w) = model_lines(&case, &obs);
                for w in w {
                    q_what.push((w, case.to_json()));
                }
                q_lines.extend(l);
                q_imp.extend(i);
                let cancelled = obs.calls.iter().filter(|c| *c == "cancelled").count();
                if cancelled > 0 {
                    report.nontrivial_case(fnv(&case.to_json().to_string()));
                }
                report.count_n("send_calls_cancelled", cancelled as u64);
                if k % (n / 3).max(1) == 0 {
                    report.sample(json!({"send": case.to_json()}));
                }
                if let Some((key, desc)) = check_send(&case, &obs) {
                    report.finding(Finding { kind: "violation", key: format!("send:{}", key), description: desc, replay: json!({"property": "C16", "module": "cancel", "send": case.to_json()}) });
                }
            }
            Err(e) => report.finding(Finding { kind: "violation", key: "send:scenario-failed".into(), description: e, replay: json!({"property": "C16", "module": "cancel", "send": case.to_json()}) }),
        }
    }
    if driver_available() {
        match run_driver(&q_lines) {
            Ok(model) => {
                report.model_used = true;
                report.model_lines = model.len() as u64;
                let mut bad = 0;
                for i in 0..model.len().min(q_imp.len()) {
                    if model[i] != q_imp[i] {
                        if bad == 0 {
                            report.finding(Finding { kind: "disagreement", key: "model-vs-implementation".into(), description: format!("{} ({}) -> implementation {} model {}", q_lines[i], q_what[i].0, q_imp[i], model[i]), replay: json!({"property": "C16", "module": "cancel", "send": q_what[i].1, "line": q_lines[i], "implementation": q_imp[i], "model": model[i]}) });
                        }
                        bad += 1;
                    }
                }
                report.count_n("lines_disagreeing_with_model", bad);
            }
            Err(e) => report.notes.push(format!("model driver failed: {}", e)),
        }
    } else {
        report.notes.push("model driver not available: correspondence skipped".into());
    }
    report.write(&opts.report);
    println!("cancel: {} cases, {} non-trivial, {} findings", report.evaluations, report.nontrivial.len(), report.findings.len());
}
