//! C07 on the wire — the detached-session runs of `session.rs` cannot see what the layers
//! below the session do to a transfer.  Here a real `Sender` talks to a scripted receiving
//! peer which (a) re-opens its incoming-window only after a pause, so that a frame sent
//! beyond the window is seen as such, (b) asks for flows and compares the next-outgoing-id
//! they report with the number of transfer frames that actually arrived, and (c) checks
//! that every message gets through however small the window is.

use serde_json::json;

use crate::common::*;
use crate::e2e;

pub fn check(cfg: &e2e::Config, obs: &e2e::Observed) -> Option<(String, String)> {
    if obs.begin_next_outgoing_id != cfg.initial_outgoing_id {
        return Some(("begin-next-outgoing-id".into(), format!("begin carries next-outgoing-id {} for a session configured with {}", obs.begin_next_outgoing_id, cfg.initial_outgoing_id)));
    }
    if let Some(o) = obs.window_overruns.first() {
        return Some(("window-overrun".into(), o.clone()));
    }
    for (noi, frames) in &obs.client_flows {
        let expect = cfg.initial_outgoing_id.wrapping_add(*frames);
        if *noi != expect {
            return Some((
                "next-outgoing-id-not-per-frame".into(),
                format!("a flow reports next-outgoing-id {} after {} transfer frames were sent from initial id {} (expected {})", noi, frames, cfg.initial_outgoing_id, expect),
            ));
        }
    }
    if cfg.linger {
        if let Some(e) = obs.errors.first() {
            return Some(("stalled".into(), format!("{} after {} transfer frames / {} of {} deliveries; send results {:?}", e, obs.transfers.len(), obs.deliveries.len(), cfg.sizes.len(), obs.send_results)));
        }
        if obs.deliveries.len() != cfg.sizes.len() {
            return Some(("transfers-not-sent".into(), format!("{} of {} deliveries arrived although the window was re-opened every time; send results {:?}", obs.deliveries.len(), cfg.sizes.len(), obs.send_results)));
        }
        for (k, (_, _, body)) in obs.deliveries.iter().enumerate() {
            if *body != e2e::body_of(cfg.seed, k, cfg.sizes[k]) {
                return Some(("reordered-or-damaged".into(), format!("delivery {} does not carry the {}-th message", k, k)));
            }
        }
    }
    None
}

/// C06 on the wire of a whole endpoint: whatever the session window does to a delivery (frames held
/// back, the window re-opened a few frames at a time), its frames arrive in order — `more` on all but
/// the last, the payloads concatenating to the message
pub fn check_c06(cfg: &e2e::Config, obs: &e2e::Observed) -> Option<(String, String)> {
    if !cfg.linger || !obs.errors.is_empty() {
        return None;
    }
    for (k, (_, _, body)) in obs.deliveries.iter().enumerate() {
        if k < cfg.sizes.len() && *body != e2e::body_of(cfg.seed, k, cfg.sizes[k]) {
            return Some(("payloads-do-not-concatenate".into(), format!("delivery {}: the payloads of its transfer frames, in the order they arrived, are not the message (more flags {:?})", k, obs.transfers.iter().map(|t| t.more).collect::<Vec<_>>())));
        }
    }
    None
}

pub fn main(opts: &Opts) {
    let mut report = Report::new(
        "C07",
        "real Sender against a scripted receiver: windows 1..2048 re-opened after a pause, messages from 0 bytes to several frames \
         (cut by the frame-size layer and by the max-message-size layer), initial ids incl. 2^32-1; non-trivial = the window was \
         used up at least once or a delivery took several frames; distinct by hash of the configuration",
    );
    if let Some(path) = &opts.replay {
        let j: serde_json::Value = serde_json::from_str(&std::fs::read_to_string(path).expect("read")).expect("json");
        if let Some(cfg) = j.get("config").and_then(e2e::Config::from_json) {
            let obs = e2e::run(&cfg);
            for l in obs.trace.iter() {
                println!("{}", l);
            }
            println!("client flows (next-outgoing-id, frames seen): {:?}; overruns: {:?}; errors: {:?}", obs.client_flows, obs.window_overruns, obs.errors);
            match if opts.property == "C06" { check_c06(&cfg, &obs) } else { check(&cfg, &obs) } {
                Some((k, d)) => {
                    println!("REPLAY: property violated [{}]: {}", k, d);
                    std::process::exit(1);
                }
                None => {
                    println!("REPLAY: property holds on this scenario");
                    std::process::exit(0);
                }
            }
        }
        std::process::exit(2);
    }
    let mut rng = Rng::new(opts.seed ^ 0x5e55);
    // for C06 only the cut itself is judged (pieces, flags, sizes); the windows are C07's
    let c06 = opts.property == "C06";
    let n = if c06 { if opts.thorough() { 2000 } else { 200 } } else if opts.thorough() { 4000 } else { 400 };
    let corpus = if c06 { vec![] } else { e2e::corpus() };
    report.count_n("corpus_cases", corpus.len() as u64);
    for k in 0..(n + corpus.len() as u64) {
        let cfg = if (k as usize) < corpus.len() { corpus[k as usize].clone() } else { e2e::gen_config(&mut rng, k) };
        let obs = e2e::run(&cfg);
        report.evaluations += 1;
        report.count_n("transfer_frames", obs.transfers.len() as u64);
        report.count_n("client_flows_checked", obs.client_flows.len() as u64);
        let frames_needed: usize = obs.transfers.len();
        if frames_needed as u64 >= cfg.peer_incoming_window as u64 || obs.transfers.iter().any(|t| t.more) {
            report.nontrivial_case(fnv(&cfg.to_json().to_string()));
        }
        if frames_needed as u64 >= cfg.peer_incoming_window as u64 {
            report.count("scenarios_exhausting_the_window");
        }
        if k % (n / 3).max(1) == 0 {
            report.sample(cfg.to_json());
        }
        if c06 {
            if let Some((key, desc)) = check_c06(&cfg, &obs) {
                report.finding(Finding { kind: "violation", key, description: desc, replay: json!({"property": "C06", "module": "sessionwire", "config": cfg.to_json()}) });
            }
            continue;
        }
        if let Some((key, desc)) = check(&cfg, &obs) {
            report.finding(Finding { kind: "violation", key, description: desc, replay: json!({"property": "C07", "module": "sessionwire", "config": cfg.to_json(), "trace": obs.trace.iter().rev().take(30).rev().collect::<Vec<_>>()}) });
        }
    }
    split_correspondence(&mut rng, opts, &mut report);
    report.write(&opts.report);
    println!("sessionwire: {} cases, {} non-trivial, {} findings", report.evaluations, report.nontrivial.len(), report.findings.len());
}

/// `split_transfer` (session engine) against the model's `sessionSplit`, plus its contract
/// checked on the implementation alone
fn split_correspondence(rng: &mut Rng, opts: &Opts, report: &mut Report) {
    use fe2o3_amqp_types::definitions::{DeliveryTag, Handle, ReceiverSettleMode};
    use fe2o3_amqp_types::messaging::{Accepted, DeliveryState};
    use fe2o3_amqp_types::performatives::Transfer;
    let n = if opts.thorough() { 20000 } else { 2000 };
    let mut lines = vec![];
    let mut imp = vec![];
    let len_of = |t: &Transfer| -> usize {
        let mut t = t.clone();
        if t.delivery_tag.is_some() && t.delivery_id.is_none() {
            t.delivery_id = Some(u32::MAX);
        }
        serde_amqp::to_vec(&t).expect("encode").len()
    };
    for _ in 0..n {
        let with_tag = !rng.chance(1, 4);
        let t = Transfer {
            handle: Handle(*rng.pick(&[0u32, 1, 255, 256, u32::MAX])),
            delivery_id: if rng.chance(1, 5) { Some(rng.next() as u32) } else { None },
            delivery_tag: if with_tag { Some(DeliveryTag::from(vec![7u8; rng.range(0, 32) as usize])) } else { None },
            message_format: if with_tag { Some(0) } else { None },
            settled: if with_tag { Some(rng.chance(1, 2)) } else { None },
            more: rng.chance(1, 3),
            rcv_settle_mode: if rng.chance(1, 6) { Some(ReceiverSettleMode::Second) } else { None },
            state: if rng.chance(1, 6) { Some(DeliveryState::Accepted(Accepted {})) } else { None },
            resume: false,
            aborted: false,
            batchable: rng.chance(1, 3),
        };
        let b = match rng.below(6) {
            0 => rng.range(1, 60) as usize,
            1 => 504,
            2 => rng.range(61, 600) as usize,
            _ => *rng.pick(&[504usize, 592, 1016, 4088, 65528]),
        };
        let plen = match rng.below(6) {
            0 => 0,
            1 => rng.range(0, 40) as usize,
            2 => b.saturating_sub(rng.range(0, 80) as usize),
            3 => b + rng.range(0, 80) as usize,
            4 => 2 * b + rng.range(0, 80) as usize,
            _ => rng.range(0, 4 * b as u64 + 100) as usize,
        };
        let payload: Vec<u8> = (0..plen).map(|i| (i * 7 + 3) as u8).collect();
        let whole = len_of(&t);
        let mut first_t = t.clone();
        first_t.more = true;
        let first = len_of(&first_t);
        let mut rest_t = first_t.clone();
        rest_t.delivery_id = None;
        rest_t.delivery_tag = None;
        rest_t.message_format = None;
        rest_t.settled = None;
        rest_t.rcv_settle_mode = None;
        let rest = len_of(&rest_t);
        let mut last_t = rest_t.clone();
        last_t.more = t.more;
        report.evaluations += 1;
        let pieces = match fe2o3_amqp::verif::split_transfer(t.clone(), bytes::Bytes::from(payload.clone()), b) {
            Ok(p) => p,
            Err(e) => {
                report.finding(Finding { kind: "violation", key: "split-error".into(), description: e, replay: json!({"property": "C07", "module": "sessionwire", "split": {"b": b, "payload_len": plen}}) });
                continue;
            }
        };
        lines.push(format!("F ssplit {} {} {} {} {}", b, whole, first, rest, plen));
        let np = pieces.len();
        imp.push(
            pieces
                .iter()
                .enumerate()
                .map(|(i, (_, p))| format!("{}:{}", if np == 1 { "whole" } else if i == 0 { "first" } else if i + 1 == np { "last" } else { "cont" }, p.len()))
                .collect::<Vec<_>>()
                .join(" "),
        );
        if np > 1 {
            report.nontrivial_case(fnv(&format!("split{}/{}/{}/{}", b, whole, rest, plen)));
            report.count("split_cases_cut");
        }
        // contract on the implementation alone
        let cat: Vec<u8> = pieces.iter().flat_map(|(_, p)| p.to_vec()).collect();
        let mut bad: Option<String> = None;
        if cat != payload {
            bad = Some("the pieces do not concatenate to the payload".into());
        }
        let fallback = first >= b || rest >= b;
        for (i, (pt, pp)) in pieces.iter().enumerate() {
            let expect = if np == 1 { &t } else if i == 0 { &first_t } else if i + 1 == np { &last_t } else { &rest_t };
            if format!("{:?}", pt) != format!("{:?}", expect) {
                bad = Some(format!("piece {} of {} carries {:?}, expected {:?}", i, np, pt, expect));
            }
            // with any delivery-id the session may assign, the piece fits one frame body
            let mut real = pt.clone();
            if real.delivery_tag.is_some() && real.delivery_id.is_none() {
                real.delivery_id = Some(*rng.pick(&[0u32, 1, 255, 256, u32::MAX]));
            }
            let l = serde_amqp::to_vec(&real).expect("encode").len();
            if !(np == 1 && fallback && whole + plen > b) && l + pp.len() > b {
                bad = Some(format!("piece {} of {}: performative {} + payload {} bytes exceed the frame body {}", i, np, l, pp.len(), b));
            }
        }
        if let Some(d) = bad {
            report.finding(Finding { kind: "violation", key: "split-contract".into(), description: d, replay: json!({"property": "C07", "module": "sessionwire", "split": {"b": b, "payload_len": plen, "transfer": format!("{:?}", t)}}) });
        }
    }
    if driver_available() {
        match run_driver(&lines) {
            Ok(model) => {
                report.model_used = true;
                report.model_lines += model.len() as u64;
                let mut badn = 0;
                for i in 0..model.len().min(imp.len()) {
                    if model[i] != imp[i] {
                        if badn == 0 {
                            report.finding(Finding { kind: "disagreement", key: "model-vs-implementation".into(), description: format!("{} -> implementation [{}] model [{}]", lines[i], imp[i], model[i]), replay: json!({"property": "C07", "module": "sessionwire", "line": lines[i], "implementation": imp[i], "model": model[i]}) });
                        }
                        badn += 1;
                    }
                }
                report.count_n("split_lines_disagreeing_with_model", badn);
            }
            Err(e) => report.notes.push(format!("model driver failed: {}", e)),
        }
    } else {
        report.notes.push("model driver not available: correspondence skipped".into());
    }
}
