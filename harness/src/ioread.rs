//! C20 — the two readers the deserializer is written against: random sequences of the `Read`
//! trait's operations on an `IoReader` over a chunked (and once interrupted) stream and on a
//! `SliceReader` over the same bytes.  Oracle: the two give the same results and count the same
//! bytes consumed (up to the first failure).  Correspondence: the model `Amqp.IoRead` on the same
//! operations (`I io …`).

use serde_amqp::read::{IoReader, Read, SliceReader};
use serde_json::json;

use crate::common::*;

#[derive(Clone, Debug)]
enum Op {
    Peek,
    Next,
    PeekBytes(usize),
    ReadBytes(usize),
}

impl Op {
    fn word(&self) -> String {
        match self {
            Op::Peek => "p".into(),
            Op::Next => "n".into(),
            Op::PeekBytes(n) => format!("k{}", n),
            Op::ReadBytes(n) => format!("r{}", n),
        }
    }
}

struct Stream<'a> {
    data: &'a [u8],
    pos: usize,
    chunk: usize,
    interrupt_at: Option<usize>,
    calls: usize,
    eof_calls: usize,
}

impl std::io::Read for Stream<'_> {
    fn read(&mut self, buf: &mut [u8]) -> std::io::Result<usize> {
        let call = self.calls;
        self.calls += 1;
        if self.interrupt_at == Some(call) {
            return Err(std::io::Error::new(std::io::ErrorKind::Interrupted, "EINTR"));
        }
        let n = buf.len().min(self.chunk).min(self.data.len() - self.pos);
        if n == 0 && !buf.is_empty() {
            self.eof_calls += 1;
            if self.eof_calls > 1000 {
                panic!("the reader keeps asking the stream after its end");
            }
        }
        buf[..n].copy_from_slice(&self.data[self.pos..self.pos + n]);
        self.pos += n;
        Ok(n)
    }
}

fn h(b: &[u8]) -> String {
    if b.is_empty() {
        ".".into()
    } else {
        hex(b)
    }
}

/// runs the operations; returns the per-operation results (stopping at the first failure) and the count of bytes consumed
fn run<'de, R: Read<'de>>(r: &mut R, ops: &[Op]) -> (Vec<String>, usize) {
    let mut out = vec![];
    for op in ops {
        match op {
            Op::Peek => out.push(match r.peek() {
                Some(b) => format!("p:{}", h(&[b])),
                None => "p:-".into(),
            }),
            Op::Next => match r.next() {
                Ok(Some(b)) => out.push(format!("n:{}", h(&[b]))),
                _ => {
                    out.push("n:E".into());
                    break;
                }
            },
            Op::PeekBytes(n) => match r.peek_bytes(*n) {
                Ok(Some(bs)) => out.push(format!("k:{}", h(bs))),
                _ => {
                    out.push("k:E".into());
                    break;
                }
            },
            Op::ReadBytes(n) => match r.read_bytes(*n) {
                Ok(bs) => out.push(format!("r:{}", h(&bs))),
                Err(_) => {
                    out.push("r:E".into());
                    break;
                }
            },
        }
    }
    // after a failure the decoder stops: what the readers then report as consumed is not compared
    let failed = out.last().map(|w| w.ends_with(":E")).unwrap_or(false);
    (out, if failed { usize::MAX } else { r.bytes_consumed() })
}

pub fn main(opts: &Opts) {
    let mut report = Report::new("C20", "random sequences of peek / next / peek_bytes / read_bytes on an IoReader over a chunked stream (chunks of 1..9 bytes, one retryable interruption at a random read call) and on a SliceReader over the same bytes; results and bytes consumed compared with each other and with the model Amqp.IoRead");
    let mut rng = Rng::new(opts.seed ^ 0x10ead);
    let n = if opts.thorough() { 40000 } else { 4000 };
    let mut lines = vec![];
    let mut expect: Vec<(String, serde_json::Value)> = vec![];
    for k in 0..n {
        let len = match rng.below(6) {
            0 => 0,
            1 => rng.below(4) as usize,
            _ => rng.below(40) as usize,
        };
        let data: Vec<u8> = (0..len).map(|_| rng.next() as u8).collect();
        let nops = 1 + rng.below(8) as usize;
        let ops: Vec<Op> = (0..nops)
            .map(|_| match rng.below(6) {
                0 | 1 => Op::Peek,
                2 => Op::Next,
                3 => Op::PeekBytes(rng.below(12) as usize),
                _ => Op::ReadBytes(rng.below(14) as usize),
            })
            .collect();
        let chunk = 1 + rng.below(9) as usize;
        let interrupt_at = if rng.chance(1, 2) { Some(rng.below(10) as usize) } else { None };
        report.evaluations += 1;
        let words: Vec<String> = ops.iter().map(|o| o.word()).collect();
        let replay = json!({"property": "C20", "module": "ioread", "data": hex(&data), "ops": words, "chunk": chunk, "interrupt_at": interrupt_at});
        let slice = {
            let mut r = SliceReader::new(&data);
            run(&mut r, &ops)
        };
        let data2 = data.clone();
        let ops2 = ops.clone();
        let io = std::panic::catch_unwind(move || {
            let mut r = IoReader::new(Stream { data: &data2, pos: 0, chunk, interrupt_at, calls: 0, eof_calls: 0 });
            run(&mut r, &ops2)
        });
        let io = match io {
            Ok(x) => x,
            Err(_) => {
                report.finding(Finding { kind: "violation", key: "io-reader-panics-or-spins".into(), description: format!("IoReader over {} (chunks of {}) panicked or kept asking the stream after its end on {}", h(&data), chunk, words.join(" ")), replay });
                continue;
            }
        };
        if io.0.iter().any(|w| w.ends_with(":E")) || k % 3 == 0 {
            report.nontrivial_case(fnv(&format!("{}{:?}", hex(&data), words)));
        }
        // a slice reader's `next` at the end of the input is Ok(None), the io reader's an error: both are the end
        if slice != io {
            report.finding(Finding { kind: "violation", key: "io-vs-slice:reader-ops".into(), description: format!("on {} the operations {}: slice reader {:?} / {} bytes consumed, io reader (chunks of {}, interruption at {:?}) {:?} / {} bytes consumed", h(&data), words.join(" "), slice.0, slice.1, chunk, interrupt_at, io.0, io.1), replay: replay.clone() });
        }
        lines.push(format!("I io {} {}", if data.is_empty() { "-".to_string() } else { hex(&data) }, words.join(" ")));
        expect.push((format!("{} #{}", io.0.join(" "), if io.1 == usize::MAX { "?".to_string() } else { io.1.to_string() }), replay));
    }
    if driver_available() {
        match run_driver(&lines) {
            Ok(got) => {
                report.model_used = true;
                report.model_lines = got.len() as u64;
                for ((line, g), (want, rp)) in lines.iter().zip(got.iter()).zip(expect.iter()) {
                    let g2 = if want.ends_with("#?") { format!("{}#?", &g[..g.rfind('#').unwrap_or(g.len())]) } else { g.clone() };
                    if &g2 != want {
                        report.finding(Finding { kind: "disagreement", key: "ioread-model".into(), description: format!("{}: model `{}`, implementation `{}`", line, g, want), replay: json!({"line": line, "model": g, "implementation": want, "case": rp}) });
                    }
                }
            }
            Err(e) => report.notes.push(format!("model driver failed: {}", e)),
        }
    } else {
        report.notes.push("model driver not available: correspondence not run".into());
    }
    report.write(&opts.report);
    println!("ioread: {} cases, {} non-trivial, {} findings", report.evaluations, report.nontrivial.len(), report.findings.len());
}
