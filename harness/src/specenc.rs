//! C05 — encodings are valid AMQP 1.0, and every valid encoding variant is accepted.
//!
//! An encoder and a decoder written from the specification alone (part 1, §1.2 / §1.6) stand
//! against `serde_amqp`:
//!
//!  * `to_vec(v)` is parsed by the reference decoder, which checks every size and count field,
//!    the one-constructor-per-array rule and the described-type layout, and must give `v` back;
//!  * the reference encoder, making random choices among the permitted variants at every node
//!    (zero / one-byte / full-width integers, 0x56 booleans, 8- / 32-bit lengths, list0 / list8 /
//!    list32, map8 / map32, array8 / array32, compact array constructors, descriptor ulong
//!    variants), feeds `from_slice`, which must give `v` back; its bytes are compared with the
//!    Lean specification `Amqp.CodecSpec.sEnc` for the same choices;
//!  * typed composites (performatives, delivery states, message sections): the same value written
//!    with trailing nulls present or elided, defaults explicit or null, descriptor by code or by
//!    name, list8 or list32, must decode to the same typed value.

use fe2o3_amqp_types::definitions::{self, AmqpError, Handle, ReceiverSettleMode, Role, SenderSettleMode};
use fe2o3_amqp_types::messaging::{Accepted, DeliveryState, Modified, Received, Rejected, Released};
use fe2o3_amqp_types::performatives::*;
use serde_amqp::described::Described;
use serde_amqp::descriptor::Descriptor;
use serde_amqp::primitives::Array;
use serde_amqp::Value;
use serde_json::{json, Value as J};

use crate::codec::{gen_value, out_of_scope, show};
use crate::common::*;

// ------------------------------------------------------------------------------- reference decoder

fn be(b: &[u8]) -> usize {
    b.iter().fold(0usize, |a, x| (a << 8) | *x as usize)
}

fn need(b: &[u8], n: usize) -> Result<(), String> {
    if b.len() < n {
        Err(format!("needs {} bytes, {} left", n, b.len()))
    } else {
        Ok(())
    }
}

/// bare data of a value whose constructor is `c`; returns (text, bytes consumed)
fn ref_body(c: u8, b: &[u8], depth: u32) -> Result<(String, usize), String> {
    if depth > 40 {
        return Err("too deep".into());
    }
    let fx = |k: usize, w: usize| -> Result<(String, usize), String> {
        need(b, w)?;
        Ok((format!("x{}.{}", k, hex(&b[..w])), w))
    };
    match c {
        0x40 => Ok(("n".into(), 0)),
        0x41 => Ok(("t".into(), 0)),
        0x42 => Ok(("f".into(), 0)),
        0x56 => {
            need(b, 1)?;
            match b[0] {
                0 => Ok(("f".into(), 1)),
                1 => Ok(("t".into(), 1)),
                x => Err(format!("boolean byte {}", x)),
            }
        }
        0x50 => fx(0, 1),
        0x60 => fx(1, 2),
        0x70 => fx(2, 4),
        0x52 => {
            need(b, 1)?;
            Ok((format!("x2.000000{:02x}", b[0]), 1))
        }
        0x43 => Ok(("x2.00000000".into(), 0)),
        0x80 => fx(3, 8),
        0x53 => {
            need(b, 1)?;
            Ok((format!("x3.00000000000000{:02x}", b[0]), 1))
        }
        0x44 => Ok(("x3.0000000000000000".into(), 0)),
        0x51 => fx(4, 1),
        0x61 => fx(5, 2),
        0x71 => fx(6, 4),
        0x54 => {
            need(b, 1)?;
            let e = if b[0] >= 128 { "ffffff" } else { "000000" };
            Ok((format!("x6.{}{:02x}", e, b[0]), 1))
        }
        0x81 => fx(7, 8),
        0x55 => {
            need(b, 1)?;
            let e = if b[0] >= 128 { "ffffffffffffff" } else { "00000000000000" };
            Ok((format!("x7.{}{:02x}", e, b[0]), 1))
        }
        0x72 => fx(8, 4),
        0x82 => fx(9, 8),
        0x74 => fx(10, 4),
        0x84 => fx(11, 8),
        0x94 => fx(12, 16),
        0x73 => {
            need(b, 4)?;
            let n = be(&b[..4]) as u32;
            if char::from_u32(n).is_none() {
                return Err(format!("char {:#x}", n));
            }
            fx(13, 4)
        }
        0x83 => fx(14, 8),
        0x98 => fx(15, 16),
        0xa0 | 0xa1 | 0xa3 | 0xb0 | 0xb1 | 0xb3 => {
            let w = if c & 0x10 == 0 { 1 } else { 4 };
            need(b, w)?;
            let len = be(&b[..w]);
            need(&b[w..], len)?;
            let data = &b[w..w + len];
            let k = match c & 0x0f {
                0 => 0,
                1 => 1,
                _ => 2,
            };
            if k != 0 && std::str::from_utf8(data).is_err() {
                return Err("not UTF-8".into());
            }
            Ok((format!("y{}.{}", k, hex(data)), w + len))
        }
        0x45 => Ok(("l()".into(), 0)),
        0xc0 | 0xd0 | 0xc1 | 0xd1 => {
            let w = if c & 0x10 == 0 { 1 } else { 4 };
            need(b, 2 * w)?;
            let size = be(&b[..w]);
            let count = be(&b[w..2 * w]);
            need(&b[w..], size)?;
            if size < w {
                return Err("size smaller than the count field".into());
            }
            let is_map = c & 0x0f == 1;
            if is_map && count % 2 != 0 {
                return Err("odd map count".into());
            }
            let mut pos = 2 * w;
            let mut items = vec![];
            for _ in 0..count {
                let (t, n) = ref_value(&b[pos..w + size], depth + 1)?;
                items.push(t);
                pos += n;
            }
            if pos != w + size {
                return Err(format!("size field says {} bytes, the {} elements take {}", size, count, pos - w));
            }
            Ok((format!("{}({})", if is_map { "m" } else { "l" }, items.join(",")), pos))
        }
        0xe0 | 0xf0 => {
            let w = if c & 0x10 == 0 { 1 } else { 4 };
            need(b, 2 * w)?;
            let size = be(&b[..w]);
            let count = be(&b[w..2 * w]);
            need(&b[w..], size)?;
            if size < w {
                return Err("size smaller than the count field".into());
            }
            if count == 0 && size == w {
                // no constructor at all: tolerated for an empty array
                return Ok(("a()".into(), 2 * w));
            }
            let mut pos = 2 * w;
            need(&b[pos..], 1)?;
            let ec = b[pos];
            pos += 1;
            if ec == 0x00 {
                return Err("array of described values: not handled by the reference".into());
            }
            let mut items = vec![];
            for _ in 0..count {
                let (t, n) = ref_body(ec, &b[pos..w + size], depth + 1)?;
                items.push(t);
                pos += n;
            }
            if pos != w + size {
                return Err(format!("array size field says {} bytes, constructor and {} elements take {}", size, count, pos - w));
            }
            Ok((format!("a({})", items.join(",")), pos))
        }
        other => Err(format!("constructor {:#04x}", other)),
    }
}

/// a constructor followed by its data
pub fn ref_value(b: &[u8], depth: u32) -> Result<(String, usize), String> {
    need(b, 1)?;
    if b[0] == 0x00 {
        let (d, n1) = ref_value(&b[1..], depth + 1)?;
        if !(d.starts_with("y2.") || d.starts_with("x3.")) {
            return Err(format!("descriptor {} is neither a symbol nor an unsigned long", d));
        }
        let (v, n2) = ref_value(&b[1 + n1..], depth + 1)?;
        return Ok((format!("d({},{})", d, v), 1 + n1 + n2));
    }
    let (t, n) = ref_body(b[0], &b[1..], depth)?;
    Ok((t, 1 + n))
}

// ------------------------------------------------------------------------------- reference encoder

fn be32(n: usize) -> [u8; 4] {
    (n as u32).to_be_bytes()
}

/// (constructor candidates, data) for an array element; `all` = the elements of the array
fn elem_forms(all: &[Value]) -> Vec<(u8, Box<dyn Fn(&Value) -> Vec<u8>>)> {
    let mut v: Vec<(u8, Box<dyn Fn(&Value) -> Vec<u8>>)> = vec![];
    macro_rules! full {
        ($code:expr, $pat:pat => $e:expr) => {
            v.push(($code, Box::new(|x: &Value| match x {
                $pat => $e,
                _ => vec![],
            })))
        };
    }
    match &all[0] {
        Value::Bool(_) => {
            full!(0x56, Value::Bool(b) => vec![*b as u8]);
            if all.iter().all(|x| matches!(x, Value::Bool(true))) {
                v.push((0x41, Box::new(|_| vec![])));
            }
            if all.iter().all(|x| matches!(x, Value::Bool(false))) {
                v.push((0x42, Box::new(|_| vec![])));
            }
        }
        Value::Ubyte(_) => full!(0x50, Value::Ubyte(n) => n.to_be_bytes().to_vec()),
        Value::Ushort(_) => full!(0x60, Value::Ushort(n) => n.to_be_bytes().to_vec()),
        Value::Uint(_) => {
            full!(0x70, Value::Uint(n) => n.to_be_bytes().to_vec());
            if all.iter().all(|x| matches!(x, Value::Uint(n) if *n < 256)) {
                full!(0x52, Value::Uint(n) => vec![*n as u8]);
            }
            if all.iter().all(|x| matches!(x, Value::Uint(0))) {
                v.push((0x43, Box::new(|_| vec![])));
            }
        }
        Value::Ulong(_) => {
            full!(0x80, Value::Ulong(n) => n.to_be_bytes().to_vec());
            if all.iter().all(|x| matches!(x, Value::Ulong(n) if *n < 256)) {
                full!(0x53, Value::Ulong(n) => vec![*n as u8]);
            }
            if all.iter().all(|x| matches!(x, Value::Ulong(0))) {
                v.push((0x44, Box::new(|_| vec![])));
            }
        }
        Value::Byte(_) => full!(0x51, Value::Byte(n) => n.to_be_bytes().to_vec()),
        Value::Short(_) => full!(0x61, Value::Short(n) => n.to_be_bytes().to_vec()),
        Value::Int(_) => {
            full!(0x71, Value::Int(n) => n.to_be_bytes().to_vec());
            if all.iter().all(|x| matches!(x, Value::Int(n) if *n >= -128 && *n < 128)) {
                full!(0x54, Value::Int(n) => vec![*n as i8 as u8]);
            }
        }
        Value::Long(_) => {
            full!(0x81, Value::Long(n) => n.to_be_bytes().to_vec());
            if all.iter().all(|x| matches!(x, Value::Long(n) if *n >= -128 && *n < 128)) {
                full!(0x55, Value::Long(n) => vec![*n as i8 as u8]);
            }
        }
        Value::Float(_) => full!(0x72, Value::Float(f) => f.into_inner().to_be_bytes().to_vec()),
        Value::Double(_) => full!(0x82, Value::Double(f) => f.into_inner().to_be_bytes().to_vec()),
        Value::Decimal32(_) => full!(0x74, Value::Decimal32(d) => d.clone().into_inner().to_vec()),
        Value::Decimal64(_) => full!(0x84, Value::Decimal64(d) => d.clone().into_inner().to_vec()),
        Value::Decimal128(_) => full!(0x94, Value::Decimal128(d) => d.clone().into_inner().to_vec()),
        Value::Char(_) => full!(0x73, Value::Char(c) => (*c as u32).to_be_bytes().to_vec()),
        Value::Timestamp(_) => full!(0x83, Value::Timestamp(t) => t.milliseconds().to_be_bytes().to_vec()),
        Value::Uuid(_) => full!(0x98, Value::Uuid(u) => u.clone().into_inner().to_vec()),
        Value::Binary(_) | Value::String(_) | Value::Symbol(_) => {
            fn data(x: &Value) -> Vec<u8> {
                match x {
                    Value::Binary(b) => b.to_vec(),
                    Value::String(s) => s.as_bytes().to_vec(),
                    Value::Symbol(s) => s.0.as_bytes().to_vec(),
                    _ => vec![],
                }
            }
            let base = match &all[0] {
                Value::Binary(_) => 0,
                Value::String(_) => 1,
                _ => 3,
            };
            v.push((0xb0 | base, Box::new(|x: &Value| {
                let d = data(x);
                [be32(d.len()).to_vec(), d].concat()
            })));
            if all.iter().all(|x| data(x).len() < 256) {
                v.push((0xa0 | base, Box::new(|x: &Value| {
                    let d = data(x);
                    [vec![d.len() as u8], d].concat()
                })));
            }
        }
        _ => {}
    }
    v
}

thread_local! {
    /// arrays written with a compact element constructor that the Lean specification models
    pub static COMPACT_MODELLED: std::cell::Cell<u64> = const { std::cell::Cell::new(0) };
}

/// encodes `v` making random choices; returns the bytes and the choices as a text tree for the Lean
/// specification (`None` where it made a choice the Lean specification does not model)
pub fn ref_enc(v: &Value, rng: &mut Rng, ch: &mut String, modelled: &mut bool) -> Vec<u8> {
    let scalar = |code: u8, data: Vec<u8>| [vec![code], data].concat();
    macro_rules! leaf {
        ($form:expr, $wide:expr) => {
            ch.push_str(&format!("l{}{}", $form, if $wide { 1 } else { 0 }))
        };
    }
    match v {
        Value::Null => {
            leaf!(0, false);
            vec![0x40]
        }
        Value::Bool(b) => {
            if rng.chance(1, 2) {
                leaf!(1, false);
                vec![0x56, *b as u8]
            } else {
                leaf!(0, false);
                vec![if *b { 0x41 } else { 0x42 }]
            }
        }
        Value::Uint(n) => {
            let mut forms = vec![0];
            if *n < 256 {
                forms.push(1);
            }
            if *n == 0 {
                forms.push(2);
            }
            let f = *rng.pick(&forms);
            leaf!(f, false);
            match f {
                0 => scalar(0x70, n.to_be_bytes().to_vec()),
                1 => vec![0x52, *n as u8],
                _ => vec![0x43],
            }
        }
        Value::Ulong(n) => {
            let mut forms = vec![0];
            if *n < 256 {
                forms.push(1);
            }
            if *n == 0 {
                forms.push(2);
            }
            let f = *rng.pick(&forms);
            leaf!(f, false);
            match f {
                0 => scalar(0x80, n.to_be_bytes().to_vec()),
                1 => vec![0x53, *n as u8],
                _ => vec![0x44],
            }
        }
        Value::Int(n) => {
            let small = *n >= -128 && *n < 128 && rng.chance(1, 2);
            leaf!(if small { 1 } else { 0 }, false);
            if small {
                vec![0x54, *n as i8 as u8]
            } else {
                scalar(0x71, n.to_be_bytes().to_vec())
            }
        }
        Value::Long(n) => {
            let small = *n >= -128 && *n < 128 && rng.chance(1, 2);
            leaf!(if small { 1 } else { 0 }, false);
            if small {
                vec![0x55, *n as i8 as u8]
            } else {
                scalar(0x81, n.to_be_bytes().to_vec())
            }
        }
        Value::Binary(_) | Value::String(_) | Value::Symbol(_) => {
            let (base, d): (u8, Vec<u8>) = match v {
                Value::Binary(b) => (0, b.to_vec()),
                Value::String(s) => (1, s.as_bytes().to_vec()),
                Value::Symbol(s) => (3, s.0.as_bytes().to_vec()),
                _ => unreachable!(),
            };
            let wide = d.len() >= 256 || rng.chance(1, 2);
            leaf!(0, wide);
            if wide {
                [vec![0xb0 | base], be32(d.len()).to_vec(), d].concat()
            } else {
                [vec![0xa0 | base, d.len() as u8], d].concat()
            }
        }
        Value::List(vs) => {
            if vs.is_empty() && rng.chance(1, 2) {
                ch.push_str("k01[]");
                return vec![0x45];
            }
            let mut cs: Vec<String> = vec![];
            let mut body = vec![];
            for x in vs {
                let mut c = String::new();
                body.extend(ref_enc(x, rng, &mut c, modelled));
                cs.push(c);
            }
            let wide = body.len() + 1 >= 256 || vs.len() >= 256 || rng.chance(1, 2);
            ch.push_str(&format!("k{}0[{}]", if wide { 1 } else { 0 }, cs.join(";")));
            if wide {
                [vec![0xd0], be32(body.len() + 4).to_vec(), be32(vs.len()).to_vec(), body].concat()
            } else {
                [vec![0xc0, (body.len() + 1) as u8, vs.len() as u8], body].concat()
            }
        }
        Value::Map(m) => {
            let mut cs: Vec<String> = vec![];
            let mut body = vec![];
            for (k, x) in m.iter() {
                let mut c = String::new();
                body.extend(ref_enc(k, rng, &mut c, modelled));
                cs.push(c);
                let mut c = String::new();
                body.extend(ref_enc(x, rng, &mut c, modelled));
                cs.push(c);
            }
            let wide = body.len() + 1 >= 256 || 2 * m.len() >= 256 || rng.chance(1, 2);
            ch.push_str(&format!("k{}0[{}]", if wide { 1 } else { 0 }, cs.join(";")));
            if wide {
                [vec![0xd1], be32(body.len() + 4).to_vec(), be32(2 * m.len()).to_vec(), body].concat()
            } else {
                [vec![0xc1, (body.len() + 1) as u8, (2 * m.len()) as u8], body].concat()
            }
        }
        Value::Array(a) => {
            let vs = &a.0;
            if vs.is_empty() {
                let wide = rng.chance(1, 2);
                ch.push_str(&format!("k{}0[]", if wide { 1 } else { 0 }));
                return if wide { [vec![0xf0], be32(4).to_vec(), be32(0).to_vec()].concat() } else { vec![0xe0, 1, 0] };
            }
            let forms = elem_forms(vs);
            if forms.is_empty() {
                *modelled = false;
                return serde_amqp::to_vec(v).unwrap_or_default();
            }
            let i = rng.below(forms.len() as u64) as usize;
            let (code, f) = &forms[i];
            // the element choice, as the single child of the array's node: one-byte integers (form 1),
            // 8-bit lengths (wide 0); zero-width element constructors are not part of the Lean specification
            let child = if i == 0 {
                ""
            } else {
                match *code {
                    0x52 | 0x53 | 0x54 | 0x55 => "l10",
                    0xa0 | 0xa1 | 0xa3 => "l00",
                    _ => {
                        *modelled = false;
                        ch.push_str(&format!("!{:02x}", code));
                        ""
                    }
                }
            };
            if !child.is_empty() {
                COMPACT_MODELLED.with(|c| c.set(c.get() + 1));
            }
            let body: Vec<u8> = vs.iter().flat_map(|x| f(x)).collect();
            let wide = body.len() + 2 >= 256 || vs.len() >= 256 || rng.chance(1, 2);
            ch.push_str(&format!("k{}0[{}]", if wide { 1 } else { 0 }, child));
            if wide {
                [vec![0xf0], be32(body.len() + 5).to_vec(), be32(vs.len()).to_vec(), vec![*code], body].concat()
            } else {
                [vec![0xe0, (body.len() + 2) as u8, vs.len() as u8, *code], body].concat()
            }
        }
        Value::Described(d) => {
            let dv = match &d.descriptor {
                Descriptor::Code(c) => Value::Ulong(*c),
                Descriptor::Name(s) => Value::Symbol(s.clone()),
            };
            let mut cd = String::new();
            let a = ref_enc(&dv, rng, &mut cd, modelled);
            let mut cv = String::new();
            let b = ref_enc(&d.value, rng, &mut cv, modelled);
            ch.push_str(&format!("d[{};{}]", cd, cv));
            [vec![0x00], a, b].concat()
        }
        other => {
            // the remaining fixed-width kinds have one encoding
            leaf!(0, false);
            serde_amqp::to_vec(other).unwrap_or_default()
        }
    }
}

// ------------------------------------------------------------------------------- typed composites

/// (descriptor code, descriptor name, number of fields) of the composites used below (spec part 2 and 3)
const COMPOSITES: &[(u64, &str, usize)] = &[
    (0x10, "amqp:open:list", 10),
    (0x11, "amqp:begin:list", 8),
    (0x12, "amqp:attach:list", 14),
    (0x13, "amqp:flow:list", 11),
    (0x14, "amqp:transfer:list", 11),
    (0x15, "amqp:disposition:list", 6),
    (0x16, "amqp:detach:list", 3),
    (0x17, "amqp:end:list", 1),
    (0x18, "amqp:close:list", 1),
    (0x1d, "amqp:error:list", 3),
    (0x23, "amqp:received:list", 2),
    (0x24, "amqp:accepted:list", 0),
    (0x25, "amqp:rejected:list", 1),
    (0x26, "amqp:released:list", 0),
    (0x27, "amqp:modified:list", 3),
    (0x28, "amqp:source:list", 11),
    (0x29, "amqp:target:list", 7),
];

/// rewrites every known composite inside `v`: descriptor by name or by code, trailing nulls padded or elided
fn vary_composites(v: &Value, rng: &mut Rng, note: &mut Vec<String>) -> Value {
    match v {
        Value::Described(d) => {
            let code = match &d.descriptor {
                Descriptor::Code(c) => Some(*c),
                Descriptor::Name(s) => COMPOSITES.iter().find(|c| c.1 == s.0).map(|c| c.0),
            };
            let inner = vary_composites(&d.value, rng, note);
            match (code.and_then(|c| COMPOSITES.iter().find(|x| x.0 == c)), inner) {
                (Some((c, name, nfields)), Value::List(mut fields)) => {
                    // trailing nulls: all present, or all elided
                    while matches!(fields.last(), Some(Value::Null)) {
                        fields.pop();
                    }
                    if rng.chance(1, 2) {
                        while fields.len() < *nfields {
                            fields.push(Value::Null);
                        }
                        note.push(format!("{}:padded", name));
                    } else {
                        note.push(format!("{}:elided", name));
                    }
                    let descriptor = if rng.chance(1, 2) {
                        note.push(format!("{}:by-name", name));
                        Descriptor::Name(serde_amqp::primitives::Symbol::from(*name))
                    } else {
                        Descriptor::Code(*c)
                    };
                    Value::Described(Box::new(Described { descriptor, value: Value::List(fields) }))
                }
                (_, inner) => Value::Described(Box::new(Described { descriptor: d.descriptor.clone(), value: inner })),
            }
        }
        Value::List(vs) => Value::List(vs.iter().map(|x| vary_composites(x, rng, note)).collect()),
        Value::Map(m) => Value::Map(m.iter().map(|(k, x)| (k.clone(), vary_composites(x, rng, note))).collect()),
        other => other.clone(),
    }
}

fn typed_samples() -> Vec<Performative> {
    let err = || definitions::Error::new(AmqpError::InternalError, Some("x".to_string()), None);
    vec![
        Performative::Open(Open { container_id: "c".into(), hostname: Some("h".into()), max_frame_size: 512.into(), channel_max: 7.into(), idle_time_out: Some(1000), outgoing_locales: None, incoming_locales: None, offered_capabilities: None, desired_capabilities: None, properties: None }),
        Performative::Open(Open { container_id: "only-the-mandatory-field".into(), hostname: None, max_frame_size: Default::default(), channel_max: Default::default(), idle_time_out: None, outgoing_locales: None, incoming_locales: None, offered_capabilities: None, desired_capabilities: None, properties: None }),
        Performative::Begin(Begin { remote_channel: Some(1), next_outgoing_id: 2, incoming_window: 3, outgoing_window: 4, handle_max: Handle(5), offered_capabilities: None, desired_capabilities: None, properties: None }),
        Performative::Begin(Begin { remote_channel: None, next_outgoing_id: 0, incoming_window: 0, outgoing_window: 0, handle_max: Default::default(), offered_capabilities: None, desired_capabilities: None, properties: None }),
        Performative::Attach(Attach { name: "l".into(), handle: Handle(1), role: Role::Sender, snd_settle_mode: SenderSettleMode::Settled, rcv_settle_mode: ReceiverSettleMode::Second, source: Some(Box::new(Default::default())), target: Some(Box::new(fe2o3_amqp_types::messaging::Target::default().into())), unsettled: None, incomplete_unsettled: true, initial_delivery_count: Some(0), max_message_size: Some(100), offered_capabilities: None, desired_capabilities: None, properties: None }),
        Performative::Attach(Attach { name: "defaults".into(), handle: Handle(0), role: Role::Receiver, snd_settle_mode: Default::default(), rcv_settle_mode: Default::default(), source: None, target: None, unsettled: None, incomplete_unsettled: false, initial_delivery_count: None, max_message_size: None, offered_capabilities: None, desired_capabilities: None, properties: None }),
        Performative::Flow(Flow { next_incoming_id: Some(1), incoming_window: 2, next_outgoing_id: 3, outgoing_window: 4, handle: Some(Handle(5)), delivery_count: Some(6), link_credit: Some(7), available: Some(8), drain: true, echo: true, properties: None }),
        Performative::Flow(Flow { next_incoming_id: None, incoming_window: 0, next_outgoing_id: 0, outgoing_window: 0, handle: None, delivery_count: None, link_credit: None, available: None, drain: false, echo: false, properties: None }),
        Performative::Transfer(Transfer { handle: Handle(1), delivery_id: Some(2), delivery_tag: Some(vec![1u8, 2, 3].into()), message_format: Some(0), settled: Some(false), more: true, rcv_settle_mode: None, state: Some(DeliveryState::Accepted(Accepted {})), resume: true, aborted: true, batchable: true }),
        Performative::Transfer(Transfer { handle: Handle(0), delivery_id: None, delivery_tag: None, message_format: None, settled: None, more: false, rcv_settle_mode: None, state: None, resume: false, aborted: false, batchable: false }),
        Performative::Disposition(Disposition { role: Role::Receiver, first: 1, last: Some(2), settled: true, state: Some(DeliveryState::Rejected(Rejected { error: Some(err()) })), batchable: true }),
        Performative::Disposition(Disposition { role: Role::Sender, first: 1, last: None, settled: false, state: Some(DeliveryState::Modified(Modified { delivery_failed: Some(true), undeliverable_here: None, message_annotations: None })), batchable: false }),
        Performative::Disposition(Disposition { role: Role::Receiver, first: 0, last: None, settled: false, state: Some(DeliveryState::Received(Received { section_number: 1, section_offset: 2 })), batchable: false }),
        Performative::Disposition(Disposition { role: Role::Receiver, first: 0, last: None, settled: false, state: Some(DeliveryState::Released(Released {})), batchable: false }),
        Performative::Detach(Detach { handle: Handle(1), closed: true, error: Some(err()) }),
        Performative::Detach(Detach { handle: Handle(0), closed: false, error: None }),
        Performative::End(End { error: Some(err()) }),
        Performative::End(End { error: None }),
        Performative::Close(Close { error: None }),
    ]
}

/// fields whose specified default may be written out or left null: (descriptor, field index, the default)
fn explicit_defaults(code: u64) -> Vec<(usize, Value)> {
    match code {
        0x10 => vec![(2, Value::Uint(u32::MAX)), (3, Value::Ushort(u16::MAX))],
        0x11 => vec![(4, Value::Uint(u32::MAX))],
        0x12 => vec![(3, Value::Ubyte(2)), (4, Value::Ubyte(0)), (8, Value::Bool(false))],
        0x13 => vec![(8, Value::Bool(false)), (9, Value::Bool(false))],
        0x14 => vec![(5, Value::Bool(false)), (8, Value::Bool(false)), (9, Value::Bool(false)), (10, Value::Bool(false))],
        0x15 => vec![(3, Value::Bool(false)), (5, Value::Bool(false))],
        0x16 => vec![(1, Value::Bool(false))],
        _ => vec![],
    }
}

/// defaults written out where the value has null, or null where it has the default
fn vary_defaults(v: &Value, rng: &mut Rng, note: &mut Vec<String>) -> Value {
    match v {
        Value::Described(d) => {
            let code = match &d.descriptor {
                Descriptor::Code(c) => *c,
                Descriptor::Name(s) => COMPOSITES.iter().find(|c| c.1 == s.0).map(|c| c.0).unwrap_or(u64::MAX),
            };
            match &d.value {
                Value::List(fields) => {
                    let mut fields = fields.clone();
                    for (i, dflt) in explicit_defaults(code) {
                        if i < fields.len() {
                            if fields[i] == Value::Null && rng.chance(1, 2) {
                                fields[i] = dflt.clone();
                                note.push(format!("{:#x}[{}]:default-written-out", code, i));
                            } else if fields[i] == dflt && rng.chance(1, 2) {
                                fields[i] = Value::Null;
                                note.push(format!("{:#x}[{}]:default-as-null", code, i));
                            }
                        } else if rng.chance(1, 3) {
                            while fields.len() < i {
                                fields.push(Value::Null);
                            }
                            fields.push(dflt.clone());
                            note.push(format!("{:#x}[{}]:default-written-out", code, i));
                        }
                    }
                    Value::Described(Box::new(Described { descriptor: d.descriptor.clone(), value: Value::List(fields) }))
                }
                _ => v.clone(),
            }
        }
        other => other.clone(),
    }
}

// ------------------------------------------------------------------------------- main

/// valid encodings with bodies beyond 64 KiB (vbin32 / str32 / sym32 alone, inside a list32 followed by
/// another entry, and as the last of several array32 elements), from a slice and from a stream
fn long_variants(report: &mut Report) {
    for len in [65536usize, 65537, 100_000, 131_073] {
        let body: Vec<u8> = (0..len).map(|i| b'a' + ((i * 7 + len) % 26) as u8).collect();
        let text = String::from_utf8(body.clone()).expect("ascii");
        let cases: Vec<(u8, Value)> = vec![
            (0xb0, Value::Binary(serde_bytes::ByteBuf::from(body.clone()))),
            (0xb1, Value::String(text.clone())),
            (0xb3, Value::Symbol(serde_amqp::primitives::Symbol::from(text.clone()))),
        ];
        for (code, v) in cases {
            let mut one = vec![code];
            one.extend_from_slice(&be32(len));
            one.extend_from_slice(&body);
            // list32 [ value, uint 7 ]
            let mut list = vec![0xd0];
            list.extend_from_slice(&be32(4 + one.len() + 2));
            list.extend_from_slice(&be32(2));
            list.extend_from_slice(&one);
            list.extend_from_slice(&[0x52, 0x07]);
            // array32 of two such elements, a short one and the long one
            let mut arr = vec![0xf0];
            arr.extend_from_slice(&be32(4 + 1 + 4 + 1 + 4 + len));
            arr.extend_from_slice(&be32(2));
            arr.push(code);
            arr.extend_from_slice(&be32(1));
            arr.push(b'z');
            arr.extend_from_slice(&be32(len));
            arr.extend_from_slice(&body);
            let short = match code {
                0xb0 => Value::Binary(serde_bytes::ByteBuf::from(vec![b'z'])),
                0xb1 => Value::String("z".into()),
                _ => Value::Symbol(serde_amqp::primitives::Symbol::from("z")),
            };
            let expect: Vec<(&str, Vec<u8>, Value)> = vec![
                ("alone", one.clone(), v.clone()),
                ("in-a-list32-followed-by-an-entry", list, Value::List(vec![v.clone(), Value::Uint(7)])),
                ("last-element-of-an-array32", arr, Value::Array(Array(vec![short, v.clone()]))),
            ];
            for (what, bytes, want) in expect {
                report.evaluations += 1;
                report.count("long_valid_variants");
                report.nontrivial_case(fnv(&format!("long-{}-{}-{}", code, len, what)));
                let replay = json!({"property": "C05", "module": "specenc", "long_variant": what, "code": code, "length": len});
                match serde_amqp::from_slice::<Value>(&bytes) {
                    Ok(w) if w == want => {}
                    r => report.finding(Finding { kind: "violation", key: "valid-variant-not-accepted:long-body".into(), description: format!("0x{:02x} body of {} octets {}: from_slice gives {}", code, len, what, match r { Ok(_) => "another value".to_string(), Err(e) => format!("{:?}", e) }), replay: replay.clone() }),
                }
                for chunk in [1usize << 20, 4099] {
                    let src = ChunkedSrc { data: &bytes, pos: 0, chunk };
                    match std::panic::catch_unwind(std::panic::AssertUnwindSafe(|| serde_amqp::from_reader::<Value>(src))).unwrap_or_else(|_| Err(serde::de::Error::custom("the stream decoder panicked"))) {
                        Ok(w) if w == want => {}
                        r => {
                            report.finding(Finding { kind: "violation", key: "valid-variant-not-accepted:long-body".into(), description: format!("0x{:02x} body of {} octets {}: from_reader (chunks of {}) gives {}", code, len, what, chunk, match r { Ok(_) => "another value".to_string(), Err(e) => format!("{:?}", e) }), replay: replay.clone() });
                            break;
                        }
                    }
                }
            }
        }
    }
}

struct ChunkedSrc<'a> {
    data: &'a [u8],
    pos: usize,
    chunk: usize,
}

impl std::io::Read for ChunkedSrc<'_> {
    fn read(&mut self, buf: &mut [u8]) -> std::io::Result<usize> {
        let n = buf.len().min(self.chunk).min(self.data.len() - self.pos);
        buf[..n].copy_from_slice(&self.data[self.pos..self.pos + n]);
        self.pos += n;
        Ok(n)
    }
}

pub fn main(opts: &Opts) {
    let mut report = Report::new(
        "C05",
        "values as in C03 (all constructors, width boundaries, nesting to depth 4, maps keyed by every kind, arrays of every simple kind): to_vec parsed by a reference decoder written from the \
         specification (every size / count field, one constructor per array, described layout); a reference encoder making random choices among all permitted variants at every node (integers \
         zero / one-byte / full, boolean 0x56, 8- / 32-bit lengths, list0 / list8 / list32, map8 / map32, array8 / array32, compact array constructors, descriptor variants) fed to from_slice; \
         19 typed performatives with their delivery states, errors, sources and targets re-written with trailing nulls present / elided, defaults explicit / null, descriptors by code / name and \
         random width variants, decoded as Performative; non-trivial = compound value or a re-written composite; distinct by hash of value text and choices",
    );
    if let Some(path) = &opts.replay {
        let j: J = serde_json::from_str(&std::fs::read_to_string(path).expect("read")).expect("json");
        let bytes = j.get("bytes").and_then(|x| x.as_str()).and_then(unhex);
        if let Some(si) = j.get("typed_sample").and_then(|x| x.as_u64()) {
            let p = typed_samples().get(si as usize).cloned().expect("sample index");
            let b = bytes.unwrap_or_else(|| serde_amqp::to_vec(&p).expect("encode"));
            let r = serde_amqp::from_slice::<Performative>(&b);
            println!("{:?} <- {}", r, hex(&b));
            let ok = matches!(&r, Ok(q) if *q == p) && ref_value(&b, 0).is_ok();
            println!("REPLAY: property {} on this scenario", if ok { "holds" } else { "violated" });
            std::process::exit(if ok { 0 } else { 1 });
        }
        if let Some(text) = j.get("value").and_then(|x| x.as_str()) {
            let ok = match &bytes {
                Some(b) => matches!(crate::codec::dec_slice(b), crate::codec::DecOut::Ok { value, rest: 0 } if value == text),
                None => match crate::codec::parse(text).and_then(|v| serde_amqp::to_vec(&v).ok()) {
                    Some(enc) => matches!(ref_value(&enc, 0), Ok((t, used)) if t == text && used == enc.len()),
                    None => false,
                },
            };
            println!("REPLAY: property {} on this scenario", if ok { "holds" } else { "violated" });
            std::process::exit(if ok { 0 } else { 1 });
        }
        std::process::exit(2);
    }
    let mut rng = Rng::new(opts.seed ^ 0xc05);
    // hand-written valid variants, always run (the recorded exception among them, so that it is
    // reported by every run and not only when the generator happens to produce it)
    let by_hand: Vec<(Vec<u8>, Value, &str)> = vec![
        (vec![0xe0, 0x02, 0x03, 0x41], Value::Array(Array(vec![Value::Bool(true), Value::Bool(true), Value::Bool(true)])), "!41"),
        (vec![0xf0, 0, 0, 0, 5, 0, 0, 0, 6, 0x43], Value::Array(Array(vec![Value::Uint(0); 6])), "!43"),
        (vec![0xe0, 0x02, 0x01, 0x44], Value::Array(Array(vec![Value::Ulong(0)])), "!44"),
        (vec![0xe0, 0x04, 0x02, 0x52, 0x05, 0x06], Value::Array(Array(vec![Value::Uint(5), Value::Uint(6)])), "k00[l10]"),
        (vec![0xe0, 0x05, 0x02, 0xa3, 0x01, 0x61, 0x00], Value::Array(Array(vec![Value::Symbol("a".into()), Value::Symbol("".into())])), "k00[l00]"),
    ];
    for (bytes, v, ch) in by_hand {
        let text = crate::codec::show(&v);
        report.evaluations += 1;
        report.count("hand_written_variants");
        report.nontrivial_case(fnv(&hex(&bytes)));
        match crate::codec::dec_slice(&bytes) {
            crate::codec::DecOut::Ok { value, rest: 0 } if value == text => {}
            other => {
                let key = if ch.starts_with('!') { "valid-variant-not-accepted:array-with-zero-width-element-constructor" } else { "valid-variant-not-accepted" };
                report.finding(Finding { kind: "violation", key: key.into(), description: format!("{} encoded as {} (choices {}) decodes to {:?}", text, hex(&bytes), ch, other), replay: json!({"property": "C05", "module": "specenc", "value": text, "bytes": hex(&bytes), "choices": ch}) });
            }
        }
    }
    long_variants(&mut report);
    let n: u64 = if opts.thorough() { 40_000 } else { 4_000 };
    let mut lines: Vec<String> = vec![];
    let mut imp: Vec<String> = vec![];
    let mut ctx: Vec<J> = vec![];
    for k in 0..n {
        let v = gen_value(&mut rng, 4, false);
        if out_of_scope(&v).is_some() {
            continue;
        }
        let text = show(&v);
        report.evaluations += 1;
        if matches!(v, Value::List(_) | Value::Map(_) | Value::Array(_) | Value::Described(_)) {
            report.nontrivial_case(fnv(&text));
        }
        // 1. what to_vec writes is a valid encoding of exactly this value
        let enc = match serde_amqp::to_vec(&v) {
            Ok(b) => b,
            Err(e) => {
                report.finding(Finding { kind: "violation", key: "encode-error".into(), description: format!("to_vec failed: {:?}", e), replay: json!({"property": "C05", "module": "specenc", "value": text}) });
                continue;
            }
        };
        match ref_value(&enc, 0) {
            Ok((t, used)) => {
                if t != text || used != enc.len() {
                    report.finding(Finding { kind: "violation", key: "encoding-is-another-value".into(), description: format!("to_vec({}) = {} which the specification reads as {} ({} of {} bytes)", text, hex(&enc), t, used, enc.len()), replay: json!({"property": "C05", "module": "specenc", "value": text}) });
                }
            }
            Err(e) => report.finding(Finding { kind: "violation", key: "encoding-not-well-formed".into(), description: format!("to_vec({}) = {}: {}", text, hex(&enc), e), replay: json!({"property": "C05", "module": "specenc", "value": text}) }),
        }
        // 2. every permitted variant decodes to the same value
        for _ in 0..3 {
            let mut ch = String::new();
            let mut modelled = true;
            let bytes = ref_enc(&v, &mut rng, &mut ch, &mut modelled);
            report.count(if modelled { "variants_in_the_lean_specification" } else { "variants_with_zero_width_array_constructors" });
            match crate::codec::dec_slice(&bytes) {
                crate::codec::DecOut::Ok { value, rest: 0 } if value == text => {}
                other => {
                    let what: Vec<&str> = ch.split(|c: char| !c.is_alphanumeric()).filter(|s| !s.is_empty()).collect();
                    let _ = what;
                    let zero_width = ["!41", "!42", "!43", "!44"].iter().any(|m| ch.contains(m));
                    let key = if modelled {
                        "valid-variant-not-accepted"
                    } else if zero_width {
                        "valid-variant-not-accepted:array-with-zero-width-element-constructor"
                    } else {
                        "valid-variant-not-accepted:compact-array-constructor"
                    };
                    report.finding(Finding { kind: "violation", key: key.into(), description: format!("{} encoded as {} (choices {}) decodes to {:?}", text, hex(&bytes), ch, other), replay: json!({"property": "C05", "module": "specenc", "value": text, "bytes": hex(&bytes), "choices": ch}) });
                }
            }
            // the same variant read from a stream (the transport decodes frames and payloads this way)
            if bytes.len() < 4000 {
                let chunk = [1usize, 3, 64, 1 << 16][(rng.next() % 4) as usize];
                report.count("variants_read_from_a_stream");
                match crate::codec::dec_io(&bytes, chunk).0 {
                    crate::codec::DecOut::Ok { value, rest: 0 } if value == text => {}
                    other => {
                        let zero_width = ["!41", "!42", "!43", "!44"].iter().any(|m| ch.contains(m));
                        let key = if modelled {
                            "valid-variant-not-accepted:from-stream"
                        } else if zero_width {
                            "valid-variant-not-accepted:array-with-zero-width-element-constructor"
                        } else {
                            "valid-variant-not-accepted:compact-array-constructor"
                        };
                        report.finding(Finding { kind: "violation", key: key.into(), description: format!("{} encoded as {} (choices {}) read from a stream in chunks of {} decodes to {:?}", text, hex(&bytes), ch, chunk, other), replay: json!({"property": "C05", "module": "specenc", "value": text, "bytes": hex(&bytes), "choices": ch, "chunk": chunk}) });
                    }
                }
            }
            if modelled && text.len() < 3000 {
                lines.push(format!("V spec {} {}", ch, text));
                imp.push(if bytes.is_empty() { "-".into() } else { hex(&bytes) });
                ctx.push(json!({"value": text, "choices": ch}));
            }
        }
        if k % (n / 4).max(1) == 0 && text.len() < 300 {
            report.sample(json!({"value": text}));
        }
    }
    // 3. typed composites
    let samples = typed_samples();
    let rounds = if opts.thorough() { 400 } else { 40 };
    for (si, p) in samples.iter().enumerate() {
        let enc = serde_amqp::to_vec(p).expect("encode performative");
        // its own encoding is well-formed
        if let Err(e) = ref_value(&enc, 0) {
            report.finding(Finding { kind: "violation", key: "encoding-not-well-formed:performative".into(), description: format!("{:?} = {}: {}", p, hex(&enc), e), replay: json!({"property": "C05", "module": "specenc", "typed_sample": si}) });
        }
        let as_value: Value = match serde_amqp::from_slice(&enc) {
            Ok(v) => v,
            Err(e) => {
                report.finding(Finding { kind: "violation", key: "performative-not-a-value".into(), description: format!("{:?}", e), replay: json!({"property": "C05", "module": "specenc", "typed_sample": si}) });
                continue;
            }
        };
        for _ in 0..rounds {
            report.evaluations += 1;
            let mut note = vec![];
            let v1 = vary_defaults(&as_value, &mut rng, &mut note);
            let v2 = vary_composites(&v1, &mut rng, &mut note);
            let mut ch = String::new();
            let mut modelled = true;
            let bytes = ref_enc(&v2, &mut rng, &mut ch, &mut modelled);
            report.nontrivial_case(fnv(&format!("{}{}", hex(&bytes), si)));
            report.count("typed_variants");
            let r = std::panic::catch_unwind(|| serde_amqp::from_slice::<Performative>(&bytes));
            let ok = matches!(&r, Ok(Ok(q)) if q == p);
            if !ok {
                let kind = note.iter().map(|n| n.rsplit(':').next().unwrap_or("")).collect::<std::collections::BTreeSet<_>>().into_iter().collect::<Vec<_>>().join("+");
                report.finding(Finding { kind: "violation", key: format!("typed-variant-not-accepted:{}", if kind.is_empty() { "width-variants-only".to_string() } else { kind }), description: format!("{:?} written as {} ({:?}) decodes to {:?}", p, hex(&bytes), note, r.map(|x| x.map_err(|e| e.to_string()))), replay: json!({"property": "C05", "module": "specenc", "typed_sample": si, "bytes": hex(&bytes), "variation": note}) });
            }
        }
    }
    if driver_available() {
        match run_driver(&lines) {
            Ok(model) => {
                report.model_used = true;
                report.model_lines = model.len() as u64;
                let mut bad = 0;
                for i in 0..model.len().min(imp.len()) {
                    if model[i] != imp[i] {
                        if bad == 0 {
                            report.finding(Finding { kind: "disagreement", key: "reference-encoder-vs-lean-specification".into(), description: format!("{} -> harness reference {} Lean specification {}", lines[i].chars().take(300).collect::<String>(), imp[i].chars().take(200).collect::<String>(), model[i].chars().take(200).collect::<String>()), replay: json!({"property": "C05", "module": "specenc", "case": ctx[i], "reference": imp[i], "lean": model[i]}) });
                        }
                        bad += 1;
                    }
                }
                report.count_n("lines_disagreeing_with_model", bad);
            }
            Err(e) => report.notes.push(format!("model driver failed: {}", e)),
        }
    } else {
        report.notes.push("model driver not available: correspondence skipped".into());
    }
    report.count_n("arrays_with_compact_element_constructors_in_the_lean_specification", COMPACT_MODELLED.with(|c| c.get()));
    report.write(&opts.report);
    println!("specenc: {} cases, {} non-trivial, {} findings", report.evaluations, report.nontrivial.len(), report.findings.len());
}
