//! C07 — session flow control.  Drives a real detached `Session` endpoint
//! (`fe2o3_amqp::verif::SessionProbe`) and the Lean model (`Amqp.Session`)
//! with the same operation histories.

use bytes::Bytes;
use fe2o3_amqp::frames::amqp::FrameBody;
use fe2o3_amqp::verif::SessionProbe;
use fe2o3_amqp_types::definitions::{DeliveryTag, Handle};
use fe2o3_amqp_types::performatives::{Begin, Flow, Transfer};
use serde_json::{json, Value as J};

use crate::common::*;

#[derive(Clone, Debug, PartialEq)]
pub enum Op {
    Begin { noi: u32, iw: u32, ow: u32 },
    Out { uid: u64, has_tag: bool, settled: Option<bool> },
    Flow { nif: Option<u32>, iw: u32, noi: u32, ow: u32 },
    In,
}

#[derive(Clone, Debug, PartialEq)]
pub struct Case {
    pub init_noi: u32,
    pub iw: u32,
    pub ow: u32,
    pub ops: Vec<Op>,
}

impl Op {
    fn line(&self) -> String {
        match self {
            Op::Begin { noi, iw, ow } => format!("S begin {} {} {}", noi, iw, ow),
            Op::Out { uid, has_tag, settled } => format!(
                "S out {} {} {}",
                uid,
                *has_tag as u8,
                match settled {
                    None => -1,
                    Some(false) => 0,
                    Some(true) => 1,
                }
            ),
            Op::Flow { nif, iw, noi, ow } => format!(
                "S flow {} {} {} {} 0",
                nif.map(|x| x as i64).unwrap_or(-1),
                iw,
                noi,
                ow
            ),
            Op::In => "S in".to_string(),
        }
    }
    fn to_json(&self) -> J {
        json!(self.line())
    }
}

impl Case {
    pub fn lines(&self) -> Vec<String> {
        let mut v = vec![format!("S init {} {} {}", self.init_noi, self.iw, self.ow)];
        v.extend(self.ops.iter().map(|o| o.line()));
        v
    }
    pub fn to_json(&self) -> J {
        json!({"init": {"next_outgoing_id": self.init_noi, "incoming_window": self.iw, "outgoing_window": self.ow},
               "ops": self.ops.iter().map(|o| o.to_json()).collect::<Vec<_>>()})
    }
    pub fn from_json(j: &J) -> Option<Case> {
        let init = j.get("init")?;
        let mut ops = vec![];
        for l in j.get("ops")?.as_array()? {
            let ws: Vec<&str> = l.as_str()?.split_whitespace().collect();
            let num = |s: &str| s.parse::<i64>().ok();
            let op = match ws.as_slice() {
                ["S", "begin", a, b, c] => Op::Begin { noi: num(a)? as u32, iw: num(b)? as u32, ow: num(c)? as u32 },
                ["S", "out", u, t, s] => Op::Out {
                    uid: num(u)? as u64,
                    has_tag: num(t)? == 1,
                    settled: match num(s)? {
                        -1 => None,
                        0 => Some(false),
                        _ => Some(true),
                    },
                },
                ["S", "flow", nif, iw, noi, ow, _] => Op::Flow {
                    nif: match num(nif)? {
                        -1 => None,
                        x => Some(x as u32),
                    },
                    iw: num(iw)? as u32,
                    noi: num(noi)? as u32,
                    ow: num(ow)? as u32,
                },
                ["S", "in"] => Op::In,
                _ => return None,
            };
            ops.push(op);
        }
        Some(Case {
            init_noi: init.get("next_outgoing_id")?.as_u64()? as u32,
            iw: init.get("incoming_window")?.as_u64()? as u32,
            ow: init.get("outgoing_window")?.as_u64()? as u32,
            ops,
        })
    }
}

/// what the implementation emitted for one op
#[derive(Clone, Debug, PartialEq)]
pub enum Emit {
    /// transfer frame: uid (from the payload), stamped delivery-id
    Transfer { uid: u64, delivery_id: Option<u32> },
    /// flow frame: next-incoming-id, incoming-window, next-outgoing-id, outgoing-window, has handle
    Flow { nii: Option<u32>, iw: u32, noi: u32, ow: u32, link: bool },
    Other(String),
}

#[derive(Clone, Debug)]
pub struct StepOut {
    pub emits: Vec<Emit>,
    pub noi: u32,
    pub riw: u32,
    pub nii: u32,
    pub row: u32,
    pub nfc: u32,
    pub buffered: usize,
}

fn frames_to_emits(frames: Vec<fe2o3_amqp::frames::amqp::Frame>) -> Vec<Emit> {
    frames
        .into_iter()
        .map(|f| match f.body {
            FrameBody::Transfer { performative, payload } => {
                let mut b = [0u8; 8];
                b.copy_from_slice(&payload[..8]);
                Emit::Transfer {
                    uid: u64::from_be_bytes(b),
                    delivery_id: performative.delivery_id,
                }
            }
            FrameBody::Flow(fl) => Emit::Flow {
                nii: fl.next_incoming_id,
                iw: fl.incoming_window,
                noi: fl.next_outgoing_id,
                ow: fl.outgoing_window,
                link: fl.handle.is_some(),
            },
            other => Emit::Other(format!("{:?}", other)),
        })
        .collect()
}

/// run the implementation on a case; one StepOut per line (including `init`)
pub fn run_impl(case: &Case) -> Vec<StepOut> {
    let rt = tokio::runtime::Builder::new_current_thread().build().unwrap();
    let builder = fe2o3_amqp::session::Session::builder()
        .next_outgoing_id(case.init_noi)
        .incoming_window(case.iw)
        .outgoing_window(case.ow);
    let mut probe = SessionProbe::new(builder, 0, false);
    let mut outs = vec![];
    let snap = |probe: &SessionProbe, emits: Vec<Emit>| {
        let c = probe.counters();
        StepOut {
            emits,
            noi: c.next_outgoing_id,
            riw: c.remote_incoming_window,
            nii: c.next_incoming_id,
            row: c.remote_outgoing_window,
            nfc: c.need_flow_count,
            buffered: c.buffered,
        }
    };
    outs.push(snap(&probe, vec![]));
    for op in &case.ops {
        let emits = match op {
            Op::Begin { noi, iw, ow } => {
                let begin = Begin {
                    remote_channel: Some(0),
                    next_outgoing_id: *noi,
                    incoming_window: *iw,
                    outgoing_window: *ow,
                    handle_max: Handle(u32::MAX),
                    offered_capabilities: None,
                    desired_capabilities: None,
                    properties: None,
                };
                let _ = probe.on_incoming_begin(0, begin);
                vec![]
            }
            Op::Out { uid, has_tag, settled } => {
                let transfer = Transfer {
                    handle: Handle((*uid % 3) as u32),
                    delivery_id: None,
                    delivery_tag: if *has_tag {
                        Some(DeliveryTag::from(uid.to_be_bytes().to_vec()))
                    } else {
                        None
                    },
                    message_format: if *has_tag { Some(0) } else { None },
                    settled: *settled,
                    more: false,
                    rcv_settle_mode: None,
                    state: None,
                    resume: false,
                    aborted: false,
                    batchable: false,
                };
                let payload = Bytes::from(uid.to_be_bytes().to_vec());
                match probe.on_outgoing_transfer((*uid % 3) as u32, transfer, payload) {
                    Ok(frames) => frames_to_emits(frames),
                    Err(e) => vec![Emit::Other(format!("error {}", e))],
                }
            }
            Op::Flow { nif, iw, noi, ow } => {
                let flow = Flow {
                    next_incoming_id: *nif,
                    incoming_window: *iw,
                    next_outgoing_id: *noi,
                    outgoing_window: *ow,
                    handle: None,
                    delivery_count: None,
                    link_credit: None,
                    available: None,
                    drain: false,
                    echo: false,
                    properties: None,
                };
                match rt.block_on(probe.on_incoming_flow(flow)) {
                    Ok(frames) => frames_to_emits(frames),
                    Err(e) => vec![Emit::Other(format!("error {}", e))],
                }
            }
            Op::In => {
                let transfer = Transfer {
                    handle: Handle(0),
                    delivery_id: Some(0),
                    delivery_tag: Some(DeliveryTag::from(vec![0u8])),
                    message_format: Some(0),
                    settled: Some(true),
                    more: false,
                    rcv_settle_mode: None,
                    state: None,
                    resume: false,
                    aborted: false,
                    batchable: false,
                };
                let (_r, frames) = rt.block_on(probe.on_incoming_transfer(transfer, Bytes::new()));
                frames_to_emits(frames)
            }
        };
        outs.push(snap(&probe, emits));
    }
    outs
}

const M32: u64 = 1 << 32;

fn sdist(a: u32, b: u32) -> u32 {
    b.wrapping_sub(a)
}

/// Render implementation outputs in the model driver's line format.  The
/// implicit transfer-id of the k-th transfer frame emitted on the session is
/// `initial-outgoing-id + k` (that is what the peer counts), computed here
/// independently of the endpoint's own counter.
pub fn render_impl(case: &Case, outs: &[StepOut]) -> Vec<String> {
    let mut emitted: u64 = 0;
    outs.iter()
        .map(|o| {
            let parts: Vec<String> = o
                .emits
                .iter()
                .map(|e| match e {
                    Emit::Transfer { uid, delivery_id } => {
                        let tid = ((case.init_noi as u64 + emitted) % M32) as u32;
                        emitted += 1;
                        format!("T {} {} {}", tid, delivery_id.map(|x| x as i64).unwrap_or(-1), uid)
                    }
                    Emit::Flow { nii, iw, noi, ow, link } => format!(
                        "F {} {} {} {} {}",
                        nii.map(|x| x as i64).unwrap_or(-1),
                        iw,
                        noi,
                        ow,
                        *link as u8
                    ),
                    Emit::Other(s) => format!("X {}", s.replace(' ', "_")),
                })
                .collect();
            format!("{} # {} {} {} {} {} {}", parts.join(";"), o.noi, o.riw, o.nii, o.row, o.nfc, o.buffered)
        })
        .collect()
}

/// The property itself, evaluated on the implementation's behaviour only.
/// Returns (key, description) of the first violation.
pub fn check_property(case: &Case, outs: &[StepOut]) -> Option<(String, String)> {
    // window last advertised by the peer: (base, len); before the peer's begin nothing may be sent
    let mut win: (u32, u32) = (case.init_noi, 0);
    let mut emitted: u64 = 0; // transfer frames emitted so far
    let mut requested: Vec<u64> = vec![];
    let mut sent: Vec<u64> = vec![];
    let mut nii_expected: Option<u32> = None;
    for (i, op) in case.ops.iter().enumerate() {
        let o = &outs[i + 1];
        let before_emitted = emitted;
        match op {
            Op::Begin { noi, iw, .. } => {
                win = (case.init_noi, *iw);
                nii_expected = Some(*noi);
            }
            Op::Flow { nif, iw, noi, .. } => {
                win = (nif.unwrap_or(case.init_noi), *iw);
                nii_expected = Some(*noi);
                // A peer cannot have received frames that were never sent: a flow whose
                // next-incoming-id is not between the initial and the current
                // next-outgoing-id is nonsense, and the property demands nothing after it.
                if (sdist(case.init_noi, win.0) as u64) > emitted {
                    return None;
                }
            }
            Op::Out { uid, .. } => requested.push(*uid),
            Op::In => {
                nii_expected = nii_expected.map(|x| x.wrapping_add(1));
            }
        }
        let noi_before = ((case.init_noi as u64 + emitted) % M32) as u32;
        for e in &o.emits {
            match e {
                Emit::Transfer { uid, delivery_id } => {
                    let tid = ((case.init_noi as u64 + emitted) % M32) as u32;
                    emitted += 1;
                    if sdist(win.0, tid) >= win.1 {
                        return Some((
                            "window-overrun".into(),
                            format!("op {} ({}): transfer-id {} sent outside the peer's window [next-incoming-id {}, +{})", i, op.line(), tid, win.0, win.1),
                        ));
                    }
                    if let Some(d) = delivery_id {
                        if *d != tid {
                            return Some(("delivery-id-mismatch".into(), format!("op {}: delivery-id {} on the frame with transfer-id {}", i, d, tid)));
                        }
                    }
                    sent.push(*uid);
                }
                Emit::Flow { nii, noi, iw, ow, .. } => {
                    // counters reported must reflect the frames actually sent / received
                    let exp_noi = ((case.init_noi as u64 + emitted) % M32) as u32;
                    if *noi != exp_noi {
                        return Some(("flow-next-outgoing-id".into(), format!("op {}: flow reports next-outgoing-id {} after {} frames sent from {}", i, noi, emitted, case.init_noi)));
                    }
                    if let (Some(n), Some(exp)) = (nii, nii_expected) {
                        if *n != exp {
                            return Some(("flow-next-incoming-id".into(), format!("op {}: flow reports next-incoming-id {} expected {}", i, n, exp)));
                        }
                    }
                    if *iw != case.iw || *ow != case.ow {
                        return Some(("flow-window".into(), format!("op {}: flow reports windows {}/{}", i, iw, ow)));
                    }
                }
                Emit::Other(s) => {
                    return Some(("unexpected-output".into(), format!("op {}: {}", i, s)));
                }
            }
        }
        // FIFO: what was sent is a prefix of what was requested, the rest is held
        if sent.len() > requested.len() || sent[..] != requested[..sent.len()] {
            return Some(("fifo".into(), format!("op {}: sent {:?} is not a prefix of requested {:?}", i, sent, requested)));
        }
        if o.buffered != requested.len() - sent.len() {
            return Some(("lost-or-duplicated".into(), format!("op {}: {} requested, {} sent, {} held", i, requested.len(), sent.len(), o.buffered)));
        }
        // progress: after this op, everything the window allows has been sent
        let d = sdist(win.0, noi_before);
        let room_before: u64 = if d <= win.1 { (win.1 - d) as u64 } else { 0 };
        let pending_before = (requested.len() as u64) - before_emitted;
        let should = room_before.min(pending_before);
        if matches!(op, Op::Flow { .. } | Op::Out { .. }) && (emitted - before_emitted) != should {
            return Some((
                if emitted - before_emitted < should { "held-back-with-open-window".into() } else { "window-overrun".into() },
                format!("op {} ({}): window leaves room for {}, {} pending, but {} frames were sent", i, op.line(), room_before, pending_before, emitted - before_emitted),
            ));
        }
        // counters
        let exp_noi = ((case.init_noi as u64 + emitted) % M32) as u32;
        if o.noi != exp_noi {
            return Some(("next-outgoing-id".into(), format!("op {}: next-outgoing-id {} after {} frames from {}", i, o.noi, emitted, case.init_noi)));
        }
        if let Some(exp) = nii_expected {
            if o.nii != exp {
                return Some(("next-incoming-id".into(), format!("op {}: next-incoming-id {} expected {}", i, o.nii, exp)));
            }
        }
    }
    None
}

fn boundary_u32(rng: &mut Rng) -> u32 {
    match rng.below(6) {
        0 => 0,
        1 => rng.range(0, 8) as u32,
        2 => (M32 - 1 - rng.range(0, 8)) as u32,
        3 => (1u64 << 31) as u32 + rng.range(0, 4) as u32 - 2,
        4 => rng.next() as u32,
        _ => rng.range(0, 20) as u32,
    }
}

fn small_window(rng: &mut Rng) -> u32 {
    match rng.below(8) {
        0 => 0,
        1 => 1,
        2 => 2,
        3 => rng.range(3, 8) as u32,
        4 => rng.range(9, 40) as u32,
        5 => 5000,
        6 => u32::MAX,
        _ => rng.range(0, 4) as u32,
    }
}

pub fn gen_case(rng: &mut Rng, max_ops: u64) -> Case {
    let init_noi = boundary_u32(rng);
    let iw = match rng.below(5) {
        0 => 1,
        1 => 2,
        2 => rng.range(3, 10) as u32,
        3 => 5000,
        _ => rng.range(1, 6) as u32,
    };
    let ow = small_window(rng).max(1);
    let mut ops = vec![Op::Begin { noi: boundary_u32(rng), iw: small_window(rng), ow: small_window(rng) }];
    let n = rng.range(1, max_ops);
    let mut uid: u64 = 1;
    let mut sent_estimate: u64 = 0; // frames handed to the session so far (upper bound of frames sent)
    let honest_peer = rng.chance(3, 4);
    for _ in 0..n {
        match rng.below(10) {
            0..=5 => {
                let has_tag = rng.chance(2, 3);
                let settled = match rng.below(3) {
                    0 => None,
                    1 => Some(false),
                    _ => Some(true),
                };
                ops.push(Op::Out { uid, has_tag, settled });
                uid += 1;
                sent_estimate += 1;
            }
            6..=8 => {
                let nif = if rng.chance(1, 6) {
                    None
                } else if honest_peer || rng.chance(1, 2) {
                    // the peer has received some prefix of what was handed over
                    let got = rng.range(0, sent_estimate);
                    Some(((init_noi as u64 + got) % M32) as u32)
                } else {
                    Some(boundary_u32(rng))
                };
                ops.push(Op::Flow { nif, iw: small_window(rng), noi: boundary_u32(rng), ow: small_window(rng) });
            }
            _ => ops.push(Op::In),
        }
    }
    Case { init_noi, iw, ow, ops }
}

fn is_nontrivial(case: &Case, outs: &[StepOut]) -> bool {
    // at least one frame held back and one released, or ids crossing 2^32
    let held = outs.iter().any(|o| o.buffered > 0);
    let emitted: usize = outs.iter().map(|o| o.emits.len()).sum();
    let wraps = (case.init_noi as u64) + emitted as u64 >= M32;
    (held && emitted > 0) || wraps
}

fn evaluate(case: &Case) -> (Vec<StepOut>, Option<(String, String)>) {
    let outs = run_impl(case);
    let v = check_property(case, &outs);
    (outs, v)
}

fn shrink_case(case: &Case, key: &str) -> Case {
    let mut fails = |ops: &[Op]| {
        let c = Case { ops: ops.to_vec(), ..case.clone() };
        matches!(evaluate(&c).1, Some((k, _)) if k == key)
    };
    let ops = shrink_list(&case.ops, &mut fails);
    Case { ops, ..case.clone() }
}

pub fn main(opts: &Opts) {
    let mut report = Report::new(
        "C07",
        "random op histories (begin / outgoing transfer / incoming flow / incoming transfer) on a detached Session endpoint, \
         biased to ids within 8 of 2^32, windows 0/1/2, stale and unset next-incoming-id; non-trivial = some frame was held back \
         and later released, or transfer-ids cross 2^32; distinct by hash of the op list",
    );

    if let Some(path) = &opts.replay {
        let text = std::fs::read_to_string(path).expect("read replay");
        let j: J = serde_json::from_str(&text).expect("replay json");
        let case = Case::from_json(j.get("case").unwrap_or(&j)).expect("replay case");
        let (outs, v) = evaluate(&case);
        for (l, o) in case.lines().iter().zip(render_impl(&case, &outs)) {
            println!("{:<40} => {}", l, o);
        }
        match v {
            Some((k, d)) => {
                println!("REPLAY: property violated [{}]: {}", k, d);
                std::process::exit(1);
            }
            None => {
                println!("REPLAY: property holds on this history");
                std::process::exit(0);
            }
        }
    }

    let n_cases: u64 = if opts.thorough() { 60_000 } else { 4_000 };
    let max_ops: u64 = if opts.thorough() { 120 } else { 40 };
    let mut rng = Rng::new(opts.seed);
    let mut all_lines: Vec<String> = vec![];
    let mut impl_lines: Vec<String> = vec![];
    let mut cases: Vec<Case> = vec![];
    let mut case_start: Vec<usize> = vec![];

    // corpus first
    let mut corpus: Vec<Case> = vec![];
    if let Ok(rd) = std::fs::read_dir("/verif/corpus/C07") {
        let mut paths: Vec<_> = rd.filter_map(|e| e.ok()).map(|e| e.path()).collect();
        paths.sort();
        for p in paths {
            if let Ok(t) = std::fs::read_to_string(&p) {
                if let Ok(j) = serde_json::from_str::<J>(&t) {
                    if let Some(c) = Case::from_json(j.get("case").unwrap_or(&j)) {
                        corpus.push(c);
                    }
                }
            }
        }
    }
    report.count_n("corpus_cases", corpus.len() as u64);

    let total = corpus.len() as u64 + n_cases;
    for k in 0..total {
        let case = if (k as usize) < corpus.len() { corpus[k as usize].clone() } else { gen_case(&mut rng, max_ops) };
        let (outs, v) = evaluate(&case);
        report.evaluations += 1;
        report.count_n("ops", case.ops.len() as u64);
        for op in &case.ops {
            report.count(match op {
                Op::Begin { .. } => "op_begin",
                Op::Out { .. } => "op_out",
                Op::Flow { nif: None, .. } => "op_flow_unset_nif",
                Op::Flow { .. } => "op_flow",
                Op::In => "op_in",
            });
        }
        if outs.iter().any(|o| o.buffered > 0) {
            report.count("cases_with_buffering");
        }
        if (case.init_noi as u64) + outs.iter().map(|o| o.emits.len() as u64).sum::<u64>() >= M32 {
            report.count("cases_crossing_2^32");
        }
        if is_nontrivial(&case, &outs) {
            report.nontrivial_case(fnv(&case.lines().join("|")));
        }
        if k % (total / 5).max(1) == 0 {
            report.sample(case.to_json());
        }
        if let Some((key, _)) = v {
            let small = shrink_case(&case, &key);
            let (souts, sv) = evaluate(&small);
            let desc = sv.map(|x| x.1).unwrap_or_default();
            report.finding(Finding {
                kind: "violation",
                key: key.clone(),
                description: desc,
                replay: json!({"property": "C07", "seed": opts.seed, "case": small.to_json(),
                               "implementation": render_impl(&small, &souts)}),
            });
        }
        case_start.push(all_lines.len());
        all_lines.extend(case.lines());
        impl_lines.extend(render_impl(&case, &outs));
        cases.push(case);
    }

    // correspondence with the Lean model
    if driver_available() {
        match run_driver(&all_lines) {
            Ok(model_lines) => {
                report.model_used = true;
                report.model_lines = model_lines.len() as u64;
                let mut reported = 0;
                for (ci, case) in cases.iter().enumerate() {
                    let s = case_start[ci];
                    let e = s + case.lines().len();
                    if let Some(off) = (s..e).find(|&i| model_lines[i] != impl_lines[i]) {
                        if reported < 1 {
                            // shrink on "model and implementation differ"
                            let mut fails = |ops: &[Op]| {
                                let c = Case { ops: ops.to_vec(), ..case.clone() };
                                let outs = run_impl(&c);
                                let il = render_impl(&c, &outs);
                                match run_driver(&c.lines()) {
                                    Ok(ml) => ml != il,
                                    Err(_) => false,
                                }
                            };
                            let ops = shrink_list(&case.ops, &mut fails);
                            let small = Case { ops, ..case.clone() };
                            let outs = run_impl(&small);
                            let il = render_impl(&small, &outs);
                            let ml = run_driver(&small.lines()).unwrap_or_default();
                            report.finding(Finding {
                                kind: "disagreement",
                                key: "model-vs-implementation".into(),
                                description: format!("model and implementation differ (first at line {} of case {})", off - s, ci),
                                replay: json!({"property": "C07", "seed": opts.seed, "case": small.to_json(),
                                               "implementation": il, "model": ml}),
                            });
                        }
                        reported += 1;
                    }
                }
                report.count_n("cases_disagreeing_with_model", reported);
            }
            Err(e) => report.notes.push(format!("model driver failed: {}", e)),
        }
    } else {
        report.notes.push("model driver not available: correspondence skipped".into());
    }
    report.write(&opts.report);
    println!("session: {} cases, {} non-trivial, {} findings", report.evaluations, report.nontrivial.len(), report.findings.len());
}
