//! C11 — identifiers and routing.  (a) delivery-ids / transfer-ids of a real
//! Sender observed by a scripted receiver, for every splitting layer; (b) output
//! handles of links attached / detached in random order, compared with the slab
//! model; (c) routing of incoming transfers by the peer's own (sparse, large,
//! reused) handles.

use std::collections::BTreeMap;
use std::time::Duration;

use fe2o3_amqp::link::receiver::CreditMode;
use fe2o3_amqp::link::sender::Sender;
use fe2o3_amqp::{Connection, Receiver, Session};
use fe2o3_amqp_types::definitions::{Handle, ReceiverSettleMode, Role};
use fe2o3_amqp_types::performatives::{Attach, Detach, Performative};
use serde_amqp::Value;
use serde_json::{json, Value as J};

use crate::common::*;
use crate::e2e;
use crate::peer::*;

/// the property on the frames of one sender scenario
pub fn check_ids(_cfg: &e2e::Config, obs: &e2e::Observed) -> Option<(String, String)> {
    let mut cur: Option<u32> = None; // delivery-id of the delivery in progress
    let mut seen_ids: Vec<u32> = vec![];
    for (i, t) in obs.transfers.iter().enumerate() {
        match cur {
            None => {
                // first frame of a delivery: must carry the delivery-id = its transfer-id
                match t.delivery_id {
                    Some(id) => {
                        if let Some(prev) = seen_ids.last() {
                            let d = id.wrapping_sub(*prev);
                            if d == 0 || d >= (1 << 31) {
                                return Some(("delivery-id-not-increasing".into(), format!("frame {}: delivery-id {} after {}", i, id, prev)));
                            }
                        }
                        if seen_ids.contains(&id) {
                            return Some(("delivery-id-reused".into(), format!("frame {}: delivery-id {}", i, id)));
                        }
                        seen_ids.push(id);
                        cur = Some(id);
                    }
                    None => return Some(("first-frame-without-delivery-id".into(), format!("frame {}", i))),
                }
                if t.tag.is_none() {
                    return Some(("first-frame-without-tag".into(), format!("frame {}", i)));
                }
            }
            Some(id) => {
                if let Some(other) = t.delivery_id {
                    if other != id {
                        return Some(("two-ids-for-one-delivery".into(), format!("frame {} continues delivery {} but carries delivery-id {}", i, id, other)));
                    }
                }
            }
        }
        if !t.more {
            cur = None;
        }
    }
    None
}

#[derive(Clone, Debug)]
enum HOp {
    AttachSender(String),
    AttachReceiver(String),
    Detach(usize), // index into the list of live links
}

fn gen_hops(rng: &mut Rng) -> Vec<HOp> {
    let names = ["a", "b", "c", "d", "e"];
    let n = rng.range(2, 10);
    let mut ops = vec![];
    for _ in 0..n {
        match rng.below(5) {
            0 | 1 => ops.push(HOp::AttachSender(rng.pick(&names).to_string())),
            2 => ops.push(HOp::AttachReceiver(rng.pick(&names).to_string())),
            _ => ops.push(HOp::Detach(rng.below(6) as usize)),
        }
    }
    ops
}

enum Live {
    S(Sender),
    R(Receiver),
}

/// runs the attach/detach history; returns (model lines, implementation lines, wire handles seen)
fn run_handles(ops: &[HOp]) -> Result<(Vec<String>, Vec<String>, Vec<String>), String> {
    let rt = paused_runtime();
    let ops = ops.to_vec();
    rt.block_on(async move {
        let (cio, pio) = tokio::io::duplex(1 << 20);
        let mut peer = Peer::new(pio);
        // the peer answers attaches (mirroring the role, its own handles 100, 101, …) and detaches
        let peer_task = tokio::spawn(async move {
            let mut wire: Vec<String> = vec![];
            let mut next_handle = 100u32;
            let mut by_client_handle: BTreeMap<u32, u32> = BTreeMap::new();
            if peer.accept_open(&PeerOpen::default()).await.is_err() {
                return wire;
            }
            if peer.accept_begin(0, 0, 2048, 2048).await.is_err() {
                return wire;
            }
            peer.recv_timeout = Duration::from_secs(3);
            loop {
                match peer.recv().await {
                    Ok(Incoming::Frame { performative, .. }) => match performative {
                        Performative::Attach(a) => {
                            wire.push(format!("attach {} {}", a.name, a.handle.0));
                            let ours = Attach {
                                name: a.name.clone(),
                                handle: Handle(next_handle),
                                role: if matches!(a.role, Role::Sender) { Role::Receiver } else { Role::Sender },
                                snd_settle_mode: a.snd_settle_mode.clone(),
                                rcv_settle_mode: ReceiverSettleMode::First,
                                source: a.source.clone(),
                                target: a.target.clone(),
                                unsettled: None,
                                incomplete_unsettled: false,
                                initial_delivery_count: if matches!(a.role, Role::Receiver) { Some(0) } else { None },
                                max_message_size: None,
                                offered_capabilities: None,
                                desired_capabilities: None,
                                properties: None,
                            };
                            by_client_handle.insert(a.handle.0, next_handle);
                            next_handle += 1;
                            if peer.send(0, Performative::Attach(ours), &[]).await.is_err() {
                                break;
                            }
                        }
                        Performative::Detach(d) => {
                            wire.push(format!("detach {}", d.handle.0));
                            let ours = by_client_handle.remove(&d.handle.0).unwrap_or(0);
                            let reply = Detach { handle: Handle(ours), closed: d.closed, error: None };
                            if peer.send(0, Performative::Detach(reply), &[]).await.is_err() {
                                break;
                            }
                        }
                        Performative::End(_) => {
                            let _ = peer.send(0, Performative::End(fe2o3_amqp_types::performatives::End { error: None }), &[]).await;
                        }
                        Performative::Close(_) => {
                            let _ = peer.close_politely().await;
                            break;
                        }
                        _ => {}
                    },
                    Ok(_) => {}
                    Err(_) => break,
                }
            }
            wire
        });
        let mut conn = Connection::builder().container_id("c11").open_with_stream(cio).await.map_err(|e| format!("open: {:?}", e))?;
        let mut session = Session::begin(&mut conn).await.map_err(|e| format!("begin: {:?}", e))?;
        let mut live: Vec<(String, Live)> = vec![];
        let mut model = vec!["H reset".to_string()];
        let mut imp = vec!["ok".to_string()];
        // the handle of each live link as the model would assign it: tracked through the wire
        let mut handles: Vec<u32> = vec![];
        let mut slab_free: Vec<u32> = vec![];
        let mut slab_len: u32 = 0;
        for op in &ops {
            match op {
                HOp::AttachSender(name) | HOp::AttachReceiver(name) => {
                    model.push(format!("H alloc {}", name));
                    let r = match op {
                        HOp::AttachSender(_) => Sender::builder().name(name.clone()).target("q").attach(&mut session).await.map(Live::S).map_err(|e| format!("{:?}", e)),
                        _ => Receiver::builder().name(name.clone()).source("q").credit_mode(CreditMode::Manual).attach(&mut session).await.map(Live::R).map_err(|e| format!("{:?}", e)),
                    };
                    match r {
                        Ok(l) => {
                            // which handle did it get? (independent bookkeeping of the LIFO slab)
                            let h = match slab_free.pop() {
                                Some(h) => h,
                                None => {
                                    slab_len += 1;
                                    slab_len - 1
                                }
                            };
                            handles.push(h);
                            live.push((name.clone(), l));
                            imp.push("ATTACHED".to_string());
                        }
                        Err(e) => imp.push(if e.contains("DuplicatedLinkName") { "DUP".to_string() } else { format!("ERR:{}", e.replace(' ', "_")) }),
                    }
                }
                HOp::Detach(i) => {
                    if live.is_empty() {
                        continue;
                    }
                    let i = i % live.len();
                    let (_name, l) = live.remove(i);
                    let h = handles.remove(i);
                    model.push(format!("H free {}", h));
                    let r = match l {
                        Live::S(s) => s.close().await.map_err(|e| format!("{:?}", e)),
                        Live::R(r) => r.close().await.map_err(|e| format!("{:?}", e)),
                    };
                    slab_free.push(h);
                    imp.push(match r {
                        Ok(()) => "FREED".to_string(),
                        Err(e) => format!("ERR:{}", e.replace(' ', "_")),
                    });
                }
            }
        }
        for (_, l) in live {
            match l {
                Live::S(s) => {
                    let _ = s.close().await;
                }
                Live::R(r) => {
                    let _ = r.close().await;
                }
            }
        }
        let _ = session.end().await;
        let _ = conn.close().await;
        let wire = tokio::time::timeout(Duration::from_secs(10), peer_task).await.map_err(|_| "peer did not finish".to_string())?.map_err(|e| format!("{:?}", e))?;
        Ok((model, imp, wire))
    })
}

/// the property on the wire: no two live links share a handle or a name; a handle reappears only after its detach
fn check_wire(wire: &[String]) -> Option<(String, String)> {
    let mut live: BTreeMap<u32, String> = BTreeMap::new();
    for (i, l) in wire.iter().enumerate() {
        let ws: Vec<&str> = l.split(' ').collect();
        match ws.as_slice() {
            ["attach", name, h] => {
                let h: u32 = h.parse().unwrap_or(0);
                if live.contains_key(&h) {
                    return Some(("handle-in-use".into(), format!("wire event {}: attach of {} on handle {} still held by {}", i, name, h, live[&h])));
                }
                if live.values().any(|n| n == name) {
                    return Some(("name-attached-twice".into(), format!("wire event {}: link name {} attached while still live", i, name)));
                }
                live.insert(h, name.to_string());
            }
            ["detach", h] => {
                let h: u32 = h.parse().unwrap_or(0);
                if live.remove(&h).is_none() {
                    return Some(("detach-of-unattached-handle".into(), format!("wire event {}: {}", i, l)));
                }
            }
            _ => {}
        }
    }
    None
}

/// routing: the peer attaches as sender on sparse / large handles of its own and sends one
/// delivery per link in random order; every receiver must get exactly its own
fn run_routing(rng: &mut Rng) -> Result<Option<(String, String)>, String> {
    let n = rng.range(2, 4) as usize;
    let peer_handles: Vec<u32> = {
        let mut v: Vec<u32> = vec![];
        while v.len() < n {
            let h = *rng.pick(&[0u32, 1, 7, 255, 256, 65535, 1 << 20, u32::MAX - 1, u32::MAX]);
            if !v.contains(&h) {
                v.push(h);
            }
        }
        v
    };
    let order: Vec<usize> = {
        let mut o: Vec<usize> = (0..n).collect();
        for i in (1..n).rev() {
            o.swap(i, rng.below(i as u64 + 1) as usize);
        }
        o
    };
    let rt = paused_runtime();
    let ph = peer_handles.clone();
    rt.block_on(async move {
        let (cio, pio) = tokio::io::duplex(1 << 20);
        let mut peer = Peer::new(pio);
        let nn = n;
        let client = tokio::spawn(async move {
            let mut conn = Connection::builder().container_id("c11r").open_with_stream(cio).await.map_err(|e| format!("open: {:?}", e))?;
            let mut session = Session::begin(&mut conn).await.map_err(|e| format!("begin: {:?}", e))?;
            let mut rs = vec![];
            for i in 0..nn {
                let r = Receiver::builder().name(format!("r{}", i)).source("q").credit_mode(CreditMode::Manual).auto_accept(false).attach(&mut session).await.map_err(|e| format!("attach: {:?}", e))?;
                rs.push(r);
            }
            Ok::<_, String>((conn, session, rs))
        });
        peer.accept_open(&PeerOpen::default()).await.map_err(|e| format!("{:?}", e))?;
        peer.accept_begin(0, 0, 2048, 2048).await.map_err(|e| format!("{:?}", e))?;
        for h in ph.iter().take(n) {
            peer.accept_attach(0, *h, Some(0), ReceiverSettleMode::First).await.map_err(|e| format!("{:?}", e))?;
        }
        let (_c, _s, mut rs) = client.await.map_err(|e| format!("{:?}", e))??;
        for r in rs.iter_mut() {
            r.set_credit(10).await.map_err(|e| format!("{:?}", e))?;
        }
        for (k, &i) in order.iter().enumerate() {
            let msg = message_bytes(1000 + i as u64, 8 + i);
            let t = transfer(ph[i], Some(k as u32), Some(vec![i as u8]), Some(true), false);
            peer.send(0, Performative::Transfer(t), &msg).await.map_err(|e| format!("{:?}", e))?;
        }
        for (i, r) in rs.iter_mut().enumerate() {
            match tokio::time::timeout(Duration::from_millis(100), r.recv::<Value>()).await {
                Ok(Ok(d)) => {
                    let ok = matches!(d.body(), Value::Binary(b) if b.len() == 8 + i) && d.delivery_tag().as_ref() == [i as u8];
                    if !ok {
                        return Ok(Some(("misrouted".into(), format!("receiver {} (peer handle {}) got a delivery that is not its own: tag {:?}", i, ph[i], d.delivery_tag()))));
                    }
                }
                other => {
                    let what = match other {
                        Ok(Ok(_)) => "a delivery that is not its own".to_string(),
                        Ok(Err(e)) => format!("{:?}", e),
                        Err(_) => "nothing arrived".to_string(),
                    };
                    return Ok(Some(("not-delivered".into(), format!("receiver {} (peer handle {}): {}", i, ph[i], what))));
                }
            }
            // and nothing else
            if let Ok(Ok(_)) = tokio::time::timeout(Duration::from_millis(20), r.recv::<Value>()).await {
                return Ok(Some(("extra-delivery".into(), format!("receiver {} got a second delivery", i))));
            }
        }
        Ok(None)
    })
}

/// a history of attaches, detaches (by either side) and transfers on up to three receiving links, the
/// peer picking its handles from a small pool and re-using them after a detach; every step is written
/// as a line for the routing model (`Amqp/Routing.lean`, driver prefix `U`) together with what the
/// implementation did: the output handle on the wire, the receiver that was handed the delivery
fn run_routing_history(rng: &mut Rng) -> Result<(Vec<String>, Vec<String>, Option<(String, String)>), String> {
    #[derive(Clone, Debug)]
    enum ROp {
        Attach(usize),
        Close(usize),
        PeerCloses(usize),
        Transfer(usize),
        Stale,
    }
    let n_ops = rng.range(3, 12) as usize;
    let pool = [0u32, 1, 7, 65535, u32::MAX];
    let mut ops: Vec<ROp> = vec![];
    {
        let mut att = [false; 3];
        for k in 0..n_ops {
            let i = rng.below(3) as usize;
            let op = if !att[i] {
                att[i] = true;
                ROp::Attach(i)
            } else {
                match rng.below(6) {
                    0 => {
                        att[i] = false;
                        ROp::Close(i)
                    }
                    1 => {
                        att[i] = false;
                        ROp::PeerCloses(i)
                    }
                    _ => ROp::Transfer(i),
                }
            };
            ops.push(op);
            if k + 1 == n_ops && rng.chance(1, 4) {
                ops.push(ROp::Stale);
            }
        }
    }
    let rt = paused_runtime();
    let mut r2 = rng.fork();
    rt.block_on(async move {
        let (cio, pio) = tokio::io::duplex(1 << 20);
        let mut peer = Peer::new(pio);
        let client = tokio::spawn(async move {
            let mut conn = Connection::builder().container_id("c11h").open_with_stream(cio).await.map_err(|e| format!("open: {:?}", e))?;
            let session = Session::begin(&mut conn).await.map_err(|e| format!("begin: {:?}", e))?;
            Ok::<_, String>((conn, session))
        });
        peer.accept_open(&PeerOpen::default()).await.map_err(|e| format!("{:?}", e))?;
        peer.accept_begin(0, 0, 2048, 2048).await.map_err(|e| format!("{:?}", e))?;
        let (_conn, mut session) = client.await.map_err(|e| format!("{:?}", e))??;
        peer.recv_timeout = Duration::from_millis(200);
        let mut model: Vec<String> = vec!["U reset".into()];
        let mut imp: Vec<String> = vec!["ok".into()];
        let mut receivers: [Option<Receiver>; 3] = [None, None, None];
        // per link: (endpoint number, our handle as seen on the wire, the peer's handle)
        let mut info: [Option<(usize, u32, u32)>; 3] = [None, None, None];
        let mut peer_live: Vec<u32> = vec![];
        let mut freed: Vec<u32> = vec![];
        let mut next_lid = 0usize;
        let mut next_delivery = 0u32;
        for op in &ops {
            match op {
                ROp::Attach(i) => {
                    let free: Vec<u32> = pool.iter().copied().filter(|h| !peer_live.contains(h)).collect();
                    // prefer a handle that was used before
                    let h = match freed.iter().copied().find(|h| free.contains(h)) {
                        Some(h) if r2.chance(2, 3) => h,
                        _ => *r2.pick(&free),
                    };
                    let name = format!("r{}", i);
                    let b = Receiver::builder().name(name.clone()).source("q").credit_mode(CreditMode::Manual).auto_accept(false);
                    let att = tokio::time::timeout(Duration::from_secs(5), b.attach(&mut session));
                    let pa = peer.accept_attach(0, h, Some(0), ReceiverSettleMode::First);
                    let (ra, rp) = tokio::join!(att, pa);
                    let theirs = rp.map_err(|e| format!("peer attach: {:?}", e))?;
                    let mut r = ra.map_err(|_| "the peer's attach did not reach the link: attach() is still waiting".to_string())?.map_err(|e| format!("attach: {:?}", e))?;
                    r.set_credit(20).await.map_err(|e| format!("set_credit: {:?}", e))?;
                    let _ = peer.recv_frame().await; // the flow
                    model.push(format!("U alloc {}", name));
                    imp.push(format!("A {} {}", next_lid, theirs.handle.0));
                    model.push(format!("U inattach {} {}", name, h));
                    imp.push(format!("TO {}", next_lid));
                    info[*i] = Some((next_lid, theirs.handle.0, h));
                    next_lid += 1;
                    peer_live.push(h);
                    receivers[*i] = Some(r);
                }
                ROp::Close(i) => {
                    let r = receivers[*i].take().ok_or("close of a link that is not attached")?;
                    let (lid, _out, h) = info[*i].take().ok_or("no info")?;
                    let closing = tokio::spawn(async move { tokio::time::timeout(Duration::from_secs(5), r.close()).await.unwrap_or(Ok(())) });
                    let out = loop {
                        match peer.recv_frame().await {
                            Ok((_, Performative::Detach(d), _)) => break d.handle.0,
                            Ok(_) => {}
                            Err(e) => return Err(format!("no detach from the client: {:?}", e)),
                        }
                    };
                    model.push(format!("U dealloc {}", out));
                    imp.push("DONE".into());
                    peer.send(0, Performative::Detach(Detach { handle: Handle(h), closed: true, error: None }), &[]).await.map_err(|e| format!("{:?}", e))?;
                    let res = closing.await.map_err(|e| format!("{:?}", e))?;
                    model.push(format!("U indetach {}", h));
                    imp.push(if res.is_ok() { format!("TO {}", lid) } else { format!("close-failed:{:?}", res.err()) });
                    peer_live.retain(|x| *x != h);
                    freed.push(h);
                }
                ROp::PeerCloses(i) => {
                    let r = receivers[*i].take().ok_or("close of a link that is not attached")?;
                    let (lid, my_out, h) = info[*i].take().ok_or("no info")?;
                    peer.send(0, Performative::Detach(Detach { handle: Handle(h), closed: true, error: None }), &[]).await.map_err(|e| format!("{:?}", e))?;
                    tokio::time::sleep(Duration::from_millis(5)).await;
                    let closing = tokio::spawn(async move { tokio::time::timeout(Duration::from_secs(5), r.close()).await.unwrap_or(Ok(())) });
                    let out = loop {
                        match peer.recv_frame().await {
                            Ok((_, Performative::Detach(d), _)) => break Some(d.handle.0),
                            Ok(_) => {}
                            Err(_) => break None,
                        }
                    };
                    let _ = closing.await.map_err(|e| format!("{:?}", e))?;
                    model.push(format!("U indetach {}", h));
                    // the endpoint that saw the peer's close answers it, on its own output handle
                    imp.push(if out == Some(my_out) { format!("TO {}", lid) } else { format!("answered-on:{:?}", out) });
                    model.push(format!("U dealloc {}", out.map(|x| x as i64).unwrap_or(-1)));
                    imp.push(if out.is_some() { "DONE".into() } else { "no-detach-from-the-client".into() });
                    peer_live.retain(|x| *x != h);
                    freed.push(h);
                }
                ROp::Transfer(i) => {
                    let (_lid, _out, h) = info[*i].ok_or("transfer on a link that is not attached")?;
                    let t = transfer(h, Some(next_delivery), Some(vec![*i as u8, next_delivery as u8]), Some(true), false);
                    next_delivery += 1;
                    peer.send(0, Performative::Transfer(t), &message_bytes(500 + *i as u64, 6)).await.map_err(|e| format!("{:?}", e))?;
                    tokio::time::sleep(Duration::from_millis(5)).await;
                    let mut got: Vec<usize> = vec![];
                    for (j, r) in receivers.iter_mut().enumerate() {
                        if let Some(r) = r {
                            if let Ok(Ok(_)) = tokio::time::timeout(Duration::from_millis(10), r.recv::<Value>()).await {
                                got.push(info[j].map(|x| x.0).unwrap_or(999));
                            }
                        }
                    }
                    model.push(format!("U frame {}", h));
                    imp.push(match got.as_slice() {
                        [l] => format!("TO {}", l),
                        [] => "nobody".into(),
                        more => format!("several:{:?}", more),
                    });
                }
                ROp::Stale => {
                    // a handle the peer has detached (or never used)
                    let h = freed.iter().copied().find(|h| !peer_live.contains(h)).unwrap_or(4242);
                    let t = transfer(h, Some(next_delivery), Some(vec![9, 9]), Some(true), false);
                    peer.send(0, Performative::Transfer(t), &message_bytes(77, 6)).await.map_err(|e| format!("{:?}", e))?;
                    let mut ended = false;
                    for _ in 0..6 {
                        match peer.recv_frame().await {
                            Ok((_, Performative::End(e), _)) => {
                                ended = e.error.is_some();
                                break;
                            }
                            Ok(_) => {}
                            Err(_) => break,
                        }
                    }
                    let mut got = false;
                    for r in receivers.iter_mut().flatten() {
                        if let Ok(Ok(_)) = tokio::time::timeout(Duration::from_millis(10), r.recv::<Value>()).await {
                            got = true;
                        }
                    }
                    model.push(format!("U frame {}", h));
                    imp.push(if got { "delivered-to-somebody".into() } else if ended { "UNATTACHED".into() } else { "ignored".into() });
                    break;
                }
            }
        }
        // the property, read directly off the two columns: a frame goes to the endpoint attached on its handle
        let verdict = imp.iter().zip(model.iter()).find(|(i, _)| i.starts_with("several") || i.starts_with("delivered-to-somebody") || *i == "nobody").map(|(i, m)| ("misrouted".to_string(), format!("{} -> {}", m, i)));
        Ok((model, imp, verdict))
    })
}

/// a history of session begins, ends (by either side) and deliveries across up to three sessions of one
/// connection, the peer numbering its channels from a small pool and re-using them after an end; every
/// step as a line for the channel-routing model (`Amqp/ChanRouting.lean`, driver prefix `J`) together
/// with what the implementation did
fn run_channel_history(rng: &mut Rng) -> Result<(Vec<String>, Vec<String>, Option<(String, String)>), String> {
    #[derive(Clone, Debug)]
    enum SOp {
        Begin(usize),
        End(usize),
        PeerEnds(usize),
        Transfer(usize),
        Stale,
    }
    let n_ops = rng.range(3, 12) as usize;
    let pool = [0u16, 1, 7, 256, 65535];
    let mut ops: Vec<SOp> = vec![];
    {
        let mut live = [false; 3];
        for k in 0..n_ops {
            let i = rng.below(3) as usize;
            let op = if !live[i] {
                live[i] = true;
                SOp::Begin(i)
            } else {
                match rng.below(6) {
                    0 => {
                        live[i] = false;
                        SOp::End(i)
                    }
                    1 => {
                        live[i] = false;
                        SOp::PeerEnds(i)
                    }
                    _ => SOp::Transfer(i),
                }
            };
            ops.push(op);
            if k + 1 == n_ops && rng.chance(1, 4) {
                ops.push(SOp::Stale);
            }
        }
    }
    let rt = paused_runtime();
    let mut r2 = rng.fork();
    rt.block_on(async move {
        let (cio, pio) = tokio::io::duplex(1 << 20);
        let mut peer = Peer::new(pio);
        let client = tokio::spawn(async move { Connection::builder().container_id("c11j").channel_max(10).open_with_stream(cio).await.map_err(|e| format!("open: {:?}", e)) });
        peer.accept_open(&PeerOpen { channel_max: 65535, ..PeerOpen::default() }).await.map_err(|e| format!("{:?}", e))?;
        let mut conn = client.await.map_err(|e| format!("{:?}", e))??;
        peer.recv_timeout = Duration::from_millis(200);
        let mut model: Vec<String> = vec!["J reset 10".into()];
        let mut imp: Vec<String> = vec!["ok".into()];
        let mut sessions: [Option<(fe2o3_amqp::session::SessionHandle<()>, Receiver)>; 3] = [None, None, None];
        // per slot: (endpoint number, our channel as seen on the wire, the peer's channel)
        let mut info: [Option<(usize, u16, u16)>; 3] = [None, None, None];
        let mut peer_live: Vec<u16> = vec![];
        let mut freed: Vec<u16> = vec![];
        let mut next_sid = 0usize;
        for op in &ops {
            match op {
                SOp::Begin(i) => {
                    let free: Vec<u16> = pool.iter().copied().filter(|c| !peer_live.contains(c)).collect();
                    let pc = match freed.iter().copied().find(|c| free.contains(c)) {
                        Some(c) if r2.chance(2, 3) => c,
                        _ => *r2.pick(&free),
                    };
                    let (rb, rp) = tokio::join!(tokio::time::timeout(Duration::from_secs(5), Session::begin(&mut conn)), peer.accept_begin(pc, 0, 2048, 2048));
                    let (ch, _) = rp.map_err(|e| format!("peer begin: {:?}", e))?;
                    let mut session = match rb {
                        Ok(r) => r.map_err(|e| format!("begin: {:?}", e))?,
                        Err(_) => {
                            model.push("J alloc".into());
                            imp.push(format!("A {} {}", next_sid, ch));
                            model.push(format!("J inbegin {} {}", pc, ch));
                            imp.push("begin-never-completed".into());
                            return Ok((model, imp, Some(("not-routed".into(), format!("the peer's begin on its channel {} answering our channel {} did not reach the session: begin() is still waiting", pc, ch)))));
                        }
                    };
                    model.push("J alloc".into());
                    imp.push(format!("A {} {}", next_sid, ch));
                    model.push(format!("J inbegin {} {}", pc, ch));
                    imp.push(format!("TO {}", next_sid));
                    let b = Receiver::builder().name(format!("s{}", next_sid)).source("q").credit_mode(CreditMode::Manual).auto_accept(false);
                    let (ra, rpa) = tokio::join!(tokio::time::timeout(Duration::from_secs(5), b.attach(&mut session)), async {
                        let (ach, p, _) = peer.recv_frame().await.map_err(|e| format!("{:?}", e))?;
                        let a = match p {
                            Performative::Attach(a) => a,
                            other => return Err(format!("expected attach, got {}", summarize(&other, 0))),
                        };
                        let ours = Attach { name: a.name.clone(), handle: Handle(5), role: Role::Sender, snd_settle_mode: a.snd_settle_mode.clone(), rcv_settle_mode: ReceiverSettleMode::First, source: a.source.clone(), target: a.target.clone(), unsettled: None, incomplete_unsettled: false, initial_delivery_count: Some(0), max_message_size: None, offered_capabilities: None, desired_capabilities: None, properties: None };
                        peer.send(pc, Performative::Attach(ours), &[]).await.map_err(|e| format!("{:?}", e))?;
                        Ok::<u16, String>(ach)
                    });
                    let ach = rpa?;
                    let mut r = ra.map_err(|_| "attach on the new session did not complete".to_string())?.map_err(|e| format!("attach: {:?}", e))?;
                    if ach != ch {
                        return Ok((model, imp, Some(("frame-on-wrong-channel".into(), format!("the attach of the session begun on channel {} went out on channel {}", ch, ach)))));
                    }
                    r.set_credit(20).await.map_err(|e| format!("set_credit: {:?}", e))?;
                    let _ = peer.recv_frame().await;
                    info[*i] = Some((next_sid, ch, pc));
                    next_sid += 1;
                    peer_live.push(pc);
                    sessions[*i] = Some((session, r));
                }
                SOp::End(i) => {
                    let (mut session, r) = sessions[*i].take().ok_or("end of a session that is not live")?;
                    let (sid, ch, pc) = info[*i].take().ok_or("no info")?;
                    drop(r);
                    let ending = tokio::spawn(async move { tokio::time::timeout(Duration::from_secs(5), session.end()).await.unwrap_or(Ok(())) });
                    let out = loop {
                        match peer.recv_frame().await {
                            Ok((c, Performative::End(_), _)) => break c,
                            Ok(_) => {}
                            Err(e) => return Err(format!("no end from the client: {:?}", e)),
                        }
                    };
                    peer.send(pc, Performative::End(fe2o3_amqp_types::performatives::End { error: None }), &[]).await.map_err(|e| format!("{:?}", e))?;
                    let res = ending.await.map_err(|e| format!("{:?}", e))?;
                    model.push(format!("J inend {}", pc));
                    imp.push(if res.is_ok() && out == ch { format!("TO {}", sid) } else { format!("end-failed:{:?}:on-channel-{}", res.err(), out) });
                    model.push(format!("J dealloc {}", ch));
                    imp.push("DONE".into());
                    peer_live.retain(|x| *x != pc);
                    freed.push(pc);
                }
                SOp::PeerEnds(i) => {
                    let (mut session, r) = sessions[*i].take().ok_or("end of a session that is not live")?;
                    let (sid, ch, pc) = info[*i].take().ok_or("no info")?;
                    drop(r);
                    peer.send(pc, Performative::End(fe2o3_amqp_types::performatives::End { error: None }), &[]).await.map_err(|e| format!("{:?}", e))?;
                    let out = loop {
                        match peer.recv_frame().await {
                            Ok((c, Performative::End(_), _)) => break Some(c),
                            Ok(_) => {}
                            Err(_) => break None,
                        }
                    };
                    let _ = tokio::time::timeout(Duration::from_millis(200), session.on_end()).await;
                    model.push(format!("J inend {}", pc));
                    // the session that saw the peer's end answers it, on its own channel
                    imp.push(if out == Some(ch) { format!("TO {}", sid) } else { format!("answered-on:{:?}", out) });
                    model.push(format!("J dealloc {}", ch));
                    imp.push("DONE".into());
                    peer_live.retain(|x| *x != pc);
                    freed.push(pc);
                }
                SOp::Transfer(i) => {
                    let (_sid, _ch, pc) = info[*i].ok_or("transfer on a session that is not live")?;
                    let t = transfer(5, Some(0), Some(vec![*i as u8]), Some(true), false);
                    peer.send(pc, Performative::Transfer(t), &message_bytes(700 + *i as u64, 6)).await.map_err(|e| format!("{:?}", e))?;
                    tokio::time::sleep(Duration::from_millis(5)).await;
                    let mut got: Vec<usize> = vec![];
                    for (j, s) in sessions.iter_mut().enumerate() {
                        if let Some((_, r)) = s {
                            if let Ok(Ok(_)) = tokio::time::timeout(Duration::from_millis(10), r.recv::<Value>()).await {
                                got.push(info[j].map(|x| x.0).unwrap_or(999));
                            }
                        }
                    }
                    model.push(format!("J frame {}", pc));
                    imp.push(match got.as_slice() {
                        [l] => format!("TO {}", l),
                        [] => "nobody".into(),
                        more => format!("several:{:?}", more),
                    });
                }
                SOp::Stale => {
                    let pc = freed.iter().copied().find(|c| !peer_live.contains(c)).unwrap_or(4242);
                    let t = transfer(5, Some(0), Some(vec![9]), Some(true), false);
                    peer.send(pc, Performative::Transfer(t), &message_bytes(78, 6)).await.map_err(|e| format!("{:?}", e))?;
                    let mut closed = false;
                    for _ in 0..8 {
                        match peer.recv_frame().await {
                            Ok((_, Performative::Close(c), _)) => {
                                closed = c.error.is_some();
                                break;
                            }
                            Ok(_) => {}
                            Err(_) => break,
                        }
                    }
                    model.push(format!("J frame {}", pc));
                    imp.push(if closed { "NOTFOUND".into() } else { "ignored".into() });
                    break;
                }
            }
        }
        let verdict = imp.iter().zip(model.iter()).find(|(i, _)| i.starts_with("several") || *i == "nobody").map(|(i, m)| ("misrouted".to_string(), format!("{} -> {}", m, i)));
        Ok((model, imp, verdict))
    })
}

/// routing by channel: 2..4 sessions; the peer answers every begin on a channel of its own choosing
/// (a permutation of the client's, sparse, large), one receiver per session, one delivery per session
/// in random order; every receiver must get exactly its own, and every frame the client sends for a
/// session goes out on the channel the client announced for it
fn run_channel_routing(rng: &mut Rng) -> Result<Option<(String, String)>, String> {
    let n = rng.range(2, 4) as usize;
    let peer_channels: Vec<u16> = match rng.below(3) {
        0 => {
            // a permutation of what the client uses
            let mut v: Vec<u16> = (0..n as u16).collect();
            v.reverse();
            if n > 2 && rng.chance(1, 2) {
                v.swap(0, 1);
            }
            v
        }
        _ => {
            let mut v: Vec<u16> = vec![];
            while v.len() < n {
                let c = *rng.pick(&[0u16, 1, 2, 3, 7, 255, 256, 1000, 65534, 65535]);
                if !v.contains(&c) {
                    v.push(c);
                }
            }
            v
        }
    };
    let order: Vec<usize> = {
        let mut o: Vec<usize> = (0..n).collect();
        for i in (1..n).rev() {
            o.swap(i, rng.below(i as u64 + 1) as usize);
        }
        o
    };
    let rt = paused_runtime();
    let pc = peer_channels.clone();
    rt.block_on(async move {
        let (cio, pio) = tokio::io::duplex(1 << 20);
        let mut peer = Peer::new(pio);
        let nn = n;
        let client = tokio::spawn(async move {
            let mut conn = Connection::builder().container_id("c11c").channel_max(65535).open_with_stream(cio).await.map_err(|e| format!("open: {:?}", e))?;
            let mut ss = vec![];
            let mut rs = vec![];
            for i in 0..nn {
                let mut session = Session::begin(&mut conn).await.map_err(|e| format!("begin {}: {:?}", i, e))?;
                let r = Receiver::builder().name(format!("r{}", i)).source("q").credit_mode(CreditMode::Manual).auto_accept(false).attach(&mut session).await.map_err(|e| format!("attach on session {}: {:?}", i, e))?;
                ss.push(session);
                rs.push(r);
            }
            Ok::<_, String>((conn, ss, rs))
        });
        peer.accept_open(&PeerOpen { channel_max: 65535, ..PeerOpen::default() }).await.map_err(|e| format!("{:?}", e))?;
        let mut client_channels = vec![];
        for i in 0..n {
            let (ch, _) = peer.accept_begin(pc[i], 0, 2048, 2048).await.map_err(|e| format!("{:?}", e))?;
            client_channels.push(ch);
            // the attach of session i has to arrive on the channel the client announced for session i
            let (ach, p, _) = peer.recv_frame().await.map_err(|e| format!("{:?}", e))?;
            let a = match p {
                Performative::Attach(a) => a,
                other => return Ok(Some(("unexpected-frame".into(), format!("expected the attach of session {}, got {}", i, summarize(&other, 0))))),
            };
            if ach != ch {
                return Ok(Some(("frame-on-wrong-channel".into(), format!("the attach of session {} (begun on channel {}) was sent on channel {}", i, ch, ach))));
            }
            let ours = Attach {
                name: a.name.clone(),
                handle: Handle(5),
                role: Role::Sender,
                snd_settle_mode: a.snd_settle_mode.clone(),
                rcv_settle_mode: ReceiverSettleMode::First,
                source: a.source.clone(),
                target: a.target.clone(),
                unsettled: None,
                incomplete_unsettled: false,
                initial_delivery_count: Some(0),
                max_message_size: None,
                offered_capabilities: None,
                desired_capabilities: None,
                properties: None,
            };
            peer.send(pc[i], Performative::Attach(ours), &[]).await.map_err(|e| format!("{:?}", e))?;
        }
        let (_c, _ss, mut rs) = match tokio::time::timeout(Duration::from_secs(5), client).await {
            Err(_) => return Ok(Some(("not-routed".into(), format!("begin / attach answers on the peer's channels {:?} did not reach their sessions: the client is still waiting", pc)))),
            Ok(r) => match r.map_err(|e| format!("{:?}", e))? {
                Ok(x) => x,
                Err(e) => return Ok(Some(("not-routed".into(), format!("peer channels {:?} (client channels {:?}): {}", pc, client_channels, e)))),
            },
        };
        for r in rs.iter_mut() {
            r.set_credit(10).await.map_err(|e| format!("{:?}", e))?;
        }
        for &i in order.iter() {
            let msg = message_bytes(2000 + i as u64, 8 + i);
            let t = transfer(5, Some(0), Some(vec![i as u8]), Some(true), false);
            peer.send(pc[i], Performative::Transfer(t), &msg).await.map_err(|e| format!("{:?}", e))?;
        }
        for (i, r) in rs.iter_mut().enumerate() {
            match tokio::time::timeout(Duration::from_millis(100), r.recv::<Value>()).await {
                Ok(Ok(d)) => {
                    let ok = matches!(d.body(), Value::Binary(b) if b.len() == 8 + i) && d.delivery_tag().as_ref() == [i as u8];
                    if !ok {
                        return Ok(Some(("misrouted".into(), format!("the receiver of session {} (peer channel {}) got a delivery that is not its own: tag {:?}", i, pc[i], d.delivery_tag()))));
                    }
                }
                other => {
                    let what = match other {
                        Ok(Ok(_)) => "a delivery that is not its own".to_string(),
                        Ok(Err(e)) => format!("{:?}", e),
                        Err(_) => "nothing arrived".to_string(),
                    };
                    return Ok(Some(("not-delivered".into(), format!("the receiver of session {} (peer channel {}): {}", i, pc[i], what))));
                }
            }
            if let Ok(Ok(_)) = tokio::time::timeout(Duration::from_millis(20), r.recv::<Value>()).await {
                return Ok(Some(("extra-delivery".into(), format!("the receiver of session {} got a second delivery", i))));
            }
        }
        Ok(None)
    })
}

pub fn main(opts: &Opts) {
    let mut report = Report::new(
        "C11",
        "(a) sender scenarios (message sizes around the frame / max-message-size boundaries, both splitting layers, windows 1..2048, \
         credit 1..100, initial ids incl. 2^32-1) observed by a scripted receiver; (b) random attach/detach histories of senders and \
         receivers with repeated names, handles read off the wire and compared with the slab model; (c) routing by sparse / large peer \
         handles and, across 2..4 sessions, by peer-chosen (permuted, sparse, large) channel numbers; non-trivial = a multi-frame delivery, a handle reuse, or 2+ links routed; distinct by hash of the scenario",
    );
    if let Some(path) = &opts.replay {
        let j: J = serde_json::from_str(&std::fs::read_to_string(path).expect("read")).expect("json");
        for (key, which) in [("routing_rng", 0), ("channel_routing_rng", 1)] {
            if let Some(tag) = j.get(key).and_then(|x| x.as_u64()) {
                let mut r = Rng(tag);
                let out = if which == 0 { run_routing(&mut r) } else { run_channel_routing(&mut r) };
                println!("{:?}", out);
                match out {
                    Ok(None) => {
                        println!("REPLAY: property holds on this scenario");
                        std::process::exit(0);
                    }
                    Ok(Some((k, d))) => {
                        println!("REPLAY: property violated [{}]: {}", k, d);
                        std::process::exit(1);
                    }
                    Err(_) => std::process::exit(1),
                }
            }
        }
        if let Some((tag, chan)) = j.get("routing_history_rng").and_then(|x| x.as_u64()).map(|t| (t, false)).or_else(|| j.get("channel_history_rng").and_then(|x| x.as_u64()).map(|t| (t, true))) {
            let mut r = Rng(tag);
            match if chan { run_channel_history(&mut r) } else { run_routing_history(&mut r) } {
                Ok((ml, il, verdict)) => {
                    let model = if driver_available() { run_driver(&ml).unwrap_or_default() } else { vec![] };
                    for (i, l) in ml.iter().enumerate() {
                        println!("{:<28} implementation {:<14} model {}", l, il[i], model.get(i).cloned().unwrap_or_default());
                    }
                    let differs = !model.is_empty() && model != il;
                    if verdict.is_some() || differs {
                        println!("REPLAY: property violated {:?}{}", verdict, if differs { " (model and implementation differ)" } else { "" });
                        std::process::exit(1);
                    }
                    println!("REPLAY: property holds on this scenario");
                    std::process::exit(0);
                }
                Err(e) => {
                    println!("REPLAY: scenario failed: {}", e);
                    std::process::exit(1);
                }
            }
        }
        if let Some(cfg) = j.get("config").and_then(e2e::Config::from_json) {
            let obs = e2e::run(&cfg);
            for t in &obs.transfers {
                println!("transfer id={:?} tag={:?} more={} payload={}", t.delivery_id, t.tag.as_ref().map(|x| hex(x)), t.more, t.payload_len);
            }
            println!("send results: {:?}; errors: {:?}", obs.send_results, obs.errors);
            match check_ids(&cfg, &obs) {
                Some((k, d)) => {
                    println!("REPLAY: property violated [{}]: {}", k, d);
                    std::process::exit(1);
                }
                None => {
                    println!("REPLAY: property holds on this scenario");
                    std::process::exit(0);
                }
            }
        }
        std::process::exit(2);
    }
    let mut rng = Rng::new(opts.seed);
    let n_send = if opts.thorough() { 3000 } else { 300 };
    let corpus = e2e::corpus();
    report.count_n("corpus_cases", corpus.len() as u64);
    for k in 0..(n_send + corpus.len() as u64) {
        let cfg = if (k as usize) < corpus.len() { corpus[k as usize].clone() } else { e2e::gen_config(&mut rng, k) };
        if std::env::var("VERIF_DEBUG").is_ok() {
            eprintln!("case {} {}", k, cfg.to_json());
        }
        let obs = e2e::run(&cfg);
        report.evaluations += 1;
        report.count_n("transfer_frames", obs.transfers.len() as u64);
        if obs.transfers.iter().any(|t| t.more) {
            report.count("scenarios_with_multi_frame_delivery");
            report.nontrivial_case(fnv(&cfg.to_json().to_string()));
        }
        if cfg.peer_max_message_size != 0 && cfg.sizes.iter().any(|s| *s as u64 > cfg.peer_max_message_size) {
            report.count("scenarios_with_link_level_split");
        }
        if k % (n_send / 3).max(1) == 0 {
            report.sample(cfg.to_json());
        }
        if let Some((key, desc)) = check_ids(&cfg, &obs) {
            report.finding(Finding { kind: "violation", key, description: desc, replay: json!({"property": "C11", "module": "ids", "config": cfg.to_json(), "trace": obs.trace.iter().rev().take(30).rev().collect::<Vec<_>>()}) });
        }
    }
    // handles
    let n_h = if opts.thorough() { 2000 } else { 200 };
    let mut model_lines = vec![];
    let mut impl_lines = vec![];
    for k in 0..n_h {
        let ops = gen_hops(&mut rng);
        report.evaluations += 1;
        match run_handles(&ops) {
            Ok((m, i, wire)) => {
                if wire.iter().filter(|l| l.starts_with("detach")).count() > 0 && wire.iter().filter(|l| l.starts_with("attach")).count() > 2 {
                    report.nontrivial_case(fnv(&format!("{:?}", ops)));
                }
                if let Some((key, desc)) = check_wire(&wire) {
                    report.finding(Finding { kind: "violation", key, description: desc, replay: json!({"property": "C11", "module": "ids", "ops": format!("{:?}", ops), "wire": wire}) });
                }
                // model: handles predicted vs handles on the wire
                let attaches: Vec<&String> = wire.iter().filter(|l| l.starts_with("attach")).collect();
                let mut ai = 0;
                for (ml, il) in m.iter().zip(i.iter()) {
                    model_lines.push(ml.clone());
                    if il == "ATTACHED" {
                        let h = attaches.get(ai).map(|l| l.split(' ').nth(2).unwrap_or("?").to_string()).unwrap_or_else(|| "?".into());
                        ai += 1;
                        impl_lines.push(format!("H {}", h));
                    } else {
                        impl_lines.push(il.clone());
                    }
                }
                if k % (n_h / 2).max(1) == 0 {
                    report.sample(json!({"ops": format!("{:?}", ops), "wire": wire}));
                }
            }
            Err(e) => report.finding(Finding { kind: "violation", key: "handles-scenario-failed".into(), description: e, replay: json!({"property": "C11", "module": "ids", "ops": format!("{:?}", ops)}) }),
        }
    }
    // routing
    let n_r = if opts.thorough() { 500 } else { 60 };
    for _ in 0..n_r {
        report.evaluations += 1;
        let mut r2 = rng.fork();
        let tag = r2.0;
        match run_routing(&mut r2) {
            Ok(None) => report.nontrivial_case(tag),
            Ok(Some((key, desc))) => report.finding(Finding { kind: "violation", key, description: desc, replay: json!({"property": "C11", "module": "ids", "routing_rng": tag}) }),
            Err(e) => report.finding(Finding { kind: "violation", key: "routing-scenario-failed".into(), description: e, replay: json!({"property": "C11", "module": "ids", "routing_rng": tag}) }),
        }
    }
    // histories of attaches / detaches / transfers against the routing model
    for _ in 0..(2 * n_r) {
        report.evaluations += 1;
        report.count("routing_histories");
        let mut r2 = rng.fork();
        let tag = r2.0;
        match run_routing_history(&mut r2) {
            Ok((ml, il, verdict)) => {
                if ml.iter().filter(|l| l.starts_with("U inattach")).count() >= 3 {
                    report.nontrivial_case(tag ^ 0x77);
                }
                if let Some((key, desc)) = verdict {
                    report.finding(Finding { kind: "violation", key, description: desc, replay: json!({"property": "C11", "module": "ids", "routing_history_rng": tag, "model_lines": ml, "implementation": il}) });
                }
                model_lines.extend(ml);
                impl_lines.extend(il);
            }
            Err(e) => report.finding(Finding { kind: "violation", key: "routing-history-failed".into(), description: e, replay: json!({"property": "C11", "module": "ids", "routing_history_rng": tag}) }),
        }
    }
    // histories of begins / ends / deliveries against the channel-routing model
    for _ in 0..(2 * n_r) {
        report.evaluations += 1;
        report.count("channel_histories");
        let mut r2 = rng.fork();
        let tag = r2.0;
        match run_channel_history(&mut r2) {
            Ok((ml, il, verdict)) => {
                if ml.iter().filter(|l| l.starts_with("J inbegin")).count() >= 3 {
                    report.nontrivial_case(tag ^ 0x99);
                }
                if let Some((key, desc)) = verdict {
                    report.finding(Finding { kind: "violation", key: format!("channel-routing:{}", key), description: desc, replay: json!({"property": "C11", "module": "ids", "channel_history_rng": tag, "model_lines": ml, "implementation": il}) });
                }
                model_lines.extend(ml);
                impl_lines.extend(il);
            }
            Err(e) => report.finding(Finding { kind: "violation", key: "channel-history-failed".into(), description: e, replay: json!({"property": "C11", "module": "ids", "channel_history_rng": tag}) }),
        }
    }
    // routing by channel
    for _ in 0..n_r {
        report.evaluations += 1;
        report.count("channel_routing_cases");
        let mut r2 = rng.fork();
        let tag = r2.0;
        match run_channel_routing(&mut r2) {
            Ok(None) => report.nontrivial_case(tag ^ 0x11),
            Ok(Some((key, desc))) => report.finding(Finding { kind: "violation", key: format!("channel-routing:{}", key), description: desc, replay: json!({"property": "C11", "module": "ids", "channel_routing_rng": tag}) }),
            Err(e) => report.finding(Finding { kind: "violation", key: "channel-routing-scenario-failed".into(), description: e, replay: json!({"property": "C11", "module": "ids", "channel_routing_rng": tag}) }),
        }
    }
    if driver_available() {
        match run_driver(&model_lines) {
            Ok(model) => {
                report.model_used = true;
                report.model_lines = model.len() as u64;
                let mut bad = 0;
                for i in 0..model.len() {
                    if model[i] != impl_lines[i] {
                        if bad == 0 {
                            report.finding(Finding { kind: "disagreement", key: "model-vs-implementation".into(), description: format!("{} -> implementation {} model {}", model_lines[i], impl_lines[i], model[i]), replay: json!({"property": "C11", "module": "ids", "line": model_lines[i], "implementation": impl_lines[i], "model": model[i]}) });
                        }
                        bad += 1;
                    }
                }
                report.count_n("lines_disagreeing_with_model", bad);
            }
            Err(e) => report.notes.push(format!("model driver failed: {}", e)),
        }
    } else {
        report.notes.push("model driver not available: correspondence skipped".into());
    }
    report.write(&opts.report);
    println!("ids: {} cases, {} non-trivial, {} findings", report.evaluations, report.nontrivial.len(), report.findings.len());
}
