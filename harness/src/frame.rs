//! C06 — frames on the wire.  Drives the public `transport::Transport` as a
//! `Sink<Frame>` / `Stream` over an in-memory pipe, parses what it writes with an
//! independent frame parser, and compares with the Lean model (`Amqp.Frame`).

use std::time::Duration;

use bytes::Bytes;
use fe2o3_amqp::frames::amqp::{Frame, FrameBody};
use fe2o3_amqp::transport::Transport;
use fe2o3_amqp_types::definitions::{DeliveryTag, Handle, ReceiverSettleMode, Role};
use fe2o3_amqp_types::performatives::{Begin, Close, Detach, Disposition, End, Flow, Open, Performative, Transfer};
use futures_util::{SinkExt, StreamExt};
use serde::Deserialize;
use serde_json::{json, Value as J};
use tokio::io::{AsyncReadExt, AsyncWriteExt};

use crate::common::*;
use crate::peer::paused_runtime;

#[derive(Clone, Debug)]
pub struct Case {
    pub max_frame_size: usize,
    pub channel: u16,
    pub tag_len: usize,
    pub payload_len: usize,
    pub settled: Option<bool>,
    pub more: bool,
    pub delivery_id: Option<u32>,
    pub rcv_settle_mode: bool,
    pub batchable: bool,
    pub seed: u64,
}

impl Case {
    fn to_json(&self) -> J {
        json!({"max_frame_size": self.max_frame_size, "channel": self.channel, "tag_len": self.tag_len, "payload_len": self.payload_len,
               "settled": self.settled, "more": self.more, "delivery_id": self.delivery_id, "rcv_settle_mode": self.rcv_settle_mode,
               "batchable": self.batchable, "seed": self.seed})
    }
    fn from_json(j: &J) -> Option<Case> {
        Some(Case {
            max_frame_size: j.get("max_frame_size")?.as_u64()? as usize,
            channel: j.get("channel")?.as_u64()? as u16,
            tag_len: j.get("tag_len")?.as_u64()? as usize,
            payload_len: j.get("payload_len")?.as_u64()? as usize,
            settled: j.get("settled").and_then(|x| x.as_bool()),
            more: j.get("more")?.as_bool()?,
            delivery_id: j.get("delivery_id").and_then(|x| x.as_u64()).map(|x| x as u32),
            rcv_settle_mode: j.get("rcv_settle_mode")?.as_bool()?,
            batchable: j.get("batchable")?.as_bool()?,
            seed: j.get("seed")?.as_u64()?,
        })
    }
    fn payload(&self) -> Vec<u8> {
        let mut r = Rng::new(self.seed);
        (0..self.payload_len).map(|_| r.next() as u8).collect()
    }
    fn transfer(&self) -> Transfer {
        let mut r = Rng::new(self.seed ^ 0x55);
        Transfer {
            handle: Handle(r.below(300) as u32),
            delivery_id: self.delivery_id,
            delivery_tag: Some(DeliveryTag::from((0..self.tag_len).map(|_| r.next() as u8).collect::<Vec<u8>>())),
            message_format: Some(0),
            settled: self.settled,
            more: self.more,
            rcv_settle_mode: if self.rcv_settle_mode { Some(ReceiverSettleMode::Second) } else { None },
            state: None,
            resume: false,
            aborted: false,
            batchable: self.batchable,
        }
    }
}

fn enc(t: &Transfer) -> Vec<u8> {
    serde_amqp::to_vec(&Performative::Transfer(t.clone())).expect("encode transfer")
}

/// the four performative encodings `encode_transfer` uses (what a continuation frame may carry
/// is the property's: handle, more and the flags; not delivery-id, tag, format, settled, rcv-settle-mode)
fn perf_variants(t: &Transfer) -> [Vec<u8>; 4] {
    let p0 = enc(t);
    let mut t1 = t.clone();
    t1.more = true;
    let p1 = enc(&t1);
    let mut t2 = t1.clone();
    t2.delivery_id = None;
    t2.delivery_tag = None;
    t2.message_format = None;
    t2.settled = None;
    t2.rcv_settle_mode = None;
    let p2 = enc(&t2);
    let mut t3 = t2.clone();
    t3.more = t.more;
    let p3 = enc(&t3);
    [p0, p1, p2, p3]
}

/// bytes the real transport writes for one frame
fn write_through_transport(max_frame_size: usize, frame: Frame) -> Result<Vec<u8>, String> {
    let rt = paused_runtime();
    rt.block_on(async move {
        let (a, mut b) = tokio::io::duplex(1 << 22);
        let mut transport: Transport<_, Frame> = Transport::bind(a, 512, None);
        transport.set_encoder_max_frame_size(max_frame_size);
        transport.send(frame).await.map_err(|e| format!("send: {:?}", e))?;
        drop(transport);
        let mut out = vec![];
        b.read_to_end(&mut out).await.map_err(|e| e.to_string())?;
        Ok(out)
    })
}

/// independent parser: split a byte stream into frames by the size field
fn split_frames(bytes: &[u8]) -> Result<Vec<Vec<u8>>, String> {
    let mut out = vec![];
    let mut i = 0;
    while i < bytes.len() {
        if i + 4 > bytes.len() {
            return Err(format!("truncated size field at {}", i));
        }
        let size = u32::from_be_bytes([bytes[i], bytes[i + 1], bytes[i + 2], bytes[i + 3]]) as usize;
        if size < 8 || i + size > bytes.len() {
            return Err(format!("frame at {} has size {} (stream has {} bytes left)", i, size, bytes.len() - i));
        }
        out.push(bytes[i..i + size].to_vec());
        i += size;
    }
    Ok(out)
}

fn parse_frame(frame: &[u8]) -> Result<(u16, Option<Performative>, Vec<u8>), String> {
    let doff = frame[4] as usize;
    if doff < 2 || doff * 4 > frame.len() {
        return Err(format!("doff {}", doff));
    }
    if frame[5] != 0 {
        return Err(format!("frame type {}", frame[5]));
    }
    let ch = u16::from_be_bytes([frame[6], frame[7]]);
    let body = &frame[doff * 4..];
    if body.is_empty() {
        return Ok((ch, None, vec![]));
    }
    let mut cur = std::io::Cursor::new(body);
    let p = {
        let reader = serde_amqp::read::IoReader::new(&mut cur);
        let mut de = serde_amqp::de::Deserializer::new(reader);
        Performative::deserialize(&mut de).map_err(|e| format!("performative: {}", e))?
    };
    let pos = cur.position() as usize;
    Ok((ch, Some(p), body[pos..].to_vec()))
}

/// the property for an outgoing transfer, judged on the bytes written
fn check_transfer(case: &Case, wire: &[u8]) -> Option<(String, String)> {
    let t = case.transfer();
    let payload = case.payload();
    let frames = match split_frames(wire) {
        Ok(f) => f,
        Err(e) => return Some(("not-a-frame-sequence".into(), e)),
    };
    if frames.is_empty() {
        return Some(("nothing-written".into(), String::new()));
    }
    let mut got_payload = vec![];
    let n = frames.len();
    for (i, f) in frames.iter().enumerate() {
        if f.len() > case.max_frame_size.max(512) {
            return Some(("frame-too-large".into(), format!("frame {} of {} has {} bytes, max-frame-size {}", i, n, f.len(), case.max_frame_size)));
        }
        let (ch, p, pl) = match parse_frame(f) {
            Ok(x) => x,
            Err(e) => return Some(("frame-undecodable".into(), format!("frame {} of {}: {}", i, n, e))),
        };
        if ch != case.channel {
            return Some(("channel".into(), format!("frame {} on channel {}", i, ch)));
        }
        let tr = match p {
            Some(Performative::Transfer(tr)) => tr,
            other => return Some(("not-a-transfer".into(), format!("frame {}: {:?}", i, other))),
        };
        got_payload.extend_from_slice(&pl);
        let last = i + 1 == n;
        if tr.more != (if last { t.more } else { true }) {
            return Some(("more-flag".into(), format!("frame {} of {} has more={}", i, n, tr.more)));
        }
        if tr.handle != t.handle {
            return Some(("handle".into(), format!("frame {}", i)));
        }
        if i == 0 {
            let mut expect = t.clone();
            expect.more = tr.more;
            if format!("{:?}", tr) != format!("{:?}", expect) {
                return Some(("first-frame-fields".into(), format!("{:?} vs {:?}", tr, expect)));
            }
        } else {
            // continuation frames may repeat or omit the delivery fields, but never contradict them
            if tr.delivery_id.is_some() && tr.delivery_id != t.delivery_id
                || tr.delivery_tag.is_some() && tr.delivery_tag != t.delivery_tag
                || tr.message_format.is_some() && tr.message_format != t.message_format
                || tr.settled.is_some() && tr.settled != t.settled
                || tr.aborted
                || tr.resume != t.resume
            {
                return Some(("continuation-fields".into(), format!("frame {}: {:?}", i, tr)));
            }
        }
    }
    if got_payload != payload {
        return Some(("payload".into(), format!("payload of {} bytes came out as {} bytes{}", payload.len(), got_payload.len(), if got_payload.len() == payload.len() { " (content differs)" } else { "" })));
    }
    None
}

fn gen_case(rng: &mut Rng, k: u64) -> Case {
    let max_frame_size = match rng.below(7) {
        0 => 512,
        1 => 513,
        2 => 1024,
        3 => 4096,
        4 => 65536,
        5 => rng.range(512, 2000) as usize,
        _ => rng.range(512, 70000) as usize,
    };
    let tag_len = *rng.pick(&[0usize, 1, 4, 16, 31, 32]);
    // payload lengths around every multiple of the frame body size
    let body = max_frame_size - 8;
    let mult = rng.below(4) as usize;
    let around = (mult * body) as i64 + rng.range(0, 80) as i64 - 60;
    let payload_len = match rng.below(5) {
        0 => rng.below(40) as usize,
        1 => rng.range(0, (3 * body) as u64) as usize,
        _ => around.max(0) as usize,
    };
    Case {
        max_frame_size,
        channel: *rng.pick(&[0u16, 1, 255, 256, 65535]),
        tag_len,
        payload_len,
        settled: *rng.pick(&[None, Some(false), Some(true)]),
        more: rng.chance(1, 5),
        delivery_id: if rng.chance(4, 5) { Some(rng.next() as u32) } else { None },
        rcv_settle_mode: rng.chance(1, 5),
        batchable: rng.chance(1, 5),
        seed: k,
    }
}

fn other_frames(rng: &mut Rng) -> Vec<(u16, FrameBody)> {
    let err = || fe2o3_amqp_types::definitions::Error::new(fe2o3_amqp_types::definitions::AmqpError::InternalError, Some("x".repeat(rng_len())), None);
    fn rng_len() -> usize {
        17
    }
    vec![
        (0, FrameBody::Open(Open { container_id: "c".repeat(rng.range(1, 60) as usize), hostname: Some("h".into()), max_frame_size: 4096u32.into(), channel_max: 7u16.into(), idle_time_out: Some(1000), outgoing_locales: None, incoming_locales: None, offered_capabilities: None, desired_capabilities: None, properties: None })),
        (3, FrameBody::Begin(Begin { remote_channel: Some(1), next_outgoing_id: rng.next() as u32, incoming_window: 5, outgoing_window: 6, handle_max: Handle(9), offered_capabilities: None, desired_capabilities: None, properties: None })),
        (3, FrameBody::Flow(Flow { next_incoming_id: Some(rng.next() as u32), incoming_window: 1, next_outgoing_id: 2, outgoing_window: 3, handle: Some(Handle(4)), delivery_count: Some(5), link_credit: Some(6), available: None, drain: true, echo: false, properties: None })),
        (3, FrameBody::Disposition(Disposition { role: Role::Receiver, first: rng.next() as u32, last: Some(7), settled: true, state: None, batchable: false })),
        (3, FrameBody::Detach(Detach { handle: Handle(1), closed: true, error: Some(err()) })),
        (3, FrameBody::End(End { error: None })),
        (0, FrameBody::Close(Close { error: Some(err()) })),
        (0, FrameBody::Empty),
    ]
}

/// feed `bytes` to the real transport in the given partition; returns Debug strings of what comes out
fn read_through_transport(max_frame_size: usize, bytes: &[u8], cuts: &[usize]) -> Vec<String> {
    let rt = paused_runtime();
    let bytes = bytes.to_vec();
    let cuts = cuts.to_vec();
    rt.block_on(async move {
        let (a, mut b) = tokio::io::duplex(1 << 22);
        let mut transport: Transport<_, Frame> = Transport::bind(a, 512, None);
        transport.set_decoder_max_frame_size(max_frame_size);
        let writer = tokio::spawn(async move {
            let mut prev = 0;
            for c in cuts.iter().chain(std::iter::once(&bytes.len())) {
                if *c > prev {
                    let _ = b.write_all(&bytes[prev..*c]).await;
                    let _ = b.flush().await;
                    prev = *c;
                    tokio::task::yield_now().await;
                    tokio::time::sleep(Duration::from_millis(1)).await;
                }
            }
            drop(b);
        });
        let mut out = vec![];
        while let Some(item) = transport.next().await {
            match item {
                Ok(f) => out.push(format!("{:?}", f).replace(' ', "")),
                Err(e) => {
                    out.push(format!("ERR:{:?}", e).replace(' ', ""));
                    break;
                }
            }
        }
        let _ = writer.await;
        out
    })
}

/// the size negotiated in the open exchange, applied by the connection engine: an endpoint configured with
/// max-frame-size `local` whose peer advertises `remote` sends one pre-settled message of `size` octets;
/// returns the sizes of the transfer frames the peer read and whether their payloads make up the message
pub fn run_negotiated(local: u32, remote: u32, size: usize, listener: bool) -> Result<(Vec<usize>, bool, Vec<bool>), String> {
    use crate::peer::*;
    use fe2o3_amqp::acceptor::{ConnectionAcceptor, LinkAcceptor, LinkEndpoint, SessionAcceptor};
    use fe2o3_amqp::{Connection, Sender, Session};
    use fe2o3_amqp_types::messaging::{Message, Source, Target};
    use fe2o3_amqp_types::performatives::Attach;
    use fe2o3_amqp_types::definitions::SenderSettleMode;
    use serde_amqp::primitives::Binary;
    let rt = paused_runtime();
    rt.block_on(async move {
        let (aio, pio) = tokio::io::duplex(1 << 22);
        let mut peer = Peer::new(pio);
        peer.recv_timeout = Duration::from_secs(3);
        let body: Vec<u8> = (0..size).map(|i| (i * 13 + 5) as u8).collect();
        let b2 = body.clone();
        let e = |x: PeerError| format!("{:?}", x);
        let app = if listener {
            tokio::spawn(async move {
                let acc = ConnectionAcceptor::builder().container_id("neg").max_frame_size(local).build();
                let mut conn = acc.accept(aio).await.map_err(|e| format!("accept: {:?}", e))?;
                let mut session = SessionAcceptor::new().accept(&mut conn).await.map_err(|e| format!("session accept: {:?}", e))?;
                match LinkAcceptor::new().accept(&mut session).await.map_err(|e| format!("link accept: {:?}", e))? {
                    LinkEndpoint::Sender(mut s) => {
                        let sendable = fe2o3_amqp::link::delivery::Sendable::builder().message(Message::from(Binary::from(b2))).settled(true).build();
                        let _ = tokio::time::timeout(Duration::from_secs(5), s.send(sendable)).await;
                        tokio::time::sleep(Duration::from_secs(1)).await;
                        let _ = tokio::time::timeout(Duration::from_secs(1), s.close()).await;
                    }
                    LinkEndpoint::Receiver(_) => return Err("accepted a receiver".to_string()),
                }
                let _ = tokio::time::timeout(Duration::from_secs(1), session.on_end()).await;
                let _ = tokio::time::timeout(Duration::from_secs(1), conn.close()).await;
                Ok::<_, String>(())
            })
        } else {
            tokio::spawn(async move {
                let mut conn = Connection::builder().container_id("neg").max_frame_size(local).open_with_stream(aio).await.map_err(|e| format!("open: {:?}", e))?;
                let mut session = Session::begin(&mut conn).await.map_err(|e| format!("begin: {:?}", e))?;
                let mut s = Sender::builder().name("neg").target("q").sender_settle_mode(SenderSettleMode::Mixed).attach(&mut session).await.map_err(|e| format!("attach: {:?}", e))?;
                let sendable = fe2o3_amqp::link::delivery::Sendable::builder().message(Message::from(Binary::from(b2))).settled(true).build();
                let _ = tokio::time::timeout(Duration::from_secs(5), s.send(sendable)).await;
                tokio::time::sleep(Duration::from_secs(1)).await;
                let _ = tokio::time::timeout(Duration::from_secs(1), s.close()).await;
                let _ = tokio::time::timeout(Duration::from_secs(1), session.end()).await;
                let _ = tokio::time::timeout(Duration::from_secs(1), conn.close()).await;
                Ok::<_, String>(())
            })
        };
        let popen = PeerOpen { max_frame_size: remote, ..PeerOpen::default() };
        let grant = Flow { next_incoming_id: Some(0), incoming_window: 100_000, next_outgoing_id: 0, outgoing_window: 100_000, handle: Some(Handle(0)), delivery_count: Some(0), link_credit: Some(10), available: None, drain: false, echo: false, properties: None };
        if listener {
            peer.send_header().await.map_err(e)?;
            let _ = peer.recv_header().await.map_err(e)?;
            peer.send(0, Performative::Open(popen.to_open()), &[]).await.map_err(e)?;
            let _ = peer.recv_frame().await.map_err(e)?;
            peer.send(0, Performative::Begin(Begin { remote_channel: None, next_outgoing_id: 0, incoming_window: 100_000, outgoing_window: 100_000, handle_max: Handle(u32::MAX), offered_capabilities: None, desired_capabilities: None, properties: None }), &[]).await.map_err(e)?;
            let _ = peer.recv_frame().await.map_err(e)?;
            let a = Attach { name: "neg".into(), handle: Handle(0), role: Role::Receiver, snd_settle_mode: SenderSettleMode::Mixed, rcv_settle_mode: ReceiverSettleMode::First, source: Some(Box::new(Source::default())), target: Some(Box::new(Target::default().into())), unsettled: None, incomplete_unsettled: false, initial_delivery_count: None, max_message_size: None, offered_capabilities: None, desired_capabilities: None, properties: None };
            peer.send(0, Performative::Attach(a), &[]).await.map_err(e)?;
            peer.send(0, Performative::Flow(grant), &[]).await.map_err(e)?;
        } else {
            peer.accept_open(&popen).await.map_err(e)?;
            peer.accept_begin(0, 0, 100_000, 100_000).await.map_err(e)?;
            peer.accept_attach(0, 0, None, ReceiverSettleMode::First).await.map_err(e)?;
            peer.send(0, Performative::Flow(grant), &[]).await.map_err(e)?;
        }
        // raw frames: sizes of the transfer frames, their payloads and `more` flags
        let mut sizes = vec![];
        let mut mores = vec![];
        let mut payload: Vec<u8> = vec![];
        loop {
            match peer.recv_raw_frame().await {
                Ok((doff, _ty, _ch, bodyb)) => {
                    if bodyb.is_empty() {
                        continue;
                    }
                    let total = doff as usize * 4 + bodyb.len();
                    let mut cur = std::io::Cursor::new(&bodyb[..]);
                    let perf = {
                        let reader = serde_amqp::read::IoReader::new(&mut cur);
                        let mut de = serde_amqp::de::Deserializer::new(reader);
                        Performative::deserialize(&mut de).map_err(|e| format!("decode: {}", e))?
                    };
                    if let Performative::Transfer(t) = perf {
                        sizes.push(total);
                        mores.push(t.more);
                        payload.extend_from_slice(&bodyb[cur.position() as usize..]);
                        if !t.more {
                            break;
                        }
                    }
                }
                Err(_) => break,
            }
        }
        drop(peer);
        let _ = tokio::time::timeout(Duration::from_secs(30), app).await;
        let expect = serde_amqp::to_vec(&fe2o3_amqp_types::messaging::message::__private::Serializable(Message::from(Binary::from(body)))).map_err(|e| e.to_string())?;
        Ok((sizes, payload == expect, mores))
    })
}

/// peers that take frames larger than this library's own default (256 KiB), up to no limit at all: transfers
/// larger than 256 KiB through the real transport, judged by the independent parser only (the lines would be
/// megabytes long; the model's theorems hold for every size)
fn large_frames(report: &mut Report) {
    for &mfs in &[262144usize, 262145, 300000, 1 << 20, u32::MAX as usize] {
        for &len in &[262100usize, 262144, 300001, 600000] {
            let case = Case { max_frame_size: mfs, channel: 3, tag_len: 4, payload_len: len, settled: Some(false), more: false, delivery_id: Some(7), rcv_settle_mode: false, batchable: len % 2 == 0, seed: (mfs ^ len) as u64 };
            report.evaluations += 1;
            report.count("large_frame_cases");
            report.nontrivial_case(fnv(&format!("large{}-{}", mfs, len)));
            let frame = Frame::new(case.channel, FrameBody::Transfer { performative: case.transfer(), payload: Bytes::from(case.payload()) });
            match write_through_transport(case.max_frame_size, frame) {
                Ok(wire) => {
                    if let Some((key, desc)) = check_transfer(&case, &wire) {
                        report.finding(Finding { kind: "violation", key: format!("{}:peer-takes-large-frames", key), description: format!("peer max-frame-size {}, a transfer with {} payload octets: {}", mfs, len, desc), replay: json!({"property": "C06", "module": "frame", "case": case.to_json()}) });
                    }
                }
                Err(e) => report.finding(Finding { kind: "violation", key: "transport-error:peer-takes-large-frames".into(), description: format!("peer max-frame-size {}, {} payload octets: {}", mfs, len, e), replay: json!({"property": "C06", "module": "frame", "case": case.to_json()}) }),
            }
        }
    }
}

fn negotiated_sizes(report: &mut Report) {
    for &(local, remote) in &[(512u32, 512u32), (8192, 1024), (1024, 8192), (65536, 600), (600, 65536), (4096, 4095)] {
        for listener in [false, true] {
            let size = 3 * local.max(remote) as usize + 17;
            report.evaluations += 1;
            report.count("negotiated_size_cases");
            report.nontrivial_case(fnv(&format!("neg-{}-{}-{}", local, remote, listener)));
            let replay = json!({"property": "C06", "module": "frame", "negotiated": {"local": local, "remote": remote, "size": size, "listener": listener}});
            match run_negotiated(local, remote, size, listener) {
                Ok((sizes, whole, mores)) => {
                    let flags_ok = !mores.is_empty() && mores[..mores.len() - 1].iter().all(|m| *m) && !mores[mores.len() - 1];
                    if let Some(big) = sizes.iter().find(|s| **s > remote as usize) {
                        report.finding(Finding { kind: "violation", key: "frame-larger-than-the-peer-takes".into(), description: format!("{} configured with max-frame-size {} whose peer advertised {}: a transfer frame of {} octets was written (frames {:?})", if listener { "listener" } else { "client" }, local, remote, big, sizes), replay });
                    } else if !whole || !flags_ok {
                        report.finding(Finding { kind: "violation", key: "negotiated:payload-not-whole".into(), description: format!("{} (local {}, remote {}): frames {:?}, more flags {:?}, payloads concatenate to the message: {}", if listener { "listener" } else { "client" }, local, remote, sizes, mores, whole), replay });
                    }
                }
                Err(e) => report.finding(Finding { kind: "violation", key: "negotiated:scenario-failed".into(), description: e, replay }),
            }
        }
    }
}

pub fn main(opts: &Opts) {
    let mut report = Report::new(
        "C06",
        "transfers (payload lengths around every multiple of the frame body size, max-frame-size 512..70000, tag length 0..32, \
         optional fields present/absent) and every other performative sent through transport::Transport over an in-memory pipe, \
         parsed back by an independent frame parser; byte streams of several frames fed to the transport in random partitions \
         (incl. 1-byte reads and cuts inside the 8-byte header); non-trivial = multi-frame transfer or a partition with a cut \
         inside a frame header; distinct by hash of the case",
    );
    if let Some(path) = &opts.replay {
        let j: J = serde_json::from_str(&std::fs::read_to_string(path).expect("read replay")).expect("json");
        if let Some(n) = j.get("negotiated") {
            let g = |k: &str| n.get(k).and_then(|x| x.as_u64()).unwrap_or(0);
            let r = run_negotiated(g("local") as u32, g("remote") as u32, g("size") as usize, n.get("listener").and_then(|x| x.as_bool()).unwrap_or(false));
            println!("{:?}", r);
            let ok = matches!(&r, Ok((sizes, whole, _)) if *whole && sizes.iter().all(|s| *s <= g("remote") as usize));
            println!("REPLAY: property {} on this scenario", if ok { "holds" } else { "violated" });
            std::process::exit(if ok { 0 } else { 1 });
        }
        let case = Case::from_json(j.get("case").unwrap_or(&j)).expect("case");
        let frame = Frame::new(case.channel, FrameBody::Transfer { performative: case.transfer(), payload: Bytes::from(case.payload()) });
        match write_through_transport(case.max_frame_size, frame) {
            Ok(wire) => {
                println!("wire: {} bytes, frames: {:?}", wire.len(), split_frames(&wire).map(|f| f.iter().map(|x| x.len()).collect::<Vec<_>>()));
                match check_transfer(&case, &wire) {
                    Some((k, d)) => {
                        println!("REPLAY: property violated [{}]: {}", k, d);
                        std::process::exit(1);
                    }
                    None => {
                        println!("REPLAY: property holds on this input");
                        std::process::exit(0);
                    }
                }
            }
            Err(e) => {
                println!("REPLAY: transport error {}", e);
                std::process::exit(1);
            }
        }
    }
    let n_cases: u64 = if opts.thorough() { 20_000 } else { 1_500 };
    negotiated_sizes(&mut report);
    large_frames(&mut report);
    let mut rng = Rng::new(opts.seed);
    let mut model_lines: Vec<String> = vec![];
    let mut impl_lines: Vec<String> = vec![];
    let mut line_case: Vec<J> = vec![];
    let mut fits_ok = 0u64;
    for k in 0..n_cases {
        let case = gen_case(&mut rng, k);
        report.evaluations += 1;
        let t = case.transfer();
        let payload = case.payload();
        let frame = Frame::new(case.channel, FrameBody::Transfer { performative: t.clone(), payload: Bytes::from(payload.clone()) });
        let wire = match write_through_transport(case.max_frame_size, frame) {
            Ok(w) => w,
            Err(e) => {
                report.finding(Finding { kind: "violation", key: "send-error".into(), description: e, replay: json!({"property": "C06", "module": "frame", "case": case.to_json()}) });
                continue;
            }
        };
        let nframes = split_frames(&wire).map(|f| f.len()).unwrap_or(0);
        report.count(match nframes {
            0 => "transfer_frames_0",
            1 => "transfer_frames_1",
            2 => "transfer_frames_2",
            3 => "transfer_frames_3",
            _ => "transfer_frames_4+",
        });
        if nframes >= 2 {
            report.nontrivial_case(fnv(&case.to_json().to_string()));
        }
        if k % (n_cases / 3).max(1) == 0 {
            report.sample(case.to_json());
        }
        if let Some((key, desc)) = check_transfer(&case, &wire) {
            report.finding(Finding { kind: "violation", key, description: desc, replay: json!({"property": "C06", "module": "frame", "case": case.to_json(), "wire_frame_sizes": split_frames(&wire).map(|f| f.iter().map(|x| x.len()).collect::<Vec<_>>()).unwrap_or_default()}) });
        }
        // model: same bytes?
        let [p0, p1, p2, p3] = perf_variants(&t);
        let e = case.max_frame_size.max(512) - 4;
        let b = e - 4;
        if p0.len() <= p1.len() && p1.len() <= b && p2.len() < b && p3.len() <= p2.len() {
            fits_ok += 1;
        }
        let h = |x: &[u8]| if x.is_empty() { "-".to_string() } else { hex(x) };
        model_lines.push(format!("F wire {} {} {} {} {} {} {}", e, case.channel, h(&p0), h(&p1), h(&p2), h(&p3), h(&payload)));
        impl_lines.push(split_frames(&wire).map(|fs| fs.iter().map(|f| hex(f)).collect::<Vec<_>>().join(" ")).unwrap_or_else(|e| format!("unsplittable: {}", e)));
        line_case.push(json!({"case": case.to_json()}));
    }
    report.extra.insert("fits_hypothesis_satisfied".into(), json!(format!("{}/{}", fits_ok, n_cases)));

    // other performatives: decode back to the same frame, single frame, within max-frame-size
    for _ in 0..(if opts.thorough() { 200 } else { 20 }) {
        for (ch, body) in other_frames(&mut rng) {
            report.evaluations += 1;
            let dbg = format!("{:?}", body);
            let perf_bytes: Option<Vec<u8>> = match &body {
                FrameBody::Open(p) => Some(serde_amqp::to_vec(&Performative::Open(p.clone())).unwrap()),
                FrameBody::Begin(p) => Some(serde_amqp::to_vec(&Performative::Begin(p.clone())).unwrap()),
                FrameBody::Flow(p) => Some(serde_amqp::to_vec(&Performative::Flow(p.clone())).unwrap()),
                FrameBody::Disposition(p) => Some(serde_amqp::to_vec(&Performative::Disposition(p.clone())).unwrap()),
                FrameBody::Detach(p) => Some(serde_amqp::to_vec(&Performative::Detach(p.clone())).unwrap()),
                FrameBody::End(p) => Some(serde_amqp::to_vec(&Performative::End(p.clone())).unwrap()),
                FrameBody::Close(p) => Some(serde_amqp::to_vec(&Performative::Close(p.clone())).unwrap()),
                _ => Some(vec![]),
            };
            match write_through_transport(512, Frame::new(ch, body)) {
                Ok(wire) => {
                    let back = read_through_transport(512, &wire, &[]);
                    let expect = format!("Frame{{channel:{},body:{}}}", ch, dbg).replace(' ', "");
                    if back != vec![expect.clone()] {
                        report.finding(Finding { kind: "violation", key: "performative-roundtrip".into(), description: format!("sent {} got {:?}", expect, back), replay: json!({"property": "C06", "module": "frame", "frame": dbg}) });
                    }
                    if wire.len() > 512 {
                        report.finding(Finding { kind: "violation", key: "frame-too-large".into(), description: format!("{} bytes for {}", wire.len(), dbg), replay: json!({"property": "C06", "module": "frame", "frame": dbg}) });
                    }
                    if let Some(pb) = perf_bytes {
                        model_lines.push(format!("F other 508 {} {}", ch, if pb.is_empty() { "-".to_string() } else { hex(&pb) }));
                        impl_lines.push(split_frames(&wire).map(|fs| fs.iter().map(|f| hex(f)).collect::<Vec<_>>().join(" ")).unwrap_or_default());
                        line_case.push(json!({"frame": dbg}));
                    }
                }
                Err(e) => report.finding(Finding { kind: "violation", key: "send-error".into(), description: e, replay: json!({"property": "C06", "module": "frame", "frame": dbg}) }),
            }
        }
    }

    // decode side: partition independence
    let n_streams = if opts.thorough() { 400 } else { 60 };
    let mut dec_model: Vec<(Vec<String>, usize, String)> = vec![]; // (lines, expected frames, expected status)
    for s in 0..n_streams {
        let m = *rng.pick(&[512usize, 600, 4096]);
        let mut stream = vec![];
        let mut expected = 0usize;
        let nf = rng.range(1, 5);
        for _ in 0..nf {
            let mut case = gen_case(&mut rng, 1000 + s);
            case.max_frame_size = m;
            case.payload_len = rng.below((2 * m) as u64) as usize;
            let frame = Frame::new(case.channel, FrameBody::Transfer { performative: case.transfer(), payload: Bytes::from(case.payload()) });
            if let Ok(w) = write_through_transport(m, frame) {
                expected += split_frames(&w).map(|f| f.len()).unwrap_or(0);
                stream.extend_from_slice(&w);
            }
            if rng.chance(1, 4) {
                stream.extend_from_slice(&[0, 0, 0, 8, 2, 0, 0, 0]);
                expected += 1;
            }
        }
        // sometimes a malformed tail: size field too small / too large
        let status = match rng.below(6) {
            0 => {
                stream.extend_from_slice(&[0, 0, 0, 3, 2, 0, 0, 0]);
                "tooShort"
            }
            1 => {
                stream.extend_from_slice(&((m + 1) as u32).to_be_bytes());
                stream.extend_from_slice(&[2, 0, 0, 0]);
                "tooLong"
            }
            _ => "ok",
        };
        let whole = read_through_transport(m, &stream, &[]);
        report.evaluations += 1;
        let parts: Vec<Vec<usize>> = vec![
            (1..stream.len()).collect(),                                                  // 1-byte reads
            (1..stream.len()).filter(|i| i % 7 == 0).collect(),
            (0..rng.range(1, 12)).map(|_| rng.below(stream.len() as u64) as usize).collect::<std::collections::BTreeSet<_>>().into_iter().collect(),
            vec![2], vec![4], vec![5], vec![7], vec![8], vec![9],
        ];
        for cuts in &parts {
            report.evaluations += 1;
            report.nontrivial_case(fnv(&format!("{}:{:?}", s, cuts)));
            let got = read_through_transport(m, &stream, cuts);
            if got != whole {
                report.finding(Finding {
                    kind: "violation",
                    key: "partition-dependent-decoding".into(),
                    description: format!("stream of {} bytes decodes to {} items when read whole and {} items when cut at {:?}", stream.len(), whole.len(), got.len(), &cuts[..cuts.len().min(8)]),
                    replay: json!({"property": "C06", "module": "frame", "stream": hex(&stream), "cuts": cuts, "max_frame_size": m}),
                });
            }
        }
        let frames_ok = whole.iter().filter(|x| !x.starts_with("ERR")).count();
        let failed = whole.iter().any(|x| x.starts_with("ERR"));
        if frames_ok != expected || failed != (status != "ok") {
            report.finding(Finding {
                kind: "violation",
                key: "stream-decoding".into(),
                description: format!("expected {} frames / {} but the transport produced {} frames, error={}: {:?}", expected, status, frames_ok, failed, whole.last()),
                replay: json!({"property": "C06", "module": "frame", "stream": hex(&stream), "max_frame_size": m}),
            });
        }
        // model: feed in the third partition
        let cuts = &parts[2];
        let mut lines = vec![format!("F dinit {}", m)];
        let mut prev = 0;
        for c in cuts.iter().chain(std::iter::once(&stream.len())) {
            if *c > prev {
                lines.push(format!("F dfeed {}", hex(&stream[prev..*c])));
                prev = *c;
            }
        }
        dec_model.push((lines, expected, status.to_string()));
    }

    if driver_available() {
        let mut lines = model_lines.clone();
        let dec_start = lines.len();
        for (l, _, _) in &dec_model {
            lines.extend(l.iter().cloned());
        }
        match run_driver(&lines) {
            Ok(model) => {
                report.model_used = true;
                report.model_lines = model.len() as u64;
                let mut bad = 0;
                for i in 0..model_lines.len() {
                    if model[i] != impl_lines[i] {
                        if bad == 0 {
                            report.finding(Finding {
                                kind: "disagreement",
                                key: "model-vs-implementation".into(),
                                description: "bytes written by the transport differ from the model's wire".into(),
                                replay: json!({"property": "C06", "module": "frame", "input": line_case[i], "line": model_lines[i], "implementation": impl_lines[i], "model": model[i]}),
                            });
                        }
                        bad += 1;
                    }
                }
                report.count_n("wire_lines_disagreeing_with_model", bad);
                // decoder
                let mut i = dec_start;
                let mut dbad = 0;
                for (l, expected, status) in &dec_model {
                    let mut frames = 0usize;
                    let mut st = "ok".to_string();
                    for k in 1..l.len() {
                        let ws: Vec<&str> = model[i + k].split(' ').collect();
                        frames += ws[0].parse::<usize>().unwrap_or(0);
                        st = ws.get(1).unwrap_or(&"?").to_string();
                    }
                    if frames != *expected || &st != status {
                        if dbad == 0 {
                            report.finding(Finding {
                                kind: "disagreement",
                                key: "decoder-model-vs-implementation".into(),
                                description: format!("model decodes {} frames / {}; implementation {} / {}", frames, st, expected, status),
                                replay: json!({"property": "C06", "module": "frame", "lines": l}),
                            });
                        }
                        dbad += 1;
                    }
                    i += l.len();
                }
                report.count_n("decoder_streams_disagreeing_with_model", dbad);
            }
            Err(e) => report.notes.push(format!("model driver failed: {}", e)),
        }
    } else {
        report.notes.push("model driver not available: correspondence skipped".into());
    }
    report.write(&opts.report);
    println!("frame: {} cases, {} non-trivial, {} findings", report.evaluations, report.nontrivial.len(), report.findings.len());
}
