//! A scripted AMQP 1.0 peer speaking over an in-memory duplex pipe.
//!
//! Frame layout (size, doff, type, channel) is written and parsed here,
//! independently of `fe2o3_amqp::frames`; performatives are encoded with
//! `serde_amqp` (whose correctness is the subject of C03/C05).  Everything the
//! peer sends or receives is appended to an event trace with virtual
//! timestamps.

use std::io::Cursor;
use std::sync::{Arc, Mutex};
use std::time::Duration;

use bytes::{Bytes, BytesMut};
use fe2o3_amqp_types::definitions::{self, Handle, ReceiverSettleMode, Role, SenderSettleMode};
use fe2o3_amqp_types::messaging::{Source, Target};
use fe2o3_amqp_types::performatives::{
    Attach, Begin, Close, Detach, Disposition, End, Flow, Open, Performative, Transfer,
};
use serde::Deserialize;
use tokio::io::{AsyncReadExt, AsyncWriteExt, DuplexStream};
use tokio::time::Instant;

pub const AMQP_HEADER: [u8; 8] = [b'A', b'M', b'Q', b'P', 0, 1, 0, 0];
pub const SASL_HEADER: [u8; 8] = [b'A', b'M', b'Q', b'P', 3, 1, 0, 0];

#[derive(Clone, Debug)]
pub struct Event {
    /// virtual milliseconds since the peer was created
    pub t_ms: u64,
    /// `recv` = sent by the endpoint under test, `send` = sent by this peer
    pub dir: &'static str,
    pub channel: u16,
    pub what: String,
}

#[derive(Debug)]
pub enum PeerError {
    Eof,
    Timeout,
    Io(String),
    Decode(String),
}

pub struct Peer {
    pub io: DuplexStream,
    buf: BytesMut,
    pub trace: Arc<Mutex<Vec<Event>>>,
    start: Instant,
    pub recv_timeout: Duration,
}

pub fn summarize(p: &Performative, payload_len: usize) -> String {
    match p {
        Performative::Open(o) => format!("open max_frame_size={} channel_max={} idle={:?}", o.max_frame_size.0, o.channel_max.0, o.idle_time_out),
        Performative::Begin(b) => format!("begin remote_channel={:?} next_outgoing_id={} incoming_window={} outgoing_window={}", b.remote_channel, b.next_outgoing_id, b.incoming_window, b.outgoing_window),
        Performative::Attach(a) => format!("attach name={} handle={} role={:?} initial_delivery_count={:?}", a.name, a.handle.0, a.role, a.initial_delivery_count),
        Performative::Flow(f) => format!(
            "flow nii={:?} iw={} noi={} ow={} handle={:?} dc={:?} credit={:?} drain={} echo={}",
            f.next_incoming_id, f.incoming_window, f.next_outgoing_id, f.outgoing_window, f.handle.as_ref().map(|h| h.0), f.delivery_count, f.link_credit, f.drain, f.echo
        ),
        Performative::Transfer(t) => format!(
            "transfer handle={} id={:?} tag={:?} settled={:?} more={} aborted={} payload={}",
            t.handle.0,
            t.delivery_id,
            t.delivery_tag.as_ref().map(|t| crate::common::hex(t)),
            t.settled,
            t.more,
            t.aborted,
            payload_len
        ),
        Performative::Disposition(d) => format!("disposition role={:?} first={} last={:?} settled={} state={}", d.role, d.first, d.last, d.settled, d.state.as_ref().map(state_name).unwrap_or("none")),
        Performative::Detach(d) => format!("detach handle={} closed={} error={}", d.handle.0, d.closed, d.error.as_ref().map(|e| format!("{:?}", e.condition)).unwrap_or_else(|| "none".into())),
        Performative::End(e) => format!("end error={}", e.error.as_ref().map(|e| format!("{:?}", e.condition)).unwrap_or_else(|| "none".into())),
        Performative::Close(c) => format!("close error={}", c.error.as_ref().map(|e| format!("{:?}", e.condition)).unwrap_or_else(|| "none".into())),
    }
}

pub fn state_name(s: &fe2o3_amqp_types::messaging::DeliveryState) -> &'static str {
    use fe2o3_amqp_types::messaging::DeliveryState::*;
    match s {
        Accepted(_) => "accepted",
        Rejected(_) => "rejected",
        Released(_) => "released",
        Modified(_) => "modified",
        Received(_) => "received",
        #[allow(unreachable_patterns)]
        _ => "other",
    }
}

/// a frame received from the endpoint under test
#[derive(Debug)]
pub enum Incoming {
    Frame { channel: u16, performative: Performative, payload: Bytes },
    Empty { channel: u16 },
}

impl Peer {
    pub fn new(io: DuplexStream) -> Self {
        Peer { io, buf: BytesMut::new(), trace: Arc::new(Mutex::new(vec![])), start: Instant::now(), recv_timeout: Duration::from_secs(5) }
    }

    fn log(&self, dir: &'static str, channel: u16, what: String) {
        let t_ms = self.start.elapsed().as_millis() as u64;
        if std::env::var_os("VERIF_TRACE").is_some() {
            eprintln!("{} {} ch{} {}", t_ms, dir, channel, what);
        }
        self.trace.lock().unwrap().push(Event { t_ms, dir, channel, what });
    }

    pub fn trace_lines(&self) -> Vec<String> {
        self.trace.lock().unwrap().iter().map(|e| format!("{} {} ch{} {}", e.t_ms, e.dir, e.channel, e.what)).collect()
    }

    pub async fn send_raw(&mut self, bytes: &[u8]) -> Result<(), PeerError> {
        self.io.write_all(bytes).await.map_err(|e| PeerError::Io(e.to_string()))?;
        self.io.flush().await.map_err(|e| PeerError::Io(e.to_string()))
    }

    pub async fn send_header(&mut self) -> Result<(), PeerError> {
        self.log("send", 0, "header AMQP".into());
        self.send_raw(&AMQP_HEADER).await
    }

    async fn fill(&mut self, n: usize) -> Result<(), PeerError> {
        while self.buf.len() < n {
            let mut tmp = [0u8; 4096];
            let r = tokio::time::timeout(self.recv_timeout, self.io.read(&mut tmp)).await;
            match r {
                Err(_) => return Err(PeerError::Timeout),
                Ok(Ok(0)) => return Err(PeerError::Eof),
                Ok(Ok(k)) => self.buf.extend_from_slice(&tmp[..k]),
                Ok(Err(e)) => return Err(PeerError::Io(e.to_string())),
            }
        }
        Ok(())
    }

    /// the next four bytes, without consuming them
    pub async fn peek4(&mut self) -> Option<[u8; 4]> {
        self.fill(4).await.ok()?;
        Some([self.buf[0], self.buf[1], self.buf[2], self.buf[3]])
    }

    pub async fn recv_header(&mut self) -> Result<[u8; 8], PeerError> {
        self.fill(8).await?;
        let h = self.buf.split_to(8);
        let mut out = [0u8; 8];
        out.copy_from_slice(&h);
        self.log("recv", 0, format!("header {}", crate::common::hex(&out)));
        Ok(out)
    }

    /// raw frame: (doff, type, channel, body after the extended header)
    pub async fn recv_raw_frame(&mut self) -> Result<(u8, u8, u16, Bytes), PeerError> {
        self.fill(4).await?;
        let size = u32::from_be_bytes([self.buf[0], self.buf[1], self.buf[2], self.buf[3]]) as usize;
        if size < 8 {
            return Err(PeerError::Decode(format!("frame size {}", size)));
        }
        self.fill(size).await?;
        let frame = self.buf.split_to(size).freeze();
        let doff = frame[4];
        let ty = frame[5];
        let ch = u16::from_be_bytes([frame[6], frame[7]]);
        let start = (doff as usize) * 4;
        if start > frame.len() || start < 8 {
            return Err(PeerError::Decode(format!("doff {}", doff)));
        }
        Ok((doff, ty, ch, frame.slice(start..)))
    }

    pub async fn recv(&mut self) -> Result<Incoming, PeerError> {
        let (_doff, _ty, ch, body) = self.recv_raw_frame().await?;
        if body.is_empty() {
            self.log("recv", ch, "empty".into());
            return Ok(Incoming::Empty { channel: ch });
        }
        let mut cur = Cursor::new(&body[..]);
        let performative = {
            let reader = serde_amqp::read::IoReader::new(&mut cur);
            let mut de = serde_amqp::de::Deserializer::new(reader);
            Performative::deserialize(&mut de).map_err(|e| PeerError::Decode(e.to_string()))?
        };
        let pos = cur.position() as usize;
        let payload = body.slice(pos..);
        self.log("recv", ch, summarize(&performative, payload.len()));
        Ok(Incoming::Frame { channel: ch, performative, payload })
    }

    /// next non-empty frame
    pub async fn recv_frame(&mut self) -> Result<(u16, Performative, Bytes), PeerError> {
        loop {
            match self.recv().await? {
                Incoming::Frame { channel, performative, payload } => return Ok((channel, performative, payload)),
                Incoming::Empty { .. } => continue,
            }
        }
    }

    pub fn encode_frame(channel: u16, performative: &Performative, payload: &[u8]) -> Vec<u8> {
        let body = serde_amqp::to_vec(performative).expect("encode performative");
        let size = 8 + body.len() + payload.len();
        let mut out = Vec::with_capacity(size);
        out.extend_from_slice(&(size as u32).to_be_bytes());
        out.extend_from_slice(&[2, 0]);
        out.extend_from_slice(&channel.to_be_bytes());
        out.extend_from_slice(&body);
        out.extend_from_slice(payload);
        out
    }

    pub async fn send(&mut self, channel: u16, performative: Performative, payload: &[u8]) -> Result<(), PeerError> {
        self.log("send", channel, summarize(&performative, payload.len()));
        let bytes = Self::encode_frame(channel, &performative, payload);
        self.send_raw(&bytes).await
    }

    pub async fn send_empty(&mut self) -> Result<(), PeerError> {
        self.log("send", 0, "empty".into());
        self.send_raw(&[0, 0, 0, 8, 2, 0, 0, 0]).await
    }

    // ---- canned handshakes ---------------------------------------------------------------

    /// header exchange + open exchange; returns the endpoint's Open
    pub async fn accept_open(&mut self, cfg: &PeerOpen) -> Result<Open, PeerError> {
        let _ = self.recv_header().await?;
        self.send_header().await?;
        let (_, p, _) = self.recv_frame().await?;
        let open = match p {
            Performative::Open(o) => o,
            other => return Err(PeerError::Decode(format!("expected open, got {}", summarize(&other, 0)))),
        };
        self.send(0, Performative::Open(cfg.to_open()), &[]).await?;
        Ok(open)
    }

    /// answer the endpoint's begin; returns (its channel, its Begin)
    pub async fn accept_begin(&mut self, our_channel: u16, next_outgoing_id: u32, incoming_window: u32, outgoing_window: u32) -> Result<(u16, Begin), PeerError> {
        let (ch, p, _) = self.recv_frame().await?;
        let begin = match p {
            Performative::Begin(b) => b,
            other => return Err(PeerError::Decode(format!("expected begin, got {}", summarize(&other, 0)))),
        };
        let ours = Begin {
            remote_channel: Some(ch),
            next_outgoing_id,
            incoming_window,
            outgoing_window,
            handle_max: Handle(u32::MAX),
            offered_capabilities: None,
            desired_capabilities: None,
            properties: None,
        };
        self.send(our_channel, Performative::Begin(ours), &[]).await?;
        Ok((ch, begin))
    }

    /// answer the endpoint's attach with the mirrored role; returns its Attach
    pub async fn accept_attach(&mut self, our_channel: u16, our_handle: u32, initial_delivery_count: Option<u32>, rcv_settle_mode: ReceiverSettleMode) -> Result<Attach, PeerError> {
        let (_, p, _) = self.recv_frame().await?;
        let attach = match p {
            Performative::Attach(a) => a,
            other => return Err(PeerError::Decode(format!("expected attach, got {}", summarize(&other, 0)))),
        };
        let our_role = match attach.role {
            Role::Sender => Role::Receiver,
            Role::Receiver => Role::Sender,
        };
        let ours = Attach {
            name: attach.name.clone(),
            handle: Handle(our_handle),
            role: our_role.clone(),
            snd_settle_mode: attach.snd_settle_mode.clone(),
            rcv_settle_mode,
            source: attach.source.clone().or_else(|| Some(Box::new(Source::default()))),
            target: attach.target.clone().or_else(|| Some(Box::new(Target::default().into()))),
            unsettled: None,
            incomplete_unsettled: false,
            initial_delivery_count: if matches!(our_role, Role::Sender) { Some(initial_delivery_count.unwrap_or(0)) } else { None },
            max_message_size: None,
            offered_capabilities: None,
            desired_capabilities: None,
            properties: None,
        };
        self.send(our_channel, Performative::Attach(ours), &[]).await?;
        Ok(attach)
    }

    pub async fn close_politely(&mut self) -> Result<(), PeerError> {
        self.send(0, Performative::Close(Close { error: None }), &[]).await
    }
}

#[derive(Clone, Debug)]
pub struct PeerOpen {
    pub container_id: String,
    pub max_frame_size: u32,
    pub channel_max: u16,
    pub idle_time_out: Option<u32>,
}

impl Default for PeerOpen {
    fn default() -> Self {
        PeerOpen { container_id: "peer".into(), max_frame_size: 65536, channel_max: 255, idle_time_out: None }
    }
}

impl PeerOpen {
    pub fn to_open(&self) -> Open {
        Open {
            container_id: self.container_id.clone(),
            hostname: None,
            max_frame_size: self.max_frame_size.into(),
            channel_max: self.channel_max.into(),
            idle_time_out: self.idle_time_out,
            outgoing_locales: None,
            incoming_locales: None,
            offered_capabilities: None,
            desired_capabilities: None,
            properties: None,
        }
    }
}

pub fn transfer(handle: u32, delivery_id: Option<u32>, tag: Option<Vec<u8>>, settled: Option<bool>, more: bool) -> Transfer {
    Transfer {
        handle: Handle(handle),
        delivery_id,
        delivery_tag: tag.map(definitions::DeliveryTag::from),
        message_format: Some(0),
        settled,
        more,
        rcv_settle_mode: None,
        state: None,
        resume: false,
        aborted: false,
        batchable: false,
    }
}

pub fn session_flow(nii: Option<u32>, iw: u32, noi: u32, ow: u32) -> Flow {
    Flow {
        next_incoming_id: nii,
        incoming_window: iw,
        next_outgoing_id: noi,
        outgoing_window: ow,
        handle: None,
        delivery_count: None,
        link_credit: None,
        available: None,
        drain: false,
        echo: false,
        properties: None,
    }
}

#[allow(dead_code)]
pub fn unused(_: (Detach, Disposition, End, SenderSettleMode)) {}

/// a paused-clock current-thread runtime: timeouts advance virtual time only when every task is idle
pub fn paused_runtime() -> tokio::runtime::Runtime {
    tokio::runtime::Builder::new_current_thread().enable_time().start_paused(true).build().unwrap()
}

/// encoded message with an `amqp-value` body holding a binary of `n` bytes derived from `seed`
pub fn message_bytes(seed: u64, n: usize) -> Vec<u8> {
    use fe2o3_amqp_types::messaging::{AmqpValue, Message};
    use serde_amqp::primitives::Binary;
    let mut data = Vec::with_capacity(n);
    let mut x = seed.wrapping_mul(0x9E37_79B9_7F4A_7C15) | 1;
    for _ in 0..n {
        x ^= x << 13;
        x ^= x >> 7;
        x ^= x << 17;
        data.push(x as u8);
    }
    let msg = Message::builder().value(Binary::from(data)).build();
    let ser = fe2o3_amqp_types::messaging::message::__private::Serializable(msg);
    let _ = AmqpValue(0u8);
    serde_amqp::to_vec(&ser).expect("encode message")
}
