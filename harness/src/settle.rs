//! C02 — settlement.  Sender side: a real client with 1..3 sender links on one session
//! pipelines its sends; a scripted receiving peer then plays an arbitrary disposition
//! history (single ids, ranges, ranges over several links, duplicates, out of order,
//! unknown ids, settled / unsettled, terminal / non-terminal states, ids around 2^32).
//! What every send resolved to, the settling dispositions the client sent back and what
//! its unsettled maps still hold are compared with the property and with the model.
//! Receiver side: a real `Receiver` in either rcv-settle-mode against a scripted sender.

use std::collections::BTreeMap;
use std::time::Duration;

use fe2o3_amqp::link::delivery::Sendable;
use fe2o3_amqp::link::receiver::CreditMode;
use fe2o3_amqp::link::sender::Sender;
use fe2o3_amqp::{Connection, Receiver, Session};
use fe2o3_amqp_types::definitions::{Handle, ReceiverSettleMode, Role, SenderSettleMode};
use fe2o3_amqp_types::messaging::{Message, Received};
use fe2o3_amqp_types::messaging::DeliveryState;
use fe2o3_amqp_types::performatives::{Attach, Detach, Disposition, End, Flow, Performative};
use serde_amqp::primitives::Binary;
use serde_amqp::Value;
use serde_json::{json, Value as J};

use crate::common::*;
use crate::e2e::state_of;
use crate::peer::*;

#[derive(Clone, Debug)]
pub struct LinkCfg {
    pub snd_mode: u8, // 0 unsettled, 1 settled, 2 mixed
    pub rcv_second: bool,
}

#[derive(Clone, Debug)]
pub struct Disp {
    pub first: u32,
    pub last: Option<u32>,
    pub settled: bool,
    /// 0 accepted 1 rejected 2 released 3 modified 4 received (non-terminal) 5 no state
    pub state: u8,
}

#[derive(Clone, Debug)]
pub struct Case {
    pub initial_outgoing_id: u32,
    pub links: Vec<LinkCfg>,
    /// (link index, ask for pre-settled — honoured in mixed mode only)
    pub sends: Vec<(usize, bool)>,
    pub script: Vec<Disp>,
}

impl Case {
    pub fn to_json(&self) -> J {
        json!({
            "initial_outgoing_id": self.initial_outgoing_id,
            "links": self.links.iter().map(|l| json!([l.snd_mode, l.rcv_second])).collect::<Vec<_>>(),
            "sends": self.sends.iter().map(|s| json!([s.0, s.1])).collect::<Vec<_>>(),
            "script": self.script.iter().map(|d| json!([d.first, d.last, d.settled, d.state])).collect::<Vec<_>>(),
        })
    }
    pub fn from_json(j: &J) -> Option<Case> {
        Some(Case {
            initial_outgoing_id: j.get("initial_outgoing_id")?.as_u64()? as u32,
            links: j.get("links")?.as_array()?.iter().filter_map(|x| Some(LinkCfg { snd_mode: x.get(0)?.as_u64()? as u8, rcv_second: x.get(1)?.as_bool()? })).collect(),
            sends: j.get("sends")?.as_array()?.iter().filter_map(|x| Some((x.get(0)?.as_u64()? as usize, x.get(1)?.as_bool()?))).collect(),
            script: j
                .get("script")?
                .as_array()?
                .iter()
                .filter_map(|x| Some(Disp { first: x.get(0)?.as_u64()? as u32, last: x.get(1)?.as_u64().map(|v| v as u32), settled: x.get(2)?.as_bool()?, state: x.get(3)?.as_u64()? as u8 }))
                .collect(),
        })
    }
    /// is the k-th send transmitted settled?
    pub fn presettled(&self, k: usize) -> bool {
        let (l, ask) = self.sends[k];
        match self.links[l].snd_mode {
            1 => true,
            2 => ask,
            _ => false,
        }
    }
}

pub fn dstate(code: u8) -> Option<DeliveryState> {
    match code {
        4 => Some(DeliveryState::Received(Received { section_number: 0, section_offset: 0 })),
        5 => None,
        c => Some(state_of(c)),
    }
}

pub fn code_name(code: u8) -> &'static str {
    match code {
        0 => "accepted",
        1 => "rejected",
        2 => "released",
        3 => "modified",
        4 => "received",
        _ => "none",
    }
}

fn state_code(s: &Option<DeliveryState>) -> u8 {
    match s {
        None => 5,
        Some(DeliveryState::Accepted(_)) => 0,
        Some(DeliveryState::Rejected(_)) => 1,
        Some(DeliveryState::Released(_)) => 2,
        Some(DeliveryState::Modified(_)) => 3,
        Some(DeliveryState::Received(_)) => 4,
        #[allow(unreachable_patterns)]
        _ => 6,
    }
}

#[derive(Clone, Debug, Default)]
pub struct Observed {
    /// per send: "accepted" … "pending" (still unresolved after the script) or "error:<…>"
    pub results: Vec<String>,
    /// per send as seen by the peer: (delivery-id, handle, settled)
    pub seen: Vec<(u32, u32, bool)>,
    /// dispositions sent by the client (role sender): (first, last, settled, state code)
    pub echoes: Vec<(u32, u32, bool, u8)>,
    /// per link: number of tags still in the sender's unsettled map at the end
    pub unsettled_left: Vec<usize>,
    pub errors: Vec<String>,
    pub trace: Vec<String>,
}

pub fn run(case: &Case) -> Observed {
    let rt = paused_runtime();
    let case = case.clone();
    rt.block_on(async move {
        let mut obs = Observed::default();
        let (cio, pio) = tokio::io::duplex(1 << 20);
        let mut peer = Peer::new(pio);
        let c = case.clone();
        let (done_tx, done_rx) = tokio::sync::oneshot::channel::<()>();
        let client = tokio::spawn(async move {
            let mut conn = Connection::builder().container_id("settle").open_with_stream(cio).await.map_err(|e| format!("open: {:?}", e))?;
            let mut session = Session::builder().next_outgoing_id(c.initial_outgoing_id).begin(&mut conn).await.map_err(|e| format!("begin: {:?}", e))?;
            let mut senders: Vec<Sender> = vec![];
            for (i, l) in c.links.iter().enumerate() {
                let s = Sender::builder()
                    .name(format!("s{}", i))
                    .target("q")
                    .sender_settle_mode(match l.snd_mode {
                        1 => SenderSettleMode::Settled,
                        2 => SenderSettleMode::Mixed,
                        _ => SenderSettleMode::Unsettled,
                    })
                    .receiver_settle_mode(if l.rcv_second { ReceiverSettleMode::Second } else { ReceiverSettleMode::First })
                    .attach(&mut session)
                    .await
                    .map_err(|e| format!("attach: {:?}", e))?;
                senders.push(s);
            }
            let mut futs = vec![];
            for (k, (l, ask)) in c.sends.iter().enumerate() {
                let msg = Message::from(Binary::from(vec![k as u8; 3]));
                let sendable = Sendable::builder().message(msg).settled(if *ask { Some(true) } else { None }).build();
                match tokio::time::timeout(Duration::from_secs(30), senders[*l].send_batchable(sendable)).await {
                    Err(_) => futs.push(Err("error:send-timeout".to_string())),
                    Ok(Err(e)) => futs.push(Err(format!("error:{:?}", e).replace(' ', "_"))),
                    Ok(Ok(f)) => futs.push(Ok(f)),
                }
            }
            // the peer plays its script, then signals; what has not resolved by then is pending
            let _ = done_rx.await;
            let mut results = vec![];
            for f in futs {
                results.push(match f {
                    Err(e) => e,
                    Ok(f) => match tokio::time::timeout(Duration::from_millis(1), f).await {
                        Err(_) => "pending".to_string(),
                        Ok(Ok(o)) => match o {
                            fe2o3_amqp_types::messaging::Outcome::Accepted(_) => "accepted".to_string(),
                            fe2o3_amqp_types::messaging::Outcome::Rejected(_) => "rejected".to_string(),
                            fe2o3_amqp_types::messaging::Outcome::Released(_) => "released".to_string(),
                            fe2o3_amqp_types::messaging::Outcome::Modified(_) => "modified".to_string(),
                            #[allow(unreachable_patterns)]
                            _ => "other".to_string(),
                        },
                        Ok(Err(e)) => format!("error:{:?}", e).replace(' ', "_"),
                    },
                });
            }
            let left: Vec<usize> = senders.iter().map(|s| fe2o3_amqp::verif::sender_unsettled_tags(s).len()).collect();
            for s in senders {
                let _ = tokio::time::timeout(Duration::from_secs(5), s.close()).await;
            }
            let _ = tokio::time::timeout(Duration::from_secs(5), session.end()).await;
            let _ = tokio::time::timeout(Duration::from_secs(5), conn.close()).await;
            Ok::<_, String>((results, left))
        });
        macro_rules! tr {
            ($e:expr) => {
                match $e {
                    Ok(v) => v,
                    Err(e) => {
                        obs.errors.push(format!("peer: {:?}", e));
                        obs.trace = peer.trace_lines();
                        return obs;
                    }
                }
            };
        }
        tr!(peer.accept_open(&PeerOpen::default()).await);
        tr!(peer.accept_begin(0, 0, 2048, 2048).await);
        for (i, l) in case.links.iter().enumerate() {
            let (_, p, _) = tr!(peer.recv_frame().await);
            let a = match p {
                Performative::Attach(a) => a,
                other => {
                    obs.errors.push(format!("expected attach, got {}", summarize(&other, 0)));
                    return obs;
                }
            };
            let ours = Attach {
                name: a.name.clone(),
                handle: Handle(10 + i as u32),
                role: Role::Receiver,
                snd_settle_mode: a.snd_settle_mode.clone(),
                rcv_settle_mode: if l.rcv_second { ReceiverSettleMode::Second } else { ReceiverSettleMode::First },
                source: a.source.clone(),
                target: a.target.clone(),
                unsettled: None,
                incomplete_unsettled: false,
                initial_delivery_count: None,
                max_message_size: None,
                offered_capabilities: None,
                desired_capabilities: None,
                properties: None,
            };
            tr!(peer.send(0, Performative::Attach(ours), &[]).await);
            let f = Flow {
                next_incoming_id: Some(case.initial_outgoing_id),
                incoming_window: 2048,
                next_outgoing_id: 0,
                outgoing_window: 2048,
                handle: Some(Handle(10 + i as u32)),
                delivery_count: Some(a.initial_delivery_count.unwrap_or(0)),
                link_credit: Some(1000),
                available: None,
                drain: false,
                echo: false,
                properties: None,
            };
            tr!(peer.send(0, Performative::Flow(f), &[]).await);
        }
        // all transfers
        while obs.seen.len() < case.sends.len() {
            match peer.recv_frame().await {
                Ok((_, Performative::Transfer(t), _)) => obs.seen.push((t.delivery_id.unwrap_or(u32::MAX), t.handle.0, t.settled.unwrap_or(false))),
                Ok(_) => {}
                Err(e) => {
                    obs.errors.push(format!("peer: {:?} after {} of {} transfers", e, obs.seen.len(), case.sends.len()));
                    obs.trace = peer.trace_lines();
                    return obs;
                }
            }
        }
        // the script; the client's answers are collected as they come
        peer.recv_timeout = Duration::from_millis(20);
        for d in &case.script {
            let disp = Disposition { role: Role::Receiver, first: d.first, last: d.last, settled: d.settled, state: dstate(d.state), batchable: false };
            tr!(peer.send(0, Performative::Disposition(disp), &[]).await);
            loop {
                match peer.recv_frame().await {
                    Ok((_, Performative::Disposition(e), _)) => obs.echoes.push((e.first, e.last.unwrap_or(e.first), e.settled, state_code(&e.state))),
                    Ok(_) => {}
                    Err(PeerError::Timeout) => break,
                    Err(e) => {
                        obs.errors.push(format!("peer: {:?} during the script", e));
                        obs.trace = peer.trace_lines();
                        return obs;
                    }
                }
            }
        }
        let _ = done_tx.send(());
        peer.recv_timeout = Duration::from_secs(2);
        loop {
            match peer.recv_frame().await {
                Ok((_, Performative::Disposition(e), _)) => obs.echoes.push((e.first, e.last.unwrap_or(e.first), e.settled, state_code(&e.state))),
                Ok((_, Performative::Detach(d), _)) => {
                    let h = 10 + d.handle.0;
                    tr!(peer.send(0, Performative::Detach(Detach { handle: Handle(h), closed: d.closed, error: None }), &[]).await);
                }
                Ok((_, Performative::End(_), _)) => {
                    tr!(peer.send(0, Performative::End(End { error: None }), &[]).await);
                }
                Ok((_, Performative::Close(_), _)) => {
                    let _ = peer.close_politely().await;
                    break;
                }
                Ok(_) => {}
                Err(_) => break,
            }
        }
        match tokio::time::timeout(Duration::from_secs(60), client).await {
            Ok(Ok(Ok((results, left)))) => {
                obs.results = results;
                obs.unsettled_left = left;
            }
            Ok(Ok(Err(e))) => obs.errors.push(format!("client: {}", e)),
            Ok(Err(e)) => obs.errors.push(format!("client task: {:?}", e)),
            Err(_) => obs.errors.push("client did not finish".into()),
        }
        obs.trace = peer.trace_lines();
        obs
    })
}

/// does the (serial) range first..=last contain id?
fn covers(first: u32, last: u32, id: u32) -> bool {
    // a `last` that precedes `first` in serial order designates nothing
    let span = last.wrapping_sub(first);
    span < (1 << 31) && id.wrapping_sub(first) <= span
}

/// what the property demands, computed from the script alone
pub struct Expect {
    pub results: Vec<String>,
    /// ids the client must settle by a disposition of its own (mode second), with the state code
    pub must_echo: BTreeMap<u32, u8>,
    pub unsettled_left: Vec<usize>,
}

pub fn expect(case: &Case) -> Expect {
    let n = case.sends.len();
    let ids: Vec<u32> = (0..n).map(|k| case.initial_outgoing_id.wrapping_add(k as u32)).collect();
    let mut results: Vec<String> = (0..n).map(|k| if case.presettled(k) { "accepted".to_string() } else { "pending".to_string() }).collect();
    let mut must_echo = BTreeMap::new();
    let mut settled_by_peer = vec![false; n];
    for d in &case.script {
        let last = d.last.unwrap_or(d.first);
        for k in 0..n {
            if case.presettled(k) || !covers(d.first, last, ids[k]) {
                continue;
            }
            let terminal = d.state <= 3;
            if results[k] == "pending" && !settled_by_peer[k] {
                if terminal {
                    results[k] = code_name(d.state).to_string();
                    if !d.settled && case.links[case.sends[k].0].rcv_second {
                        must_echo.insert(ids[k], d.state);
                    }
                } else if d.settled {
                    // settled without an outcome: the send fails; which error is not the property's business
                    results[k] = "error".to_string();
                }
            }
            if d.settled {
                settled_by_peer[k] = true;
            }
        }
    }
    let mut left = vec![0usize; case.links.len()];
    for k in 0..n {
        if results[k] == "pending" {
            left[case.sends[k].0] += 1;
        }
    }
    Expect { results, must_echo, unsettled_left: left }
}

pub fn check(case: &Case, obs: &Observed) -> Option<(String, String)> {
    if let Some(e) = obs.errors.first() {
        return Some(("scenario-failed".into(), e.clone()));
    }
    let n = case.sends.len();
    for k in 0..n {
        let id = case.initial_outgoing_id.wrapping_add(k as u32);
        if obs.seen[k].0 != id || obs.seen[k].2 != case.presettled(k) {
            return Some(("transfer-unexpected".into(), format!("send {}: transfer seen with delivery-id {} settled {} (expected {} {})", k, obs.seen[k].0, obs.seen[k].2, id, case.presettled(k))));
        }
    }
    let ex = expect(case);
    for k in 0..n {
        let got = &obs.results[k];
        let want = &ex.results[k];
        let ok = if want == "error" { got.starts_with("error:") } else { got == want };
        if !ok {
            return Some((
                if got == "pending" { "send-never-resolved".into() } else if want == "pending" { "resolved-without-outcome".into() } else { "wrong-outcome".into() },
                format!("send {} (delivery-id {}) resolved to {} but the receiver's dispositions give it {}", k, case.initial_outgoing_id.wrapping_add(k as u32), got, want),
            ));
        }
    }
    // settling dispositions from the client: every id that must be echoed is covered exactly once,
    // with settled = true and the same state; nothing else is covered
    let mut covered: BTreeMap<u32, u32> = BTreeMap::new();
    for (first, last, settled, st) in &obs.echoes {
        let cnt = last.wrapping_sub(*first);
        if cnt > 1000 {
            return Some(("echo-range-absurd".into(), format!("client disposition {}..{}", first, last)));
        }
        for i in 0..=cnt {
            let id = first.wrapping_add(i);
            *covered.entry(id).or_insert(0) += 1;
            match ex.must_echo.get(&id) {
                None => return Some(("echo-for-unexpected-id".into(), format!("client disposition {}..{} covers delivery-id {} which the receiver did not report a terminal unsettled outcome for (in mode second)", first, last, id))),
                Some(code) => {
                    if !*settled || st != code {
                        return Some(("echo-wrong-content".into(), format!("client disposition for delivery-id {}: settled {} state {} (expected settled true state {})", id, settled, code_name(*st), code_name(*code))));
                    }
                }
            }
        }
    }
    for (id, _) in &ex.must_echo {
        match covered.get(id) {
            None => return Some(("settling-disposition-missing".into(), format!("the receiver (mode second) reported a terminal outcome for delivery-id {} but the sender never sent the settling disposition; sent: {:?}", id, obs.echoes))),
            Some(c) if *c > 1 => return Some(("settling-disposition-repeated".into(), format!("delivery-id {} settled {} times", id, c))),
            _ => {}
        }
    }
    if obs.unsettled_left != ex.unsettled_left {
        return Some(("unsettled-map-retains".into(), format!("unsettled entries left per link {:?}, expected {:?} (only sends without any outcome may remain)", obs.unsettled_left, ex.unsettled_left)));
    }
    None
}

pub fn gen_case(rng: &mut Rng) -> Case {
    let nl = *rng.pick(&[1usize, 1, 2, 3]);
    let links: Vec<LinkCfg> = (0..nl).map(|_| LinkCfg { snd_mode: *rng.pick(&[0u8, 0, 0, 1, 2, 2]), rcv_second: rng.chance(1, 2) }).collect();
    let n = rng.range(1, 8) as usize;
    let sends: Vec<(usize, bool)> = (0..n).map(|_| (rng.below(nl as u64) as usize, rng.chance(1, 4))).collect();
    let init = *rng.pick(&[0u32, 1, 100, u32::MAX, u32::MAX - 2, u32::MAX - 5, 1 << 31]);
    let ns = rng.range(1, 8) as usize;
    let mut script = vec![];
    for _ in 0..ns {
        let a = rng.below(n as u64 + 1) as u32; // may point one past the last id
        let first = init.wrapping_add(a);
        let last = match rng.below(5) {
            0 => None,
            1 => Some(first),
            2 => Some(init.wrapping_add(n as u32 - 1)),
            3 => Some(first.wrapping_add(rng.below(4) as u32)),
            _ => Some(init.wrapping_add(rng.below(n as u64 + 2) as u32)),
        };
        // mostly short forward ranges; sometimes a very wide one, sometimes one running backwards
        let last = match rng.below(12) {
            0 => Some(first.wrapping_add(*rng.pick(&[1000u32, 1 << 20, (1 << 31) - 1]))),
            1 => Some(first.wrapping_sub(rng.range(1, 5) as u32)),
            _ => match last {
                Some(l) if l.wrapping_sub(first) > 64 => Some(first),
                x => x,
            },
        };
        script.push(Disp { first, last, settled: rng.chance(1, 2), state: *rng.pick(&[0u8, 0, 0, 1, 2, 3, 4, 5]) });
    }
    Case { initial_outgoing_id: init, links, sends, script }
}

// ------------------------------------------------------------------------------------
// receiver side

#[derive(Clone, Debug)]
pub struct RCase {
    pub rcv_second: bool,
    pub n: usize,
    /// application's disposal calls: (indices of received deliveries, outcome code 0..3)
    pub disposals: Vec<(Vec<usize>, u8)>,
    /// settling dispositions the scripted sender sends afterwards: (first k, last k)
    pub settles: Vec<(usize, usize)>,
    pub first_id: u32,
    /// the rcv-settle-mode each transfer names itself: 0 none (the link's applies), 1 first, 2 second
    pub modes: Vec<u8>,
    /// number of transfer frames the sender cuts each delivery into (missing = 1)
    pub frames: Vec<u8>,
}

impl RCase {
    /// is delivery `k` under rcv-settle-mode second?
    pub fn second(&self, k: usize) -> bool {
        match self.modes.get(k).copied().unwrap_or(0) {
            1 => false,
            2 => true,
            _ => self.rcv_second,
        }
    }
    pub fn to_json(&self) -> J {
        json!({"rcv_second": self.rcv_second, "n": self.n, "disposals": self.disposals.iter().map(|(v, c)| json!([v, c])).collect::<Vec<_>>(), "settles": self.settles.iter().map(|(a, b)| json!([a, b])).collect::<Vec<_>>(), "first_id": self.first_id, "modes": self.modes, "frames": self.frames})
    }
    pub fn from_json(j: &J) -> Option<RCase> {
        Some(RCase {
            rcv_second: j.get("rcv_second")?.as_bool()?,
            n: j.get("n")?.as_u64()? as usize,
            disposals: j.get("disposals")?.as_array()?.iter().filter_map(|x| Some((x.get(0)?.as_array()?.iter().filter_map(|y| y.as_u64().map(|v| v as usize)).collect(), x.get(1)?.as_u64()? as u8))).collect(),
            settles: j.get("settles")?.as_array()?.iter().filter_map(|x| Some((x.get(0)?.as_u64()? as usize, x.get(1)?.as_u64()? as usize))).collect(),
            first_id: j.get("first_id")?.as_u64()? as u32,
            modes: j.get("modes").and_then(|x| x.as_array()).map(|a| a.iter().filter_map(|y| y.as_u64().map(|v| v as u8)).collect()).unwrap_or_default(),
            frames: j.get("frames").and_then(|x| x.as_array()).map(|a| a.iter().filter_map(|y| y.as_u64().map(|v| v as u8)).collect()).unwrap_or_default(),
        })
    }
}

#[derive(Clone, Debug, Default)]
pub struct RObserved {
    /// dispositions from the client (role receiver): (first, last, settled, state)
    pub dispositions: Vec<(u32, u32, bool, u8)>,
    /// unsettled tags after the disposal calls, and after the sender's settling dispositions
    pub unsettled_after_disposal: Vec<Vec<u8>>,
    pub unsettled_at_end: Vec<Vec<u8>>,
    pub errors: Vec<String>,
    pub trace: Vec<String>,
}

pub fn run_receiver(case: &RCase) -> RObserved {
    let rt = paused_runtime();
    let case = case.clone();
    rt.block_on(async move {
        let mut obs = RObserved::default();
        let (cio, pio) = tokio::io::duplex(1 << 20);
        let mut peer = Peer::new(pio);
        let c = case.clone();
        let (go_tx, go_rx) = tokio::sync::oneshot::channel::<()>();
        let (mid_tx, mid_rx) = tokio::sync::oneshot::channel::<Vec<Vec<u8>>>();
        let client = tokio::spawn(async move {
            let mut conn = Connection::builder().container_id("settle-r").open_with_stream(cio).await.map_err(|e| format!("open: {:?}", e))?;
            let mut session = Session::begin(&mut conn).await.map_err(|e| format!("begin: {:?}", e))?;
            let mut r = Receiver::builder()
                .name("r")
                .source("q")
                .credit_mode(CreditMode::Manual)
                .auto_accept(false)
                .receiver_settle_mode(if c.rcv_second { ReceiverSettleMode::Second } else { ReceiverSettleMode::First })
                .attach(&mut session)
                .await
                .map_err(|e| format!("attach: {:?}", e))?;
            r.set_credit(100).await.map_err(|e| format!("{:?}", e))?;
            let mut ds = vec![];
            for _ in 0..c.n {
                let d = tokio::time::timeout(Duration::from_secs(5), r.recv::<Value>()).await.map_err(|_| "recv timeout".to_string())?.map_err(|e| format!("recv: {:?}", e))?;
                ds.push(d);
            }
            for (idx, code) in &c.disposals {
                let st = fe2o3_amqp::link::receiver::TerminalDeliveryState::try_from(state_of(*code)).map_err(|_| "not terminal".to_string())?;
                if idx.len() == 1 {
                    r.dispose(&ds[idx[0]], st).await.map_err(|e| format!("dispose: {:?}", e))?;
                } else {
                    let infos: Vec<&fe2o3_amqp::link::delivery::Delivery<Value>> = idx.iter().map(|i| &ds[*i]).collect();
                    r.dispose_all(infos, st).await.map_err(|e| format!("dispose_all: {:?}", e))?;
                }
            }
            let _ = mid_tx.send(fe2o3_amqp::verif::receiver_unsettled_tags(&r));
            let _ = go_rx.await;
            let end = fe2o3_amqp::verif::receiver_unsettled_tags(&r);
            let _ = tokio::time::timeout(Duration::from_secs(5), r.close()).await;
            let _ = tokio::time::timeout(Duration::from_secs(5), session.end()).await;
            let _ = tokio::time::timeout(Duration::from_secs(5), conn.close()).await;
            Ok::<_, String>(end)
        });
        macro_rules! tr {
            ($e:expr) => {
                match $e {
                    Ok(v) => v,
                    Err(e) => {
                        obs.errors.push(format!("peer: {:?}", e));
                        obs.trace = peer.trace_lines();
                        return obs;
                    }
                }
            };
        }
        tr!(peer.accept_open(&PeerOpen::default()).await);
        tr!(peer.accept_begin(0, case.first_id, 2048, 2048).await);
        tr!(peer.accept_attach(0, 3, Some(0), if case.rcv_second { ReceiverSettleMode::Second } else { ReceiverSettleMode::First }).await);
        // wait for credit
        loop {
            match peer.recv_frame().await {
                Ok((_, Performative::Flow(f), _)) if f.link_credit.unwrap_or(0) > 0 => break,
                Ok(_) => {}
                Err(e) => {
                    obs.errors.push(format!("peer: {:?} waiting for credit", e));
                    return obs;
                }
            }
        }
        for k in 0..case.n {
            let mut t = transfer(3, Some(case.first_id.wrapping_add(k as u32)), Some(vec![k as u8]), Some(false), false);
            t.rcv_settle_mode = match case.modes.get(k).copied().unwrap_or(0) {
                1 => Some(ReceiverSettleMode::First),
                2 => Some(ReceiverSettleMode::Second),
                _ => None,
            };
            // the delivery in 1..3 frames: id, tag and mode on the first one only
            let body = message_bytes(k as u64, 5);
            let nf = (case.frames.get(k).copied().unwrap_or(1).max(1) as usize).min(body.len().max(1));
            if nf <= 1 {
                tr!(peer.send(0, Performative::Transfer(t), &body).await);
            } else {
                let piece = body.len() / nf;
                for i in 0..nf {
                    let lo = i * piece;
                    let hi = if i + 1 == nf { body.len() } else { (i + 1) * piece };
                    let mut f = if i == 0 { t.clone() } else { transfer(3, None, None, None, false) };
                    f.more = i + 1 < nf;
                    tr!(peer.send(0, Performative::Transfer(f), &body[lo..hi]).await);
                }
            }
        }
        // collect the client's dispositions until the disposal phase is over
        peer.recv_timeout = Duration::from_millis(50);
        let mut mid = None;
        let mut mid_rx = mid_rx;
        loop {
            match peer.recv_frame().await {
                Ok((_, Performative::Disposition(d), _)) => obs.dispositions.push((d.first, d.last.unwrap_or(d.first), d.settled, state_code(&d.state))),
                Ok(_) => {}
                Err(PeerError::Timeout) => {
                    if mid.is_none() {
                        if let Ok(v) = mid_rx.try_recv() {
                            mid = Some(v);
                            continue; // one more round to drain frames already in flight
                        }
                        if client.is_finished() {
                            break;
                        }
                    } else {
                        break;
                    }
                }
                Err(e) => {
                    obs.errors.push(format!("peer: {:?}", e));
                    break;
                }
            }
        }
        obs.unsettled_after_disposal = mid.unwrap_or_default();
        for (a, b) in &case.settles {
            let d = Disposition { role: Role::Sender, first: case.first_id.wrapping_add(*a as u32), last: Some(case.first_id.wrapping_add(*b as u32)), settled: true, state: None, batchable: false };
            tr!(peer.send(0, Performative::Disposition(d), &[]).await);
        }
        // let the session task apply them
        tokio::time::sleep(Duration::from_millis(20)).await;
        let _ = go_tx.send(());
        peer.recv_timeout = Duration::from_secs(2);
        loop {
            match peer.recv_frame().await {
                Ok((_, Performative::Detach(d), _)) => {
                    tr!(peer.send(0, Performative::Detach(Detach { handle: Handle(3), closed: d.closed, error: None }), &[]).await);
                }
                Ok((_, Performative::End(_), _)) => {
                    tr!(peer.send(0, Performative::End(End { error: None }), &[]).await);
                }
                Ok((_, Performative::Close(_), _)) => {
                    let _ = peer.close_politely().await;
                    break;
                }
                Ok(_) => {}
                Err(_) => break,
            }
        }
        match tokio::time::timeout(Duration::from_secs(60), client).await {
            Ok(Ok(Ok(end))) => obs.unsettled_at_end = end,
            Ok(Ok(Err(e))) => obs.errors.push(format!("client: {}", e)),
            Ok(Err(e)) => obs.errors.push(format!("client task: {:?}", e)),
            Err(_) => obs.errors.push("client did not finish".into()),
        }
        obs.trace = peer.trace_lines();
        obs
    })
}

pub fn check_receiver(case: &RCase, obs: &RObserved) -> Option<(String, String)> {
    if let Some(e) = obs.errors.first() {
        return Some(("scenario-failed".into(), e.clone()));
    }
    // first disposal of each delivery decides its outcome
    let mut outcome: Vec<Option<u8>> = vec![None; case.n];
    for (idx, code) in &case.disposals {
        for i in idx {
            if outcome[*i].is_none() {
                outcome[*i] = Some(*code);
            }
        }
    }
    // every disposed delivery is reported exactly once... in mode first (settled), and at least once in
    // mode second (re-disposal of a still unsettled delivery may be repeated), always with the right flag
    let mut reported: Vec<u32> = vec![0; case.n];
    for (first, last, settled, st) in &obs.dispositions {
        let cnt = last.wrapping_sub(*first);
        if cnt as usize >= case.n {
            return Some(("disposition-range-too-wide".into(), format!("{}..{}", first, last)));
        }
        for i in 0..=cnt {
            let k = first.wrapping_add(i).wrapping_sub(case.first_id) as usize;
            if k >= case.n {
                return Some(("disposition-for-unknown-id".into(), format!("{}..{}", first, last)));
            }
            reported[k] += 1;
            if *settled == case.second(k) {
                return Some(("settled-flag-contradicts-mode".into(), format!("disposition {}..{} settled={} names delivery {} which is under rcv-settle-mode {} (link: {}, transfer: {})", first, last, settled, k, if case.second(k) { "second" } else { "first" }, if case.rcv_second { "second" } else { "first" }, ["none", "first", "second"][case.modes.get(k).copied().unwrap_or(0) as usize])));
            }
            if !case.second(k) && outcome[k] != Some(*st) {
                return Some(("wrong-state-reported".into(), format!("delivery {} reported as {}, application said {:?}", k, code_name(*st), outcome[k].map(code_name))));
            }
        }
    }
    for k in 0..case.n {
        if outcome[k].is_some() && reported[k] == 0 {
            return Some(("disposal-not-reported".into(), format!("delivery {} was disposed by the application but no disposition names it; sent {:?}", k, obs.dispositions)));
        }
        if outcome[k].is_none() && reported[k] > 0 {
            return Some(("undisposed-delivery-reported".into(), format!("delivery {}", k)));
        }
        if !case.second(k) && reported[k] > 1 {
            return Some(("settled-twice".into(), format!("delivery {} named by {} settled dispositions", k, reported[k])));
        }
    }
    // unsettled map
    let has = |v: &Vec<Vec<u8>>, k: usize| v.iter().any(|t| t.as_slice() == [k as u8]);
    for k in 0..case.n {
        let disposed = outcome[k].is_some();
        let want_mid = if case.second(k) { true } else { !disposed };
        if has(&obs.unsettled_after_disposal, k) != want_mid {
            return Some((
                if want_mid { "forgotten-before-sender-settled".into() } else { "retained-after-settling".into() },
                format!("delivery {} (disposed: {}) in the receiver's unsettled map after the disposal calls: {}, expected {}", k, disposed, !want_mid, want_mid),
            ));
        }
        let settled_by_sender = case.settles.iter().any(|(a, b)| *a <= k && k <= *b);
        if !case.second(k) && settled_by_sender {
            // a sender settling on its own a delivery the mode-first receiver has not disposed yet:
            // the property says nothing about it (the session does not track mode-first deliveries)
            continue;
        }
        let want_end = want_mid && !settled_by_sender;
        if has(&obs.unsettled_at_end, k) != want_end {
            return Some((
                if want_end { "forgotten-without-settlement".into() } else { "retained-after-sender-settled".into() },
                format!("delivery {} in the receiver's unsettled map at the end: {}, expected {}", k, !want_end, want_end),
            ));
        }
    }
    None
}

pub fn gen_rcase(rng: &mut Rng) -> RCase {
    let n = rng.range(1, 7) as usize;
    let mut disposals = vec![];
    for _ in 0..rng.range(1, 4) {
        let idx: Vec<usize> = if rng.chance(1, 2) {
            vec![rng.below(n as u64) as usize]
        } else {
            let mut v: Vec<usize> = (0..n).filter(|_| rng.chance(1, 2)).collect();
            if v.is_empty() {
                v.push(rng.below(n as u64) as usize);
            }
            if rng.chance(1, 3) {
                v.reverse();
            }
            v
        };
        disposals.push((idx, rng.below(4) as u8));
    }
    let mut settles = vec![];
    for _ in 0..rng.below(3) {
        let a = rng.below(n as u64) as usize;
        let b = a + rng.below((n - a) as u64) as usize;
        settles.push((a, b));
    }
    let rcv_second = rng.chance(2, 3);
    // a transfer may name its own mode: `first` on any link, `second` only where the link is `second`
    let modes: Vec<u8> = if rng.chance(1, 2) { vec![0; n] } else { (0..n).map(|_| if rcv_second { rng.below(3) as u8 } else { rng.below(2) as u8 }).collect() };
    let frames: Vec<u8> = if rng.chance(1, 2) { vec![1; n] } else { (0..n).map(|_| 1 + rng.below(3) as u8).collect() };
    RCase { rcv_second, n, disposals, settles, first_id: *rng.pick(&[0u32, 7, u32::MAX, u32::MAX - 3]), modes, frames }
}


// ------------------------------------------------------------------------------------
// deliveries cut into several transfers at the link (max-message-size), settled or not, on a mixed link

/// (ask for pre-settled, body length)
pub type SplitSend = (bool, usize);

/// returns (result per send, unsettled entries left, first-frame settled flag per delivery, errors)
pub fn run_split(max_message_size: u64, sends: &[SplitSend]) -> (Vec<String>, usize, Vec<bool>, Vec<String>) {
    let rt = paused_runtime();
    let sends = sends.to_vec();
    rt.block_on(async move {
        let (cio, pio) = tokio::io::duplex(1 << 20);
        let mut peer = Peer::new(pio);
        let mut errors = vec![];
        let cs = sends.clone();
        let client = tokio::spawn(async move {
            let mut conn = Connection::builder().container_id("settle-split").open_with_stream(cio).await.map_err(|e| format!("open: {:?}", e))?;
            let mut session = Session::builder().begin(&mut conn).await.map_err(|e| format!("begin: {:?}", e))?;
            let mut sender = Sender::builder().name("split").target("q").sender_settle_mode(SenderSettleMode::Mixed).attach(&mut session).await.map_err(|e| format!("attach: {:?}", e))?;
            let mut results = vec![];
            for (k, (ask, len)) in cs.iter().enumerate() {
                let msg = Message::from(Binary::from(vec![k as u8; *len]));
                let sendable = Sendable::builder().message(msg).settled(if *ask { Some(true) } else { None }).build();
                results.push(match tokio::time::timeout(Duration::from_secs(5), sender.send(sendable)).await {
                    Err(_) => "pending".to_string(),
                    Ok(Ok(o)) => if matches!(o, fe2o3_amqp_types::messaging::Outcome::Accepted(_)) { "accepted".to_string() } else { "other".to_string() },
                    Ok(Err(e)) => format!("error:{:?}", e).replace(' ', "_"),
                });
            }
            let left = fe2o3_amqp::verif::sender_unsettled_tags(&sender).len();
            let _ = tokio::time::timeout(Duration::from_secs(5), sender.close()).await;
            let _ = tokio::time::timeout(Duration::from_secs(5), session.end()).await;
            let _ = tokio::time::timeout(Duration::from_secs(5), conn.close()).await;
            Ok::<_, String>((results, left))
        });
        macro_rules! tr {
            ($e:expr) => {
                match $e {
                    Ok(v) => v,
                    Err(e) => {
                        errors.push(format!("peer: {:?}", e));
                        return (vec![], 0, vec![], errors);
                    }
                }
            };
        }
        tr!(peer.accept_open(&PeerOpen::default()).await);
        tr!(peer.accept_begin(0, 0, 2048, 2048).await);
        let (_, p, _) = tr!(peer.recv_frame().await);
        let a = match p {
            Performative::Attach(a) => a,
            _ => {
                errors.push("expected attach".into());
                return (vec![], 0, vec![], errors);
            }
        };
        let ours = Attach {
            name: a.name.clone(),
            handle: Handle(4),
            role: Role::Receiver,
            snd_settle_mode: a.snd_settle_mode.clone(),
            rcv_settle_mode: ReceiverSettleMode::First,
            source: a.source.clone(),
            target: a.target.clone(),
            unsettled: None,
            incomplete_unsettled: false,
            initial_delivery_count: None,
            max_message_size: Some(max_message_size),
            offered_capabilities: None,
            desired_capabilities: None,
            properties: None,
        };
        tr!(peer.send(0, Performative::Attach(ours), &[]).await);
        let f = Flow { next_incoming_id: Some(0), incoming_window: 2048, next_outgoing_id: 0, outgoing_window: 2048, handle: Some(Handle(4)), delivery_count: Some(a.initial_delivery_count.unwrap_or(0)), link_credit: Some(1000), available: None, drain: false, echo: false, properties: None };
        tr!(peer.send(0, Performative::Flow(f), &[]).await);
        let mut first_settled: Vec<bool> = vec![];
        let mut current: Option<(u32, bool)> = None;
        peer.recv_timeout = Duration::from_secs(8);
        loop {
            match peer.recv_frame().await {
                Ok((_, Performative::Transfer(t), _)) => {
                    if current.is_none() {
                        let settled = t.settled.unwrap_or(false);
                        first_settled.push(settled);
                        current = Some((t.delivery_id.unwrap_or(u32::MAX), settled));
                    }
                    if !t.more {
                        let (id, settled) = current.take().unwrap();
                        if !settled {
                            let d = Disposition { role: Role::Receiver, first: id, last: None, settled: true, state: dstate(0), batchable: false };
                            tr!(peer.send(0, Performative::Disposition(d), &[]).await);
                        }
                    }
                }
                Ok((_, Performative::Detach(d), _)) => {
                    tr!(peer.send(0, Performative::Detach(Detach { handle: Handle(4), closed: d.closed, error: None }), &[]).await);
                }
                Ok((_, Performative::End(_), _)) => {
                    tr!(peer.send(0, Performative::End(End { error: None }), &[]).await);
                }
                Ok((_, Performative::Close(_), _)) => {
                    let _ = peer.close_politely().await;
                    break;
                }
                Ok(_) => {}
                Err(_) => break,
            }
        }
        match tokio::time::timeout(Duration::from_secs(60), client).await {
            Ok(Ok(Ok((results, left)))) => (results, left, first_settled, errors),
            other => {
                errors.push(format!("client: {:?}", other.map(|r| r.map(|x| x.map(|_| ())))));
                (vec![], 0, first_settled, errors)
            }
        }
    })
}

fn split_runs(rng: &mut Rng, opts: &Opts, report: &mut Report) {
    let n = if opts.thorough() { 300 } else { 30 };
    for k in 0..n {
        let mms = *rng.pick(&[64u64, 100, 300]);
        let sends: Vec<SplitSend> = if k == 0 { vec![(true, 400), (false, 400), (true, 3)] } else { (0..rng.range(1, 5)).map(|_| (rng.chance(1, 2), *rng.pick(&[3usize, 150, 400, 1000]))).collect() };
        report.evaluations += 1;
        report.count("split_deliveries");
        if sends.iter().any(|(_, l)| *l as u64 > mms) {
            report.nontrivial_case(fnv(&format!("split{}{:?}", mms, sends)));
        }
        let (results, left, first_settled, errors) = run_split(mms, &sends);
        let replay = json!({"property": "C02", "module": "settle", "split": {"max_message_size": mms, "sends": sends.iter().map(|(a, l)| json!([a, l])).collect::<Vec<_>>()}});
        if let Some(e) = errors.first() {
            report.finding(Finding { kind: "violation", key: "split-scenario-failed".into(), description: e.clone(), replay });
            continue;
        }
        for (i, (ask, len)) in sends.iter().enumerate() {
            if results.get(i).map(|r| r.as_str()) != Some("accepted") {
                report.finding(Finding { kind: "violation", key: if *ask { "presettled-send-never-resolved".into() } else { "send-never-resolved".into() }, description: format!("mixed link, peer max-message-size {}: send {} ({} bytes, {}) resolved to {:?}; all results {:?}", mms, i, len, if *ask { "asked to be sent settled" } else { "unsettled, accepted by the peer" }, results.get(i), results), replay: replay.clone() });
                break;
            }
            if first_settled.get(i).copied() != Some(*ask) {
                report.finding(Finding { kind: "violation", key: "transfer-unexpected".into(), description: format!("send {} asked settled = {} but its first transfer carries settled = {:?}", i, ask, first_settled.get(i)), replay: replay.clone() });
                break;
            }
        }
        if left != 0 {
            report.finding(Finding { kind: "violation", key: "unsettled-map-retains".into(), description: format!("{} deliveries are left in the sender's unsettled map after every send was settled (sends {:?})", left, sends), replay: replay.clone() });
        }
    }
}

/// Two sending links whose handles the peer numbers the other way round (ours 0 / 1, the peer's 1 / 0).
/// (1) an unsettled delivery is outstanding on the second link when the first is closed; the peer then
/// accepts it: the send resolves with that outcome.  (2) a further delivery is accepted and settled, the
/// session is ended, and only then is the future of that send awaited: it still yields the outcome that had
/// arrived.  Returns the two results.
pub fn run_two_links_then_end() -> Result<(String, String), String> {
    let rt = paused_runtime();
    rt.block_on(async move {
        let (cio, pio) = tokio::io::duplex(1 << 20);
        let mut peer = Peer::new(pio);
        let e = |x: PeerError| format!("{:?}", x);
        let client = tokio::spawn(async move {
            let mut conn = Connection::builder().container_id("c02-two").open_with_stream(cio).await.map_err(|e| format!("open: {:?}", e))?;
            let mut session = Session::begin(&mut conn).await.map_err(|e| format!("begin: {:?}", e))?;
            let a = Sender::builder().name("a").target("q").attach(&mut session).await.map_err(|e| format!("attach a: {:?}", e))?;
            let mut b = Sender::builder().name("b").target("q").attach(&mut session).await.map_err(|e| format!("attach b: {:?}", e))?;
            let fut1 = b.send_batchable("one").await.map_err(|e| format!("send one: {:?}", e))?;
            tokio::time::sleep(Duration::from_millis(50)).await;
            a.close().await.map_err(|e| format!("close a: {:?}", e))?;
            let r1 = match tokio::time::timeout(Duration::from_secs(3), fut1).await {
                Err(_) => "pending".to_string(),
                Ok(Ok(o)) => format!("{:?}", o).split('(').next().unwrap_or("").to_string(),
                Ok(Err(e)) => format!("err:{:?}", e),
            };
            let fut2 = b.send_batchable("two").await.map_err(|e| format!("send two: {:?}", e))?;
            // the peer accepts and settles; the client's engines apply it
            tokio::time::sleep(Duration::from_millis(200)).await;
            let _ = tokio::time::timeout(Duration::from_secs(3), session.end()).await;
            let r2 = match tokio::time::timeout(Duration::from_secs(3), fut2).await {
                Err(_) => "pending".to_string(),
                Ok(Ok(o)) => format!("{:?}", o).split('(').next().unwrap_or("").to_string(),
                Ok(Err(e)) => format!("err:{:?}", e),
            };
            let _ = tokio::time::timeout(Duration::from_secs(3), conn.close()).await;
            Ok::<_, String>((r1, r2))
        });
        peer.accept_open(&PeerOpen::default()).await.map_err(e)?;
        peer.accept_begin(0, 0, 2048, 2048).await.map_err(e)?;
        // the peer's handles: 1 for the client's link 0, 0 for the client's link 1
        let mut ours_of: std::collections::HashMap<u32, u32> = Default::default();
        let mut transfers = 0u32;
        let mut held: Option<u32> = None;
        peer.recv_timeout = Duration::from_secs(8);
        loop {
            match peer.recv_frame().await {
                Ok((_, Performative::Attach(a), _)) => {
                    let ours = 1 - a.handle.0.min(1);
                    ours_of.insert(a.handle.0, ours);
                    let at = Attach { name: a.name.clone(), handle: Handle(ours), role: Role::Receiver, snd_settle_mode: a.snd_settle_mode.clone(), rcv_settle_mode: ReceiverSettleMode::First, source: a.source.clone(), target: a.target.clone(), unsettled: None, incomplete_unsettled: false, initial_delivery_count: None, max_message_size: None, offered_capabilities: None, desired_capabilities: None, properties: None };
                    peer.send(0, Performative::Attach(at), &[]).await.map_err(e)?;
                    let f = Flow { next_incoming_id: Some(transfers), incoming_window: 2048, next_outgoing_id: 0, outgoing_window: 2048, handle: Some(Handle(ours)), delivery_count: Some(a.initial_delivery_count.unwrap_or(0)), link_credit: Some(10), available: None, drain: false, echo: false, properties: None };
                    peer.send(0, Performative::Flow(f), &[]).await.map_err(e)?;
                }
                Ok((_, Performative::Transfer(t), _)) => {
                    transfers += 1;
                    let id = t.delivery_id.unwrap_or(0);
                    if held.is_none() && transfers == 1 {
                        // the first delivery waits until the other link has been closed
                        held = Some(id);
                    } else {
                        let d = Disposition { role: Role::Receiver, first: id, last: None, settled: true, state: Some(state_of(0)), batchable: false };
                        peer.send(0, Performative::Disposition(d), &[]).await.map_err(e)?;
                    }
                }
                Ok((_, Performative::Detach(d), _)) => {
                    let ours = ours_of.get(&d.handle.0).copied().unwrap_or(d.handle.0);
                    peer.send(0, Performative::Detach(fe2o3_amqp_types::performatives::Detach { handle: Handle(ours), closed: d.closed, error: None }), &[]).await.map_err(e)?;
                    if let Some(id) = held.take() {
                        let disp = Disposition { role: Role::Receiver, first: id, last: None, settled: true, state: Some(state_of(0)), batchable: false };
                        peer.send(0, Performative::Disposition(disp), &[]).await.map_err(e)?;
                    }
                }
                Ok((_, Performative::End(_), _)) => {
                    peer.send(0, Performative::End(fe2o3_amqp_types::performatives::End { error: None }), &[]).await.map_err(e)?;
                }
                Ok((_, Performative::Close(_), _)) => {
                    let _ = peer.close_politely().await;
                    break;
                }
                Ok(_) => {}
                Err(_) => break,
            }
        }
        tokio::time::timeout(Duration::from_secs(60), client).await.map_err(|_| "the client did not finish".to_string())?.map_err(|e| format!("{:?}", e))?
    })
}

pub fn main(opts: &Opts) {
    let mut report = Report::new(
        "C02",
        "sender side: 1..3 links (all snd/rcv settle modes) on one session, 1..8 pipelined sends, then a scripted disposition history \
         (single ids, ranges, ranges over several links, duplicates, out of order, unknown ids, settled and unsettled, terminal, \
         non-terminal and absent states, ids around 2^32); receiver side: 1..7 deliveries disposed singly and in batches in either mode, \
         then settling dispositions from the scripted sender; non-trivial = at least one unsettled delivery and one disposition covering it; \
         distinct by hash of the case",
    );
    if let Some(path) = &opts.replay {
        let j: J = serde_json::from_str(&std::fs::read_to_string(path).expect("read")).expect("json");
        if let Some(case) = j.get("case").and_then(Case::from_json) {
            let obs = run(&case);
            for l in &obs.trace {
                println!("{}", l);
            }
            println!("results {:?}\nechoes {:?}\nunsettled left {:?}\nerrors {:?}", obs.results, obs.echoes, obs.unsettled_left, obs.errors);
            let ex = expect(&case);
            println!("expected results {:?}, must echo {:?}", ex.results, ex.must_echo);
            match check(&case, &obs) {
                Some((k, d)) => {
                    println!("REPLAY: property violated [{}]: {}", k, d);
                    std::process::exit(1);
                }
                None => {
                    println!("REPLAY: property holds on this scenario");
                    std::process::exit(0);
                }
            }
        }
        if let Some(case) = j.get("rcase").and_then(RCase::from_json) {
            let obs = run_receiver(&case);
            for l in &obs.trace {
                println!("{}", l);
            }
            println!("dispositions {:?}\nunsettled after disposal {:?}\nat end {:?}\nerrors {:?}", obs.dispositions, obs.unsettled_after_disposal, obs.unsettled_at_end, obs.errors);
            match check_receiver(&case, &obs) {
                Some((k, d)) => {
                    println!("REPLAY: property violated [{}]: {}", k, d);
                    std::process::exit(1);
                }
                None => {
                    println!("REPLAY: property holds on this scenario");
                    std::process::exit(0);
                }
            }
        }
        std::process::exit(2);
    }
    let mut rng = Rng::new(opts.seed ^ 0xc02);
    let mut corpus: Vec<Case> = vec![];
    let mut rcorpus: Vec<RCase> = vec![];
    if let Ok(rd) = std::fs::read_dir("/verif/corpus/C02") {
        let mut paths: Vec<_> = rd.filter_map(|e| e.ok().map(|e| e.path())).collect();
        paths.sort();
        for p in paths {
            if let Ok(txt) = std::fs::read_to_string(&p) {
                if let Ok(j) = serde_json::from_str::<J>(&txt) {
                    if let Some(c) = j.get("case").and_then(Case::from_json) {
                        corpus.push(c);
                    }
                    if let Some(c) = j.get("rcase").and_then(RCase::from_json) {
                        rcorpus.push(c);
                    }
                }
            }
        }
    }
    report.count_n("corpus_cases", (corpus.len() + rcorpus.len()) as u64);
    let n = if opts.thorough() { 20000 } else { 1500 };
    let mut model_lines: Vec<String> = vec![];
    let mut segments: Vec<(usize, usize, Case, Observed)> = vec![];
    for k in 0..(n + corpus.len() as u64) {
        let case = if (k as usize) < corpus.len() { corpus[k as usize].clone() } else { gen_case(&mut rng) };
        let obs = run(&case);
        report.evaluations += 1;
        let ex = expect(&case);
        if ex.results.iter().any(|r| r != "pending" && r != "accepted") || !ex.must_echo.is_empty() || (0..case.sends.len()).any(|i| !case.presettled(i) && ex.results[i] == "accepted") {
            report.nontrivial_case(fnv(&case.to_json().to_string()));
        }
        report.count_n("dispositions_played", case.script.len() as u64);
        report.count_n("settling_dispositions_expected", ex.must_echo.len() as u64);
        if case.links.len() > 1 {
            report.count("cases_with_several_links");
        }
        if k % (n / 3).max(1) == 0 {
            report.sample(case.to_json());
        }
        let verdict = check(&case, &obs);
        if let Some((key, desc)) = verdict {
            // shrink the script and the sends
            let mut best = case.clone();
            let key0 = key.clone();
            let script = shrink_list(&case.script, &mut |s: &[Disp]| {
                let mut c = case.clone();
                c.script = s.to_vec();
                let o = run(&c);
                matches!(check(&c, &o), Some((k2, _)) if k2 == key0)
            });
            best.script = script;
            let o2 = run(&best);
            let desc2 = check(&best, &o2).map(|x| x.1).unwrap_or(desc);
            report.finding(Finding { kind: "violation", key, description: desc2, replay: json!({"property": "C02", "module": "settle", "case": best.to_json(), "trace": o2.trace.iter().rev().take(40).rev().collect::<Vec<_>>()}) });
        } else if obs.errors.is_empty() {
            // model lines for this case; the implementation's aggregate is compared after the run
            let start = model_lines.len();
            model_lines.push(format!("Z reset {}", case.links.iter().map(|l| if l.rcv_second { "2" } else { "1" }).collect::<Vec<_>>().join(" ")));
            for (i, (l, _)) in case.sends.iter().enumerate() {
                model_lines.push(format!("Z send {} {} {} {}", l, i, case.initial_outgoing_id.wrapping_add(i as u32), if case.presettled(i) { 1 } else { 0 }));
            }
            for d in &case.script {
                model_lines.push(format!("Z disp {} {} {} {}", d.first, d.last.unwrap_or(d.first), if d.settled { 1 } else { 0 }, d.state));
            }
            model_lines.push("Z left".into());
            segments.push((start, model_lines.len(), case.clone(), obs.clone()));
        }
    }
    if driver_available() && !model_lines.is_empty() {
        match run_driver(&model_lines) {
            Ok(model) => {
                report.model_used = true;
                report.model_lines += model.len() as u64;
                let mut bad = 0u64;
                for (start, end, case, obs) in &segments {
                    // aggregate the model's outputs
                    let mut results: Vec<String> = vec!["pending".into(); case.sends.len()];
                    let mut echoes: Vec<(u32, u32, bool, u8)> = vec![];
                    for line in &model[*start..*end - 1] {
                        for tok in line.split(' ') {
                            if let Some(rest) = tok.strip_prefix('R') {
                                let (lt, st) = rest.split_once(':').unwrap_or(("", ""));
                                let t: usize = lt.split_once('.').and_then(|x| x.1.parse().ok()).unwrap_or(usize::MAX);
                                if t < results.len() && results[t] == "pending" {
                                    results[t] = if st == "received" || st == "none" { "error".into() } else { st.to_string() };
                                } else if t < results.len() {
                                    results[t] = format!("{}+again", results[t]);
                                }
                            } else if let Some(rest) = tok.strip_prefix('E') {
                                let (fl, st) = rest.split_once(':').unwrap_or(("", ""));
                                let (f, l) = fl.split_once('-').unwrap_or(("", ""));
                                let code = (0u8..6).find(|c| code_name(*c) == st).unwrap_or(9);
                                echoes.push((f.parse().unwrap_or(0), l.parse().unwrap_or(0), true, code));
                            }
                        }
                    }
                    let left: Vec<usize> = model[*end - 1].split(' ').filter_map(|x| x.parse().ok()).collect();
                    let imp_results: Vec<String> = obs.results.iter().map(|r| if r.starts_with("error:") { "error".to_string() } else { r.clone() }).collect();
                    if results != imp_results || echoes != obs.echoes || left != obs.unsettled_left {
                        if bad == 0 {
                            report.finding(Finding {
                                kind: "disagreement",
                                key: "model-vs-implementation".into(),
                                description: format!("results: implementation {:?} model {:?}; settling dispositions: implementation {:?} model {:?}; unsettled left: implementation {:?} model {:?}", imp_results, results, obs.echoes, echoes, obs.unsettled_left, left),
                                replay: json!({"property": "C02", "module": "settle", "case": case.to_json(), "model_lines": &model_lines[*start..*end], "model": &model[*start..*end]}),
                            });
                        }
                        bad += 1;
                    }
                }
                report.count_n("cases_disagreeing_with_model", bad);
            }
            Err(e) => report.notes.push(format!("model driver failed: {}", e)),
        }
    } else if !driver_available() {
        report.notes.push("model driver not available: correspondence skipped".into());
    }
    let nr = if opts.thorough() { 8000 } else { 600 };
    let mut rlines: Vec<String> = vec![];
    let mut rsegments: Vec<(usize, usize, RCase, RObserved, usize, usize)> = vec![];
    for k in 0..(nr + rcorpus.len() as u64) {
        let case = if (k as usize) < rcorpus.len() { rcorpus[k as usize].clone() } else { gen_rcase(&mut rng) };
        let obs = run_receiver(&case);
        report.evaluations += 1;
        report.nontrivial_case(fnv(&case.to_json().to_string()));
        report.count(if case.rcv_second { "receiver_cases_mode_second" } else { "receiver_cases_mode_first" });
        if case.modes.iter().any(|m| *m != 0) {
            report.count("receiver_cases_with_per_transfer_modes");
        }
        if k % (nr / 2).max(1) == 0 {
            report.sample(case.to_json());
        }
        if let Some((key, desc)) = check_receiver(&case, &obs) {
            report.finding(Finding { kind: "violation", key, description: desc, replay: json!({"property": "C02", "module": "settle", "rcase": case.to_json(), "trace": obs.trace.iter().rev().take(40).rev().collect::<Vec<_>>()}) });
        } else if obs.errors.is_empty() {
            let start = rlines.len();
            rlines.push(format!("Y reset {}", if case.rcv_second { 2 } else { 1 }));
            for k in 0..case.n {
                rlines.push(format!("Y arrive {} {} 0 {}", k, case.first_id.wrapping_add(k as u32), case.modes.get(k).copied().unwrap_or(0)));
            }
            let mut n_disp = 0;
            for (idx, code) in &case.disposals {
                // dispose_all sorts by delivery-id (plain order) and skips what is not unsettled
                let mut v: Vec<usize> = idx.clone();
                if v.len() > 1 {
                    v.sort_by_key(|k| case.first_id.wrapping_add(*k as u32));
                    v.dedup();
                }
                for k in v {
                    rlines.push(format!("Y dispose {} {} {}", k, case.first_id.wrapping_add(k as u32), code));
                    n_disp += 1;
                }
            }
            rlines.push("Y unsettled".into());
            for (a, b) in &case.settles {
                rlines.push(format!("Y indisp {} {} 1", case.first_id.wrapping_add(*a as u32), case.first_id.wrapping_add(*b as u32)));
            }
            rlines.push("Y unsettled".into());
            // the batch disposals as the model of `dispose_all` cuts them (Amqp.Dispose): one line per call,
            // the batch sorted by delivery-id and without the deliveries that are no longer unsettled
            let mut gone: Vec<bool> = vec![false; case.n];
            let a0 = rlines.len();
            for (idx, _code) in &case.disposals {
                let mut v: Vec<usize> = idx.iter().copied().filter(|k| !gone[*k]).collect();
                if idx.len() > 1 {
                    v.sort_by_key(|k| case.first_id.wrapping_add(*k as u32));
                }
                let words: Vec<String> = v.iter().map(|k| format!("{}:{}", case.first_id.wrapping_add(*k as u32), match case.modes.get(*k).copied().unwrap_or(0) { 1 => "0", 2 => "1", _ => "-" })).collect();
                rlines.push(format!("A batch {}", words.join(" ")));
                for k in v {
                    if !case.second(k) {
                        gone[k] = true;
                    }
                }
            }
            rsegments.push((start, rlines.len(), case.clone(), obs.clone(), n_disp, a0 - start));
        }
    }
    if driver_available() && !rlines.is_empty() {
        match run_driver(&rlines) {
            Ok(model) => {
                report.model_used = true;
                report.model_lines += model.len() as u64;
                let mut bad = 0u64;
                for (start, end, case, obs, n_disp, a0) in &rsegments {
                    let m = &model[*start..*start + *a0];
                    // the ranges on the wire are the ranges the model of dispose_all writes, call by call
                    let mut want_ranges: Vec<(u32, u32)> = vec![];
                    for line in &model[*start + *a0..*end] {
                        if let Some(d) = line.split("disps=").nth(1) {
                            for r in d.split(';').filter(|x| !x.is_empty()) {
                                let fl = r.split('/').next().unwrap_or("");
                                let mut it = fl.split('-');
                                if let (Some(a), Some(b)) = (it.next().and_then(|x| x.parse().ok()), it.next().and_then(|x| x.parse().ok())) {
                                    want_ranges.push((a, b));
                                }
                            }
                        }
                    }
                    let got_ranges: Vec<(u32, u32)> = obs.dispositions.iter().map(|(f, l, _, _)| (*f, *l)).collect();
                    if want_ranges != got_ranges {
                        report.finding(Finding {
                            kind: "disagreement",
                            key: "dispose-all-model".into(),
                            description: format!("the dispositions on the wire {:?} are not the ones the model of dispose_all writes {:?} for the disposal calls {:?} (first id {}, per-transfer modes {:?})", got_ranges, want_ranges, case.disposals, case.first_id, case.modes),
                            replay: json!({"property": "C02", "module": "settle", "rcase": case.to_json(), "model_lines": &rlines[*start + *a0..*end], "model": &model[*start + *a0..*end]}),
                        });
                    }
                    let d0 = 1 + case.n;
                    // model dispositions, one per delivery
                    let mut md: Vec<(u32, bool, String)> = vec![];
                    for line in &m[d0..d0 + n_disp] {
                        if let Some(rest) = line.strip_prefix('D') {
                            let parts: Vec<&str> = rest.split(':').collect();
                            let id: u32 = parts[0].split('-').next().and_then(|x| x.parse().ok()).unwrap_or(0);
                            md.push((id, parts.get(1) == Some(&"1"), parts.get(2).unwrap_or(&"").to_string()));
                        }
                    }
                    let mut id_: Vec<(u32, bool, String)> = vec![];
                    for (f, l, settled, st) in &obs.dispositions {
                        for i in 0..=l.wrapping_sub(*f).min(64) {
                            id_.push((f.wrapping_add(i), *settled, code_name(*st).to_string()));
                        }
                    }
                    md.sort();
                    id_.sort();
                    let tags = |line: &str| -> Vec<u8> {
                        let mut v: Vec<u8> = line.split(' ').filter_map(|x| x.parse().ok()).collect();
                        v.sort();
                        v
                    };
                    let norm = |v: &Vec<Vec<u8>>| -> Vec<u8> {
                        let mut o: Vec<u8> = v.iter().filter_map(|t| t.first().copied()).collect();
                        o.sort();
                        o
                    };
                    let mid_m = tags(&m[d0 + n_disp]);
                    let end_m = tags(&m[m.len() - 1]);
                    if md != id_ || mid_m != norm(&obs.unsettled_after_disposal) || end_m != norm(&obs.unsettled_at_end) {
                        if bad == 0 {
                            report.finding(Finding {
                                kind: "disagreement",
                                key: "model-vs-implementation-receiver".into(),
                                description: format!("dispositions: implementation {:?} model {:?}; unsettled after disposal: implementation {:?} model {:?}; at end: implementation {:?} model {:?}", id_, md, norm(&obs.unsettled_after_disposal), mid_m, norm(&obs.unsettled_at_end), end_m),
                                replay: json!({"property": "C02", "module": "settle", "rcase": case.to_json(), "model_lines": &rlines[*start..*end], "model": m}),
                            });
                        }
                        bad += 1;
                    }
                }
                report.count_n("receiver_cases_disagreeing_with_model", bad);
            }
            Err(e) => report.notes.push(format!("model driver failed: {}", e)),
        }
    }
    // two links with crossed handles, one closed while the other has a delivery outstanding; an outcome that
    // arrived before the session was ended and is asked for afterwards
    {
        report.evaluations += 1;
        report.count("two_links_then_end");
        report.nontrivial_case(fnv("two-links-then-end"));
        let replay = json!({"property": "C02", "module": "settle", "two_links_then_end": true});
        match run_two_links_then_end() {
            Ok((r1, r2)) => {
                if r1 != "Accepted" {
                    report.finding(Finding { kind: "violation", key: "send-never-resolved:other-link-closed".into(), description: format!("links a / b (ours 0 / 1, the peer's 1 / 0): a delivery on b was outstanding when a was closed; the peer then accepted it; the send on b resolved as `{}`", r1), replay: replay.clone() });
                }
                if r2 != "Accepted" {
                    report.finding(Finding { kind: "violation", key: "wrong-outcome:asked-after-the-session-ended".into(), description: format!("a delivery was accepted and settled by the peer, the session was then ended, and the future of the send awaited afterwards yields `{}`", r2), replay });
                }
            }
            Err(e) => report.finding(Finding { kind: "violation", key: "two-links-scenario-failed".into(), description: e, replay }),
        }
    }
    // a sending link on the listener side whose acceptor supports fewer receiver-settle-modes than the peer asks
    // for: whatever mode the listener's attach confirms is the mode of the link, and in mode second the
    // receiver's unsettled outcome is answered with a settling disposition
    for supported in [fe2o3_amqp::acceptor::SupportedReceiverSettleModes::Both, fe2o3_amqp::acceptor::SupportedReceiverSettleModes::First, fe2o3_amqp::acceptor::SupportedReceiverSettleModes::Second] {
        report.evaluations += 1;
        report.count("listener_sender_mode_second");
        let name = format!("{:?}", supported);
        report.nontrivial_case(fnv(&format!("lsecond-{}", name)));
        let replay = json!({"property": "C02", "module": "settle", "listener_sender_mode_second": {"supported": name}});
        match crate::lsender::run_settle_second(supported) {
            Ok((confirmed, echoes, res)) => {
                let second = matches!(confirmed, ReceiverSettleMode::Second);
                if second && !echoes.iter().any(|(_, _, settled)| *settled) {
                    report.finding(Finding { kind: "violation", key: "no-settling-echo:listener-sender".into(), description: format!("a LinkAcceptor supporting {} confirmed rcv-settle-mode second to a receiver that asked for it; the receiver's unsettled `accepted` was not answered with a settling disposition (send returned {}, dispositions from the sender: {:?})", name, res, echoes), replay });
                } else if !res.starts_with("Accepted") {
                    report.finding(Finding { kind: "violation", key: "send-never-resolved:listener-sender".into(), description: format!("a LinkAcceptor supporting {} (confirmed mode {:?}): send returned {} although the receiver accepted the delivery", name, confirmed, res), replay });
                }
            }
            Err(e) => report.finding(Finding { kind: "violation", key: "listener-sender-scenario-failed".into(), description: e, replay }),
        }
    }
    split_runs(&mut rng, opts, &mut report);
    report.write(&opts.report);
    println!("settle: {} cases, {} non-trivial, {} findings", report.evaluations, report.nontrivial.len(), report.findings.len());
}
