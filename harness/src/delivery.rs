//! C01 — end-to-end delivery: a real sender on one endpoint, a real receiver on the other
//! (client <-> ConnectionAcceptor over an in-memory stream), in both directions, with a tap on
//! the stream that records the frames with an independent parser.
//!
//! What `recv` returns must be the messages sent: each once, byte for byte (all sections and
//! body, compared as re-encoded bytes), in order — whatever the message sizes, max-frame-sizes,
//! session windows, credit policy, settlement modes, channel buffer sizes, max-message-size,
//! chunking of the byte stream and pauses between the calls.  The frames of every delivery seen
//! on the wire are compared with the Lean model of the sender's cut (`F ssplit`).

use std::sync::{Arc, Mutex};
use std::time::Duration;

use fe2o3_amqp::acceptor::{ConnectionAcceptor, LinkAcceptor, LinkEndpoint, SessionAcceptor};
use fe2o3_amqp::link::receiver::CreditMode;
use fe2o3_amqp::{Connection, Receiver, Sender, Session};
use fe2o3_amqp_types::definitions::{ReceiverSettleMode, SenderSettleMode};
use fe2o3_amqp_types::messaging::{
    message::__private::Serializable, AmqpSequence, AmqpValue, ApplicationProperties, Batch, Body, Data, Footer, Header, Message, MessageAnnotations, Priority, Properties,
};
use fe2o3_amqp_types::performatives::Performative;
use serde::Deserialize;
use serde_amqp::primitives::{Binary, Symbol};
use serde_amqp::Value;
use serde_json::{json, Value as J};
use tokio::io::{AsyncReadExt, AsyncWriteExt};

use crate::common::*;
use crate::peer::paused_runtime;

#[derive(Clone, Debug)]
pub struct Case {
    /// true: the client sends and the listener receives; false: the other way round
    pub client_sends: bool,
    pub sizes: Vec<usize>,
    /// body kind per message: 0 value(binary) 1 data 2 sequence 3 two data sections
    pub bodies: Vec<u8>,
    /// which optional sections each message carries (bit mask: header, annotations, properties, application-properties, footer)
    pub sections: Vec<u8>,
    pub client_max_frame: u32,
    pub listener_max_frame: u32,
    pub client_windows: (u32, u32),
    pub listener_windows: (u32, u32),
    pub client_buffer: usize,
    pub listener_buffer: usize,
    /// receiver credit: 0 = manual (granted `manual_credit` at a time), n = Auto(n)
    pub auto_credit: u32,
    pub manual_credit: u32,
    pub snd_mode: u8,
    pub rcv_second: bool,
    /// the receiving link's max-message-size (0 = none): makes the sending link cut deliveries
    pub max_message_size: u64,
    /// per send: 0 = send().await, 1 = send_batchable and await the outcomes at the end
    pub batchable: bool,
    /// pauses (virtual ms) before each send / each recv
    pub send_pause: Vec<u8>,
    pub recv_pause: Vec<u8>,
    /// the tap forwards at most this many bytes at a time (0 = as they come)
    pub chunk: usize,
    /// run on a multi-threaded runtime with real time instead of the paused clock
    pub multi_thread: bool,
    /// the sending link's initial delivery-count: 0, or a few below 2^32
    pub initial_dc: u32,
    /// per message: the application polls `recv` this many times and drops the future (a `select!` that
    /// took another branch, a time-out) before it calls `recv` for good; 0 = never
    pub recv_drop: Vec<u8>,
    /// the receiving link (client receivers only) accepts every delivery itself as `recv` returns it
    pub auto_accept: bool,
    /// manual credit: before a `recv` the application states the credit it still has out once more
    /// (`set_credit(credit left)`), with whatever is under way still unread in the link's queue
    pub restate: bool,
}

impl Case {
    pub fn to_json(&self) -> J {
        json!({"client_sends": self.client_sends, "sizes": self.sizes, "bodies": self.bodies, "sections": self.sections, "client_max_frame": self.client_max_frame, "listener_max_frame": self.listener_max_frame,
            "client_windows": [self.client_windows.0, self.client_windows.1], "listener_windows": [self.listener_windows.0, self.listener_windows.1], "client_buffer": self.client_buffer,
            "listener_buffer": self.listener_buffer, "auto_credit": self.auto_credit, "manual_credit": self.manual_credit, "snd_mode": self.snd_mode, "rcv_second": self.rcv_second,
            "max_message_size": self.max_message_size, "batchable": self.batchable, "send_pause": self.send_pause, "recv_pause": self.recv_pause, "chunk": self.chunk, "multi_thread": self.multi_thread, "initial_dc": self.initial_dc, "recv_drop": self.recv_drop, "auto_accept": self.auto_accept, "restate": self.restate})
    }
    pub fn from_json(j: &J) -> Option<Case> {
        let v8 = |k: &str| -> Option<Vec<u8>> { Some(j.get(k)?.as_array()?.iter().filter_map(|x| x.as_u64().map(|v| v as u8)).collect()) };
        let pair = |k: &str| -> Option<(u32, u32)> {
            let a = j.get(k)?.as_array()?;
            Some((a.first()?.as_u64()? as u32, a.get(1)?.as_u64()? as u32))
        };
        Some(Case {
            client_sends: j.get("client_sends")?.as_bool()?,
            sizes: j.get("sizes")?.as_array()?.iter().filter_map(|x| x.as_u64().map(|v| v as usize)).collect(),
            bodies: v8("bodies")?,
            sections: v8("sections")?,
            client_max_frame: j.get("client_max_frame")?.as_u64()? as u32,
            listener_max_frame: j.get("listener_max_frame")?.as_u64()? as u32,
            client_windows: pair("client_windows")?,
            listener_windows: pair("listener_windows")?,
            client_buffer: j.get("client_buffer")?.as_u64()? as usize,
            listener_buffer: j.get("listener_buffer")?.as_u64()? as usize,
            auto_credit: j.get("auto_credit")?.as_u64()? as u32,
            manual_credit: j.get("manual_credit")?.as_u64()? as u32,
            snd_mode: j.get("snd_mode")?.as_u64()? as u8,
            rcv_second: j.get("rcv_second")?.as_bool()?,
            max_message_size: j.get("max_message_size")?.as_u64()?,
            batchable: j.get("batchable")?.as_bool()?,
            send_pause: v8("send_pause")?,
            recv_pause: v8("recv_pause")?,
            chunk: j.get("chunk")?.as_u64()? as usize,
            multi_thread: j.get("multi_thread").and_then(|x| x.as_bool()).unwrap_or(false),
            initial_dc: j.get("initial_dc").and_then(|x| x.as_u64()).unwrap_or(0) as u32,
            recv_drop: v8("recv_drop").unwrap_or_default(),
            auto_accept: j.get("auto_accept").and_then(|x| x.as_bool()).unwrap_or(false),
            restate: j.get("restate").and_then(|x| x.as_bool()).unwrap_or(false),
        })
    }
}

pub fn gen_case(rng: &mut Rng, multi_thread: bool) -> Case {
    let n = rng.range(1, if multi_thread { 12 } else { 30 }) as usize;
    let frames = [512u32, 512, 600, 1024, 4096, 65536];
    let wins = [1u32, 1, 2, 5, 100, 5000];
    Case {
        client_sends: rng.chance(1, 2),
        sizes: (0..n).map(|_| *rng.pick(&[0usize, 1, 10, 100, 400, 511, 512, 513, 1500, 5000, 70000])).collect(),
        bodies: (0..n).map(|_| rng.below(4) as u8).collect(),
        sections: (0..n).map(|_| rng.below(32) as u8).collect(),
        client_max_frame: *rng.pick(&frames),
        listener_max_frame: *rng.pick(&frames),
        client_windows: (*rng.pick(&wins), *rng.pick(&wins)),
        listener_windows: (*rng.pick(&wins), *rng.pick(&wins)),
        client_buffer: *rng.pick(&[1usize, 2, 16, 2048]),
        listener_buffer: *rng.pick(&[1usize, 2, 16, 2048]),
        auto_credit: *rng.pick(&[0u32, 1, 2, 10, 200]),
        manual_credit: rng.range(1, 5) as u32,
        snd_mode: rng.below(3) as u8,
        rcv_second: rng.chance(1, 3),
        max_message_size: *rng.pick(&[0u64, 0, 0, 64, 300, 2000]),
        batchable: rng.chance(1, 3),
        send_pause: (0..n).map(|_| *rng.pick(&[0u8, 0, 0, 1, 3])).collect(),
        recv_pause: (0..n).map(|_| *rng.pick(&[0u8, 0, 0, 1, 7])).collect(),
        chunk: *rng.pick(&[0usize, 0, 1, 7, 100, 4000]),
        multi_thread,
        initial_dc: *rng.pick(&[0u32, 0, 0, 0xFFFF_FFFF, 0xFFFF_FFFE, 0xFFFF_FFFB]),
        auto_accept: rng.chance(1, 3),
        restate: rng.chance(1, 3),
        recv_drop: if rng.chance(1, 3) { (0..n).map(|_| *rng.pick(&[0u8, 0, 1, 1, 2, 3])).collect() } else { vec![0; n] },
    }
}

/// the k-th message of a case
pub fn message_of(case: &Case, k: usize) -> Message<Body<Value>> {
    let n = case.sizes[k];
    let bytes: Vec<u8> = std::iter::once(k as u8).chain((0..n).map(|i| (k * 31 + i * 7) as u8)).collect();
    let body = match case.bodies[k] {
        0 => Body::Value(AmqpValue(Value::Binary(Binary::from(bytes)))),
        1 => Body::Data(Batch::new(vec![Data(Binary::from(bytes))])),
        2 => Body::Sequence(Batch::new(vec![AmqpSequence(vec![Value::Uint(k as u32), Value::Binary(Binary::from(bytes))])])),
        _ => {
            let (a, b) = bytes.split_at(bytes.len() / 2);
            Body::Data(Batch::new(vec![Data(Binary::from(a.to_vec())), Data(Binary::from(b.to_vec()))]))
        }
    };
    let s = case.sections[k];
    let mut m: Message<Body<Value>> = Message { header: None, delivery_annotations: None, message_annotations: None, properties: None, application_properties: None, body, footer: None };
    if s & 1 != 0 {
        m.header = Some(Header { durable: true, priority: Priority::from(k as u8), ttl: Some(1000 + k as u32), first_acquirer: false, delivery_count: k as u32 });
    }
    if s & 2 != 0 {
        m.message_annotations = Some(MessageAnnotations::builder().insert(Symbol::from("x-k"), Value::Uint(k as u32)).build());
    }
    if s & 4 != 0 {
        m.properties = Some(Properties::builder().message_id(k as u64).subject(format!("subject {}", k)).to("to").build());
    }
    if s & 8 != 0 {
        m.application_properties = Some(ApplicationProperties::builder().insert("k", k as u32).insert("s", "é€").build());
    }
    if s & 16 != 0 {
        m.footer = Some(Footer::builder().insert(Symbol::from("f"), Value::Long(-(k as i64))).build());
    }
    m
}

fn encoded(m: &Message<Body<Value>>) -> Vec<u8> {
    serde_amqp::to_vec(&Serializable(m.clone())).expect("encode message")
}

#[derive(Debug, Default, Clone)]
pub struct Observed {
    /// the messages `recv` returned, re-encoded
    pub received: Vec<Vec<u8>>,
    pub send_results: Vec<String>,
    pub notes: Vec<String>,
    /// transfer frames from the sending side as the tap saw them: (delivery-id, has tag, more, payload length, encoded performative length with more=false)
    pub transfers: Vec<(Option<u32>, bool, bool, usize, Vec<u8>)>,
    pub negotiated_frame: u32,
}

/// copies bytes from `from` to `to` (at most `chunk` at a time), keeping a copy
async fn pump(mut from: tokio::io::ReadHalf<tokio::io::DuplexStream>, mut to: tokio::io::WriteHalf<tokio::io::DuplexStream>, chunk: usize, copy: Option<Arc<Mutex<Vec<u8>>>>) {
    let mut buf = vec![0u8; 65536];
    loop {
        let lim = if chunk == 0 { buf.len() } else { chunk.min(buf.len()) };
        match from.read(&mut buf[..lim]).await {
            Ok(0) | Err(_) => break,
            Ok(n) => {
                if let Some(c) = &copy {
                    c.lock().unwrap().extend_from_slice(&buf[..n]);
                }
                if to.write_all(&buf[..n]).await.is_err() {
                    break;
                }
                let _ = to.flush().await;
                if chunk != 0 && chunk < 100 {
                    tokio::task::yield_now().await;
                }
            }
        }
    }
    let _ = to.shutdown().await;
}

/// independent frame parser over the recorded byte stream
fn parse_stream(bytes: &[u8], obs: &mut Observed) {
    let mut pos = 8; // protocol header
    while pos + 8 <= bytes.len() {
        let size = u32::from_be_bytes([bytes[pos], bytes[pos + 1], bytes[pos + 2], bytes[pos + 3]]) as usize;
        if size < 8 || pos + size > bytes.len() {
            break;
        }
        let doff = bytes[pos + 4] as usize * 4;
        let body = &bytes[pos + doff.max(8).min(size)..pos + size];
        pos += size;
        if body.is_empty() {
            continue;
        }
        let mut cur = std::io::Cursor::new(body);
        let perf = {
            let reader = serde_amqp::read::IoReader::new(&mut cur);
            let mut de = serde_amqp::de::Deserializer::new(reader);
            Performative::deserialize(&mut de)
        };
        if std::env::var("VERIF_TRACE_FLOWS").is_ok() {
            match &perf {
                Ok(Performative::Flow(f)) => eprintln!("   flow dc={:?} credit={:?} drain={} echo={} nii={:?} iw={} noi={} ow={}", f.delivery_count, f.link_credit, f.drain, f.echo, f.next_incoming_id, f.incoming_window, f.next_outgoing_id, f.outgoing_window),
                Ok(Performative::Transfer(t)) => eprintln!("   transfer id={:?} more={} settled={:?}", t.delivery_id, t.more, t.settled),
                Ok(Performative::Disposition(d)) => eprintln!("   disposition {}..{:?} settled={} {:?}", d.first, d.last, d.settled, d.state.as_ref().map(|s| format!("{:?}", s).chars().take(12).collect::<String>())),
                Ok(Performative::Attach(a)) => eprintln!("   attach role={:?} idc={:?}", a.role, a.initial_delivery_count),
                Ok(Performative::Detach(d)) => eprintln!("   detach closed={} err={:?}", d.closed, d.error.as_ref().map(|e| format!("{:?}", e.condition))),
                _ => {}
            }
        }
        if let Ok(Performative::Transfer(t)) = perf {
            let used = cur.position() as usize;
            let mut whole = t.clone();
            whole.more = false;
            let enc = serde_amqp::to_vec(&whole).unwrap_or_default();
            obs.transfers.push((t.delivery_id, t.delivery_tag.is_some(), t.more, body.len() - used, enc));
        }
    }
}

async fn sender_side(mut s: Sender, case: Case) -> (Vec<String>, Sender) {
    let mut results = vec![];
    let mut futs = vec![];
    for k in 0..case.sizes.len() {
        if case.send_pause[k] > 0 {
            tokio::time::sleep(Duration::from_millis(case.send_pause[k] as u64)).await;
        }
        let m = message_of(&case, k);
        if case.batchable {
            match tokio::time::timeout(Duration::from_secs(60), s.send_batchable(m)).await {
                Ok(Ok(f)) => futs.push(f),
                Ok(Err(e)) => results.push(format!("send {}: {:?}", k, e)),
                Err(_) => results.push(format!("send {}: no progress for 60 s", k)),
            }
        } else {
            match tokio::time::timeout(Duration::from_secs(60), s.send(m)).await {
                Ok(Ok(o)) => {
                    if !o.is_accepted() {
                        results.push(format!("send {}: outcome {:?}", k, o));
                    }
                }
                Ok(Err(e)) => results.push(format!("send {}: {:?}", k, e)),
                Err(_) => results.push(format!("send {}: no progress for 60 s", k)),
            }
        }
    }
    for (k, f) in futs.into_iter().enumerate() {
        match tokio::time::timeout(Duration::from_secs(60), f).await {
            Ok(Ok(o)) => {
                if !o.is_accepted() {
                    results.push(format!("outcome {}: {:?}", k, o));
                }
            }
            Ok(Err(e)) => results.push(format!("outcome {}: {:?}", k, e)),
            Err(_) => results.push(format!("outcome {}: none for 60 s", k)),
        }
    }
    (results, s)
}

async fn receiver_side(mut r: Receiver, case: Case) -> (Vec<Vec<u8>>, Vec<String>, Receiver) {
    let mut got = vec![];
    let mut notes = vec![];
    let manual = case.auto_credit == 0;
    let mut credit_left = 0u32;
    for k in 0..case.sizes.len() {
        if case.recv_pause[k] > 0 {
            tokio::time::sleep(Duration::from_millis(case.recv_pause[k] as u64)).await;
        }
        // (a receiver accepted by a listener starts with Auto(200): what it finds may have been sent under that)
        if manual && credit_left == 0 && case.restate && k > 0 && !case.client_sends {
            // all the credit is used up: an application that looks into the link now finds nothing — the
            // sender has no credit to send anything under
            match tokio::time::timeout(Duration::from_millis(50), r.recv::<Body<Value>>()).await {
                Err(_) => {}
                Ok(Ok(d)) => {
                    got.push(encoded(d.message()));
                    notes.push(format!("recv {}: a delivery although no credit was out", k));
                    break;
                }
                Ok(Err(e)) => {
                    notes.push(format!("recv {} (no credit out): {:?}", k, e));
                    break;
                }
            }
        }
        if manual && credit_left == 0 {
            if let Err(e) = r.set_credit(case.manual_credit).await {
                notes.push(format!("set_credit: {:?}", e));
            }
            credit_left = case.manual_credit;
        }
        if manual && case.restate && credit_left > 0 {
            if let Err(e) = r.set_credit(credit_left).await {
                notes.push(format!("set_credit (restated): {:?}", e));
            }
        }
        // an application that gives up on a `recv` (polled a few times, then dropped) and asks again; if
        // such an attempt happens to complete, its delivery counts
        let mut early = None;
        let drops = case.recv_drop.get(k).copied().unwrap_or(0);
        if drops > 0 {
            if let Some(x) = crate::cancel::poll_n(r.recv::<Body<Value>>(), drops as u32).await {
                early = Some(x);
            }
        }
        let res = match early {
            Some(x) => Ok(x),
            None => tokio::time::timeout(Duration::from_secs(60), r.recv::<Body<Value>>()).await,
        };
        match res {
            Ok(Ok(d)) => {
                got.push(encoded(d.message()));
                credit_left = credit_left.saturating_sub(1);
                if !r.auto_accept() {
                    if let Err(e) = r.accept(&d).await {
                        notes.push(format!("accept {}: {:?}", k, e));
                    }
                }
            }
            Ok(Err(e)) => {
                notes.push(format!("recv {}: {:?}", k, e));
                break;
            }
            Err(_) => {
                notes.push(format!("recv {}: nothing for 60 s", k));
                break;
            }
        }
    }
    // one more, briefly: nothing must follow
    if let Ok(Ok(d)) = tokio::time::timeout(Duration::from_millis(300), r.recv::<Body<Value>>()).await {
        got.push(encoded(d.message()));
        notes.push("a delivery after the last message".into());
    }
    (got, notes, r)
}

async fn scenario(case: Case) -> Result<Observed, String> {
    let (cio, tap_c) = tokio::io::duplex(1 << 16);
    let (tap_l, lio) = tokio::io::duplex(1 << 16);
    let (tc_r, tc_w) = tokio::io::split(tap_c);
    let (tl_r, tl_w) = tokio::io::split(tap_l);
    let c2l: Arc<Mutex<Vec<u8>>> = Arc::new(Mutex::new(vec![]));
    let l2c: Arc<Mutex<Vec<u8>>> = Arc::new(Mutex::new(vec![]));
    let p1 = tokio::spawn(pump(tc_r, tl_w, case.chunk, Some(c2l.clone())));
    let p2 = tokio::spawn(pump(tl_r, tc_w, case.chunk, Some(l2c.clone())));

    let snd_mode = match case.snd_mode {
        0 => SenderSettleMode::Unsettled,
        1 => SenderSettleMode::Settled,
        _ => SenderSettleMode::Mixed,
    };
    let rcv_mode = if case.rcv_second { ReceiverSettleMode::Second } else { ReceiverSettleMode::First };
    let lc = case.clone();
    let listener = tokio::spawn(async move {
        let acc = ConnectionAcceptor::builder().container_id("listener").max_frame_size(lc.listener_max_frame).buffer_size(lc.listener_buffer).build();
        let mut conn = acc.accept(lio).await.map_err(|e| format!("accept: {:?}", e))?;
        let sacc = SessionAcceptor::builder().incoming_window(lc.listener_windows.0).outgoing_window(lc.listener_windows.1).buffer_size(lc.listener_buffer).build();
        let mut session = sacc.accept(&mut conn).await.map_err(|e| format!("session accept: {:?}", e))?;
        let mut lb = LinkAcceptor::builder().initial_delivery_count(lc.initial_dc);
        if lc.max_message_size > 0 && lc.client_sends {
            lb = lb.max_message_size(lc.max_message_size);
        }
        let lacc = lb.build();
        let link = lacc.accept(&mut session).await.map_err(|e| format!("link accept: {:?}", e))?;
        let out: (Vec<Vec<u8>>, Vec<String>, Vec<String>) = match link {
            LinkEndpoint::Receiver(r) => {
                let (got, notes, r) = receiver_side(r, lc.clone()).await;
                let _ = tokio::time::timeout(Duration::from_secs(5), r.close()).await;
                (got, notes, vec![])
            }
            LinkEndpoint::Sender(s) => {
                let (res, s) = sender_side(s, lc.clone()).await;
                let _ = tokio::time::timeout(Duration::from_secs(5), s.close()).await;
                (vec![], vec![], res)
            }
        };
        let _ = tokio::time::timeout(Duration::from_secs(5), session.on_end()).await;
        let _ = tokio::time::timeout(Duration::from_secs(5), conn.on_close()).await;
        Ok::<_, String>(out)
    });
    let cc = case.clone();
    let client = tokio::spawn(async move {
        let mut conn = Connection::builder().container_id("client").max_frame_size(cc.client_max_frame).buffer_size(cc.client_buffer).open_with_stream(cio).await.map_err(|e| format!("open: {:?}", e))?;
        let mut session = Session::builder().incoming_window(cc.client_windows.0).outgoing_window(cc.client_windows.1).buffer_size(cc.client_buffer).begin(&mut conn).await.map_err(|e| format!("begin: {:?}", e))?;
        let out: (Vec<Vec<u8>>, Vec<String>, Vec<String>) = if cc.client_sends {
            let s = Sender::builder().name("l").target("q").sender_settle_mode(snd_mode).initial_delivery_count(cc.initial_dc).attach(&mut session).await.map_err(|e| format!("attach: {:?}", e))?;
            let (res, s) = sender_side(s, cc.clone()).await;
            let _ = tokio::time::timeout(Duration::from_secs(5), s.close()).await;
            (vec![], vec![], res)
        } else {
            let mut b = Receiver::builder().name("l").source("q").auto_accept(cc.auto_accept).receiver_settle_mode(rcv_mode).credit_mode(if cc.auto_credit == 0 { CreditMode::Manual } else { CreditMode::Auto(cc.auto_credit) });
            if cc.max_message_size > 0 {
                b = b.max_message_size(cc.max_message_size);
            }
            let r = b.attach(&mut session).await.map_err(|e| format!("attach: {:?}", e))?;
            let (got, notes, r) = receiver_side(r, cc.clone()).await;
            let _ = tokio::time::timeout(Duration::from_secs(5), r.close()).await;
            (got, notes, vec![])
        };
        let _ = tokio::time::timeout(Duration::from_secs(5), session.end()).await;
        let _ = tokio::time::timeout(Duration::from_secs(5), conn.close()).await;
        Ok::<_, String>(out)
    });
    let (l, c) = tokio::join!(listener, client);
    let l = l.map_err(|e| format!("listener task: {:?}", e))??;
    let c = c.map_err(|e| format!("client task: {:?}", e))??;
    let _ = tokio::time::timeout(Duration::from_secs(5), p1).await;
    let _ = tokio::time::timeout(Duration::from_secs(5), p2).await;
    let mut obs = Observed::default();
    obs.received = if case.client_sends { l.0 } else { c.0 };
    obs.notes = [l.1, c.1].concat();
    obs.send_results = [l.2, c.2].concat();
    // a frame may be as large as the RECEIVING side said it can take
    obs.negotiated_frame = if case.client_sends { case.listener_max_frame } else { case.client_max_frame };
    let stream = if case.client_sends { c2l.lock().unwrap().clone() } else { l2c.lock().unwrap().clone() };
    if std::env::var("VERIF_TRACE_FLOWS").is_ok() {
        eprintln!("--- receiver -> sender");
        let other = if case.client_sends { l2c.lock().unwrap().clone() } else { c2l.lock().unwrap().clone() };
        let mut scratch = Observed::default();
        parse_stream(&other, &mut scratch);
        eprintln!("--- sender -> receiver");
    }
    parse_stream(&stream, &mut obs);
    Ok(obs)
}

pub fn run_case(case: &Case) -> Result<Observed, String> {
    if case.multi_thread {
        let rt = tokio::runtime::Builder::new_multi_thread().worker_threads(4).enable_all().build().expect("runtime");
        rt.block_on(async { tokio::time::timeout(Duration::from_secs(120), scenario(case.clone())).await.map_err(|_| "the scenario did not finish within 120 s".to_string())? })
    } else {
        let rt = paused_runtime();
        rt.block_on(scenario(case.clone()))
    }
}

pub fn check(case: &Case, obs: &Observed) -> Option<(String, String)> {
    let want: Vec<Vec<u8>> = (0..case.sizes.len()).map(|k| encoded(&message_of(case, k))).collect();
    for (i, g) in obs.received.iter().enumerate() {
        match want.get(i) {
            Some(w) if w == g => {}
            Some(_) => {
                let which = want.iter().position(|w| w == g);
                let key = match which {
                    Some(j) if j < i => "message-duplicated",
                    Some(_) => "message-lost-or-reordered",
                    None => "message-corrupted",
                };
                return Some((key.into(), format!("the {}-th message received is {}; notes {:?}; send results {:?}", i, which.map(|j| format!("message {}", j)).unwrap_or_else(|| format!("{} bytes equal to no message sent (expected {} bytes)", g.len(), want[i].len())), obs.notes, obs.send_results)));
            }
            None => return Some(("message-duplicated".into(), format!("{} messages received, {} sent", obs.received.len(), want.len()))),
        }
    }
    if obs.received.len() < want.len() {
        let stalled = obs.notes.iter().any(|n| n.contains("nothing for 60 s")) || obs.send_results.iter().any(|n| n.contains("60 s"));
        return Some((if stalled { "delivery-stalls".into() } else { "message-lost".into() }, format!("{} of {} messages received; notes {:?}; send results {:?}", obs.received.len(), want.len(), obs.notes, obs.send_results)));
    }
    if let Some(bad) = obs.send_results.first() {
        return Some(("send-fails".into(), format!("{}; notes {:?}", bad, obs.notes)));
    }
    if let Some(bad) = obs.notes.first() {
        return Some(("receiver-reports-error".into(), bad.clone()));
    }
    None
}

/// per delivery seen on the wire: the model's question and the implementation's answer
pub fn model_lines(case: &Case, obs: &Observed) -> (Vec<String>, Vec<String>) {
    let mut lines = vec![];
    let mut imp = vec![];
    if case.max_message_size != 0 {
        // the link cut comes first; the engine's cut of each link transfer is compared in C07's runs
        return (lines, imp);
    }
    let b = obs.negotiated_frame as usize - 8;
    let mut i = 0;
    while i < obs.transfers.len() {
        let (_, has_tag, _, _, enc_whole) = &obs.transfers[i];
        if !*has_tag {
            i += 1;
            continue;
        }
        let mut j = i;
        let mut lens = vec![];
        loop {
            let (_, tag, more, plen, _) = &obs.transfers[j];
            if j > i && *tag {
                break;
            }
            lens.push(*plen);
            j += 1;
            if !*more || j >= obs.transfers.len() {
                break;
            }
        }
        // the performative as handed to the engine (more = false, delivery-id assigned), its `more` form and the continuation form
        let whole: fe2o3_amqp_types::performatives::Transfer = match serde_amqp::from_slice::<Performative>(enc_whole) {
            Ok(Performative::Transfer(t)) => t,
            _ => {
                i = j;
                continue;
            }
        };
        let len_of = |t: &fe2o3_amqp_types::performatives::Transfer| serde_amqp::to_vec(&Performative::Transfer(t.clone())).map(|b| b.len()).unwrap_or(0);
        // measured with the widest delivery-id, as split_transfer does before the id is assigned
        let mut w = whole.clone();
        w.delivery_id = Some(u32::MAX);
        let mut first = w.clone();
        first.more = true;
        let mut rest = first.clone();
        rest.delivery_id = None;
        rest.delivery_tag = None;
        rest.message_format = None;
        rest.settled = None;
        rest.rcv_settle_mode = None;
        let total: usize = lens.iter().sum();
        lines.push(format!("F ssplit {} {} {} {} {}", b, len_of(&w), len_of(&first), len_of(&rest), total));
        let np = lens.len();
        imp.push(lens.iter().enumerate().map(|(k, l)| format!("{}:{}", if np == 1 { "whole" } else if k == 0 { "first" } else if k + 1 == np { "last" } else { "cont" }, l)).collect::<Vec<_>>().join(" "));
        i = j;
    }
    (lines, imp)
}

pub fn main(opts: &Opts) {
    let mut report = Report::new(
        "C01",
        "1..30 messages of 0 B .. 70 KB (amqp-value / data / sequence / two data sections; header, annotations, properties, application-properties, footer present or absent) from a real Sender to a real \
         Receiver, client -> listener and listener -> client, max-frame-size 512..64Ki on each side, incoming / outgoing window 1..5000 on each side, credit Auto(1..200) or manual 1..5 at a time, \
         sender settle mode unsettled / settled / mixed, receiver settle mode first / second, link-to-session and session-to-connection buffers 1..2048, max-message-size none / 64 / 300 / 2000, \
         send or send_batchable, pauses before sends and recvs, byte stream forwarded 1 / 7 / 100 / 4000 bytes at a time or as it comes; under the paused clock, and a smaller number on a 4-thread \
         runtime with real time; non-trivial = a delivery of several frames or a window / credit smaller than the number of messages; distinct by hash of the case",
    );
    if let Some(path) = &opts.replay {
        let j: J = serde_json::from_str(&std::fs::read_to_string(path).expect("read")).expect("json");
        if let Some(case) = j.get("case").and_then(Case::from_json) {
            match run_case(&case) {
                Ok(obs) => match check(&case, &obs) {
                    Some((k, d)) => {
                        println!("REPLAY: property violated [{}]: {}", k, d);
                        std::process::exit(1);
                    }
                    None => {
                        println!("REPLAY: property holds on this scenario ({} messages received)", obs.received.len());
                        std::process::exit(0);
                    }
                },
                Err(e) => {
                    println!("REPLAY: scenario failed: {}", e);
                    std::process::exit(1);
                }
            }
        }
        std::process::exit(2);
    }
    let mut rng = Rng::new(opts.seed ^ 0xc01);
    let mut corpus: Vec<Case> = vec![];
    if let Ok(rd) = std::fs::read_dir(format!("{}/C01", std::env::var("VERIF_CORPUS").unwrap_or_else(|_| "/verif/corpus".into()))) {
        let mut files: Vec<_> = rd.filter_map(|e| e.ok()).map(|e| e.path()).collect();
        files.sort();
        for f in files {
            if let Ok(j) = serde_json::from_str::<J>(&std::fs::read_to_string(&f).unwrap_or_default()) {
                if let Some(c) = j.get("case").and_then(Case::from_json) {
                    corpus.push(c);
                }
            }
        }
    }
    report.count_n("corpus_cases", corpus.len() as u64);
    let n: u64 = if opts.thorough() { 3000 } else { 250 };
    let n_mt: u64 = if opts.thorough() { 120 } else { 12 };
    let mut lines: Vec<String> = vec![];
    let mut imp: Vec<String> = vec![];
    let mut ctx: Vec<J> = vec![];
    for k in 0..(corpus.len() as u64 + n + n_mt) {
        let case = if (k as usize) < corpus.len() { corpus[k as usize].clone() } else { gen_case(&mut rng, k >= corpus.len() as u64 + n) };
        report.evaluations += 1;
        report.count(if case.multi_thread { "multi_thread_cases" } else { "paused_clock_cases" });
        report.count(if case.client_sends { "client_to_listener" } else { "listener_to_client" });
        match run_case(&case) {
            Ok(obs) => {
                let multi = obs.transfers.iter().any(|t| !t.1);
                let tight = (case.client_windows.0.min(case.listener_windows.0) as usize) < case.sizes.len() || (case.auto_credit as usize) < case.sizes.len();
                if multi || tight {
                    report.nontrivial_case(fnv(&case.to_json().to_string()));
                }
                report.count_n("messages", case.sizes.len() as u64);
                report.count_n("transfer_frames", obs.transfers.len() as u64);
                if k < 3 {
                    report.sample(json!({"case": case.to_json(), "received": obs.received.len(), "frames": obs.transfers.len()}));
                }
                if let Some((key, desc)) = check(&case, &obs) {
                    report.finding(Finding { kind: "violation", key: format!("{}{}", key, if case.multi_thread { ":multi-thread" } else { "" }), description: desc, replay: json!({"property": "C01", "module": "delivery", "case": case.to_json()}) });
                }
                let (l, i) = model_lines(&case, &obs);
                for _ in 0..l.len() {
                    ctx.push(case.to_json());
                }
                lines.extend(l);
                imp.extend(i);
            }
            Err(e) => report.finding(Finding { kind: "violation", key: "scenario-failed".into(), description: e, replay: json!({"property": "C01", "module": "delivery", "case": case.to_json()}) }),
        }
    }
    if driver_available() {
        match run_driver(&lines) {
            Ok(model) => {
                report.model_used = true;
                report.model_lines = model.len() as u64;
                let mut bad = 0;
                for i in 0..model.len().min(imp.len()) {
                    if model[i] != imp[i] {
                        if bad == 0 {
                            report.finding(Finding { kind: "disagreement", key: "model-vs-implementation".into(), description: format!("{} -> frames on the wire [{}] model [{}]", lines[i], imp[i], model[i]), replay: json!({"property": "C01", "module": "delivery", "case": ctx[i], "line": lines[i], "implementation": imp[i], "model": model[i]}) });
                        }
                        bad += 1;
                    }
                }
                report.count_n("lines_disagreeing_with_model", bad);
            }
            Err(e) => report.notes.push(format!("model driver failed: {}", e)),
        }
    } else {
        report.notes.push("model driver not available: correspondence skipped".into());
    }
    report.write(&opts.report);
    println!("delivery: {} cases, {} non-trivial, {} findings", report.evaluations, report.nontrivial.len(), report.findings.len());
}
