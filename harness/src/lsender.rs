//! C08 on the listener side — a sending link accepted by a `LinkAcceptor`.
//!
//! A scripted receiving peer attaches and pipelines link flows behind its attach, so that they reach
//! the listener's session before the application accepts the link (they are buffered and replayed),
//! then grants more credit step by step.  The listener application sends a fixed number of messages
//! one after the other.  After every step the number of transfers on the wire is compared with what
//! the receiver's LATEST flow allows (never more: safety; not fewer while messages are waiting:
//! liveness) and with the Lean model of the sender's flow state (`K` lines: the flows in wire order,
//! then the sends).

use std::sync::{Arc, Mutex};
use std::time::Duration;

use fe2o3_amqp::acceptor::{ConnectionAcceptor, LinkAcceptor, LinkEndpoint, SessionAcceptor};
use fe2o3_amqp_types::definitions::{Handle, ReceiverSettleMode, Role, SenderSettleMode};
use fe2o3_amqp_types::messaging::{Accepted, DeliveryState, Source, Target};
use fe2o3_amqp_types::performatives::{Attach, Begin, Disposition, Flow, Performative};
use serde_json::{json, Value as J};

use crate::common::*;
use crate::peer::*;

#[derive(Clone, Debug)]
pub struct Fl {
    pub credit: u32,
    /// the receiver echoes the sender's delivery-count (as far as it has seen transfers) or leaves it unset
    pub echo_count: bool,
}

#[derive(Clone, Debug)]
pub struct Case {
    /// flows written straight behind the attach
    pub pre: Vec<Fl>,
    /// the application accepts the link only after this many virtual milliseconds
    pub accept_delay_ms: u64,
    pub msgs: usize,
    /// flows sent later, one per step
    pub post: Vec<Fl>,
    /// the session incoming-window the pipelined flows state (2048 = as in the begin); the later flows
    /// re-open it to 2048
    pub pre_window: u32,
}

impl Case {
    fn to_json(&self) -> J {
        let f = |v: &Vec<Fl>| v.iter().map(|f| json!([f.credit, f.echo_count])).collect::<Vec<_>>();
        json!({"pre": f(&self.pre), "accept_delay_ms": self.accept_delay_ms, "msgs": self.msgs, "post": f(&self.post), "pre_window": self.pre_window})
    }
    fn from_json(j: &J) -> Option<Case> {
        let f = |x: &J| -> Option<Vec<Fl>> { x.as_array()?.iter().map(|e| Some(Fl { credit: e.get(0)?.as_u64()? as u32, echo_count: e.get(1)?.as_bool()? })).collect() };
        Some(Case { pre: f(j.get("pre")?)?, accept_delay_ms: j.get("accept_delay_ms")?.as_u64()?, msgs: j.get("msgs")?.as_u64()? as usize, post: f(j.get("post")?)?, pre_window: j.get("pre_window").and_then(|x| x.as_u64()).unwrap_or(2048) as u32 })
    }
}

#[derive(Clone, Debug, Default)]
pub struct Observed {
    /// the listener's initial delivery-count
    pub idc: u32,
    /// per step (the pipelined flows count as step 0): the flows of the step as written (delivery-count, credit)
    pub flows: Vec<Vec<(Option<u32>, u32)>>,
    /// transfers seen in total when the step had settled
    pub transfers_after: Vec<usize>,
    pub sends_ok: usize,
    pub notes: Vec<String>,
}

fn gen_case(rng: &mut Rng) -> Case {
    let fl = |rng: &mut Rng| Fl { credit: [0u32, 0, 1, 1, 2, 3, 5][(rng.next() % 7) as usize], echo_count: rng.next() % 3 != 0 };
    let n_pre = (rng.next() % 4) as usize;
    let n_post = (rng.next() % 4) as usize;
    Case {
        pre: (0..n_pre).map(|_| Fl { echo_count: false, ..fl(rng) }).collect(),
        accept_delay_ms: [0u64, 0, 20, 50][(rng.next() % 4) as usize],
        msgs: 1 + (rng.next() % 6) as usize,
        post: (0..n_post).map(|_| fl(rng)).collect(),
        pre_window: [2048u32, 2048, 1, 2, 3][(rng.next() % 5) as usize],
    }
}

fn link_flow(handle: u32, nii: u32, noi: u32, dc: Option<u32>, credit: u32) -> Flow {
    link_flow_w(handle, nii, noi, dc, credit, 2048)
}

fn link_flow_w(handle: u32, nii: u32, noi: u32, dc: Option<u32>, credit: u32, window: u32) -> Flow {
    Flow {
        next_incoming_id: Some(nii),
        incoming_window: window,
        next_outgoing_id: noi,
        outgoing_window: 2048,
        handle: Some(Handle(handle)),
        delivery_count: dc,
        link_credit: Some(credit),
        available: None,
        drain: false,
        echo: false,
        properties: None,
    }
}

pub fn run_case(case: &Case) -> Result<Observed, String> {
    let rt = paused_runtime();
    let case = case.clone();
    rt.block_on(async move {
        let (cio, sio) = tokio::io::duplex(1 << 20);
        let notes: Arc<Mutex<Vec<String>>> = Arc::new(Mutex::new(vec![]));
        let sends_ok: Arc<Mutex<usize>> = Arc::new(Mutex::new(0));
        let n2 = notes.clone();
        let s2 = sends_ok.clone();
        let delay = case.accept_delay_ms;
        let msgs = case.msgs;
        let listener = tokio::spawn(async move {
            let acc = ConnectionAcceptor::new("listener");
            let mut conn = match acc.accept(sio).await {
                Ok(c) => c,
                Err(e) => {
                    n2.lock().unwrap().push(format!("accept: {:?}", e));
                    return;
                }
            };
            let sacc = SessionAcceptor::new();
            let mut session = match sacc.accept(&mut conn).await {
                Ok(s) => s,
                Err(e) => {
                    n2.lock().unwrap().push(format!("session accept: {:?}", e));
                    return;
                }
            };
            if delay > 0 {
                tokio::time::sleep(Duration::from_millis(delay)).await;
            }
            let lacc = LinkAcceptor::new();
            match tokio::time::timeout(Duration::from_secs(5), lacc.accept(&mut session)).await {
                Ok(Ok(LinkEndpoint::Sender(mut s))) => {
                    for i in 0..msgs {
                        match tokio::time::timeout(Duration::from_secs(60), s.send(format!("m{}", i))).await {
                            Ok(Ok(_)) => *s2.lock().unwrap() += 1,
                            Ok(Err(e)) => {
                                n2.lock().unwrap().push(format!("send {}: {:?}", i, e));
                                break;
                            }
                            Err(_) => break,
                        }
                    }
                    let _ = tokio::time::timeout(Duration::from_millis(500), s.close()).await;
                }
                Ok(Ok(LinkEndpoint::Receiver(_))) => n2.lock().unwrap().push("accepted a receiver".into()),
                Ok(Err(e)) => n2.lock().unwrap().push(format!("link accept: {:?}", e)),
                Err(_) => n2.lock().unwrap().push("link accept timed out".into()),
            }
            let _ = tokio::time::timeout(Duration::from_millis(500), session.on_end()).await;
            let _ = tokio::time::timeout(Duration::from_millis(500), conn.close()).await;
        });

        let mut obs = Observed::default();
        let mut peer = Peer::new(cio);
        peer.recv_timeout = Duration::from_millis(300);
        let e = |x: PeerError| format!("{:?}", x);
        peer.send_header().await.map_err(e)?;
        let _ = peer.recv_header().await.map_err(e)?;
        peer.send(0, Performative::Open(PeerOpen::default().to_open()), &[]).await.map_err(e)?;
        match peer.recv_frame().await.map_err(e)? {
            (_, Performative::Open(_), _) => {}
            (_, other, _) => return Err(format!("expected open, got {}", summarize(&other, 0))),
        }
        peer.send(0, Performative::Begin(Begin { remote_channel: None, next_outgoing_id: 0, incoming_window: 2048, outgoing_window: 2048, handle_max: Handle(u32::MAX), offered_capabilities: None, desired_capabilities: None, properties: None }), &[]).await.map_err(e)?;
        let their_noi = match peer.recv_frame().await.map_err(e)? {
            (_, Performative::Begin(b), _) => b.next_outgoing_id,
            (_, other, _) => return Err(format!("expected begin, got {}", summarize(&other, 0))),
        };
        // attach as a receiver and, without waiting for anything, the pipelined flows
        let a = Attach {
            name: "out0".into(),
            handle: Handle(0),
            role: Role::Receiver,
            snd_settle_mode: SenderSettleMode::Mixed,
            rcv_settle_mode: ReceiverSettleMode::First,
            source: Some(Box::new(Source::default())),
            target: Some(Box::new(Target::default().into())),
            unsettled: None,
            incomplete_unsettled: false,
            initial_delivery_count: None,
            max_message_size: None,
            offered_capabilities: None,
            desired_capabilities: None,
            properties: None,
        };
        let mut bytes = Peer::encode_frame(0, &Performative::Attach(a), &[]);
        let mut step0 = vec![];
        for f in &case.pre {
            bytes.extend(Peer::encode_frame(0, &Performative::Flow(link_flow_w(0, their_noi, 0, None, f.credit, case.pre_window)), &[]));
            step0.push((None, f.credit));
        }
        peer.send_raw(&bytes).await.map_err(e)?;
        obs.flows.push(step0);

        let mut transfers = 0usize;
        let mut attached = false;
        let mut nii = their_noi;
        let steps = 1 + case.post.len();
        for step in 0..steps {
            if step > 0 {
                let f = &case.post[step - 1];
                let dc = if f.echo_count { Some(obs.idc.wrapping_add(transfers as u32)) } else { None };
                peer.send(0, Performative::Flow(link_flow(0, nii, 0, dc, f.credit)), &[]).await.map_err(e)?;
                obs.flows.push(vec![(dc, f.credit)]);
            }
            // until nothing arrives for 300 virtual ms
            loop {
                match peer.recv_frame().await {
                    Ok((_, Performative::Attach(at), _)) => {
                        attached = true;
                        obs.idc = at.initial_delivery_count.unwrap_or(0);
                    }
                    Ok((_, Performative::Transfer(t), _)) => {
                        transfers += 1;
                        nii = nii.wrapping_add(1);
                        if t.settled != Some(true) {
                            if let Some(id) = t.delivery_id {
                                let d = Disposition { role: Role::Receiver, first: id, last: None, settled: true, state: Some(DeliveryState::Accepted(Accepted {})), batchable: false };
                                peer.send(0, Performative::Disposition(d), &[]).await.map_err(e)?;
                            }
                        }
                    }
                    Ok((_, Performative::Detach(_), _)) | Ok((_, Performative::End(_), _)) | Ok((_, Performative::Close(_), _)) => break,
                    Ok(_) => {}
                    Err(_) => break,
                }
            }
            obs.transfers_after.push(transfers);
        }
        if !attached {
            obs.notes.push("the listener never attached".into());
        }
        drop(peer);
        let _ = tokio::time::timeout(Duration::from_secs(120), listener).await;
        obs.sends_ok = *sends_ok.lock().unwrap();
        obs.notes.extend(notes.lock().unwrap().iter().cloned());
        Ok(obs)
    })
}

/// C02 on the listener side: a sending link accepted by a `LinkAcceptor` configured with the given supported
/// receiver-settle-modes, towards a scripted receiver that attaches in mode second, takes one unsettled
/// delivery and reports `accepted` without settling.  Returns the rcv-settle-mode the listener's attach
/// confirmed, the settling dispositions (role sender) the peer got back as (first, last, settled), and
/// what `send` returned.
pub fn run_settle_second(supported: fe2o3_amqp::acceptor::SupportedReceiverSettleModes) -> Result<(ReceiverSettleMode, Vec<(u32, u32, bool)>, String), String> {
    let rt = paused_runtime();
    rt.block_on(async move {
        let (cio, sio) = tokio::io::duplex(1 << 20);
        let listener = tokio::spawn(async move {
            let acc = ConnectionAcceptor::new("listener");
            let mut conn = acc.accept(sio).await.map_err(|e| format!("accept: {:?}", e))?;
            let sacc = SessionAcceptor::new();
            let mut session = sacc.accept(&mut conn).await.map_err(|e| format!("session accept: {:?}", e))?;
            let lacc = LinkAcceptor::builder().supported_receiver_settle_modes(supported).build();
            let res = match tokio::time::timeout(Duration::from_secs(5), lacc.accept(&mut session)).await {
                Ok(Ok(LinkEndpoint::Sender(mut s))) => {
                    let r = match tokio::time::timeout(Duration::from_secs(5), s.send("m0")).await {
                        Ok(Ok(o)) => format!("{:?}", o).split('(').next().unwrap_or("").to_string(),
                        Ok(Err(e)) => format!("err:{:?}", e),
                        Err(_) => "pending".to_string(),
                    };
                    // the link stays up while the peer looks for the settling disposition
                    tokio::time::sleep(Duration::from_secs(2)).await;
                    let _ = tokio::time::timeout(Duration::from_millis(500), s.close()).await;
                    r
                }
                Ok(Ok(LinkEndpoint::Receiver(_))) => "accepted a receiver".to_string(),
                Ok(Err(e)) => format!("link accept: {:?}", e),
                Err(_) => "link accept timed out".to_string(),
            };
            let _ = tokio::time::timeout(Duration::from_millis(500), session.on_end()).await;
            let _ = tokio::time::timeout(Duration::from_millis(500), conn.close()).await;
            Ok::<_, String>(res)
        });
        let mut peer = Peer::new(cio);
        peer.recv_timeout = Duration::from_millis(1500);
        let e = |x: PeerError| format!("{:?}", x);
        peer.send_header().await.map_err(e)?;
        let _ = peer.recv_header().await.map_err(e)?;
        peer.send(0, Performative::Open(PeerOpen::default().to_open()), &[]).await.map_err(e)?;
        let _ = peer.recv_frame().await.map_err(e)?;
        peer.send(0, Performative::Begin(Begin { remote_channel: None, next_outgoing_id: 0, incoming_window: 2048, outgoing_window: 2048, handle_max: Handle(u32::MAX), offered_capabilities: None, desired_capabilities: None, properties: None }), &[]).await.map_err(e)?;
        let their_noi = match peer.recv_frame().await.map_err(e)? {
            (_, Performative::Begin(b), _) => b.next_outgoing_id,
            (_, other, _) => return Err(format!("expected begin, got {}", summarize(&other, 0))),
        };
        let a = Attach {
            name: "second0".into(),
            handle: Handle(0),
            role: Role::Receiver,
            snd_settle_mode: SenderSettleMode::Unsettled,
            rcv_settle_mode: ReceiverSettleMode::Second,
            source: Some(Box::new(Source::default())),
            target: Some(Box::new(Target::default().into())),
            unsettled: None,
            incomplete_unsettled: false,
            initial_delivery_count: None,
            max_message_size: None,
            offered_capabilities: None,
            desired_capabilities: None,
            properties: None,
        };
        peer.send(0, Performative::Attach(a), &[]).await.map_err(e)?;
        let mut confirmed = ReceiverSettleMode::First;
        let mut echoes = vec![];
        let mut granted = false;
        loop {
            match peer.recv_frame().await {
                Ok((_, Performative::Attach(at), _)) => {
                    confirmed = at.rcv_settle_mode.clone();
                    if !granted {
                        granted = true;
                        peer.send(0, Performative::Flow(link_flow(0, their_noi, 0, None, 5)), &[]).await.map_err(e)?;
                    }
                }
                Ok((_, Performative::Transfer(t), _)) => {
                    if let Some(id) = t.delivery_id {
                        // mode second: the outcome is reported, the delivery stays unsettled until the sender settles it
                        let d = Disposition { role: Role::Receiver, first: id, last: None, settled: false, state: Some(DeliveryState::Accepted(Accepted {})), batchable: false };
                        peer.send(0, Performative::Disposition(d), &[]).await.map_err(e)?;
                    }
                }
                Ok((_, Performative::Disposition(d), _)) => {
                    if matches!(d.role, Role::Sender) {
                        echoes.push((d.first, d.last.unwrap_or(d.first), d.settled));
                    }
                }
                Ok((_, Performative::Detach(_), _)) | Ok((_, Performative::End(_), _)) | Ok((_, Performative::Close(_), _)) => break,
                Ok(_) => {}
                Err(_) => break,
            }
        }
        drop(peer);
        let res = tokio::time::timeout(Duration::from_secs(60), listener).await.map_err(|_| "listener did not finish".to_string())?.map_err(|e| format!("{:?}", e))??;
        Ok((confirmed, echoes, res))
    })
}

/// what the latest flow of each step allows in total, given the transfers seen before the step
fn allowed_after(case: &Case, obs: &Observed) -> Vec<usize> {
    let mut out = vec![];
    let mut seen = 0usize;
    let mut allowed = 0usize;
    for (k, flows) in obs.flows.iter().enumerate() {
        for (dc, credit) in flows {
            // delivery-count unset: the sender takes its own initial count, the credit counts from there
            let base = match dc {
                Some(d) => d.wrapping_sub(obs.idc) as usize,
                None => 0,
            };
            allowed = base + *credit as usize;
        }
        let after = obs.transfers_after.get(k).copied().unwrap_or(seen);
        out.push(allowed.max(seen).min(case.msgs.max(seen)));
        seen = after;
    }
    out
}

fn check(case: &Case, obs: &Observed) -> Option<(String, String)> {
    if obs.notes.iter().any(|n| n.contains("never attached") || n.contains("accept")) {
        return Some(("listener-sender:scenario-failed".into(), format!("{:?}", obs.notes)));
    }
    let want = allowed_after(case, obs);
    let mut seen = 0usize;
    for (k, (&got, &w)) in obs.transfers_after.iter().zip(want.iter()).enumerate() {
        // the session window the pipelined flows stated holds until a later flow re-opens it (C07): the
        // listener's session takes the session part of a flow even when its link is not accepted yet
        let window_limit = if k == 0 && !case.pre.is_empty() { case.pre_window as usize } else { usize::MAX };
        if got > window_limit {
            return Some(("listener-session:window-overrun".into(), format!("the pipelined flows stated next-incoming-id = the listener's next-outgoing-id and incoming-window {}, yet {} transfers went out before any later flow", case.pre_window, got)));
        }
        if case.pre_window < 2048 {
            // transfers the link handed over under the pipelined credit and the session held back arrive after
            // later flows: such a case is judged for the window only
            seen = got;
            continue;
        }
        // a flow that lowers the limit below what is already out takes nothing back
        let limit = w.max(seen);
        if got > limit {
            return Some(("listener-sender:more-than-latest-flow-allows".into(), format!("after step {} (flows {:?}) {} transfers are on the wire, the latest flow allows {} in total", k, obs.flows.get(k), got, limit)));
        }
        if got < limit.min(case.msgs) {
            return Some(("listener-sender:send-waits-despite-credit".into(), format!("after step {} (flows {:?}) only {} transfers are on the wire although the latest flow allows {} and {} messages are to be sent", k, obs.flows.get(k), got, limit, case.msgs)));
        }
        seen = got;
    }
    None
}

/// the model's view: flows in wire order, then as many sends as messages are left
fn model_lines(case: &Case, obs: &Observed) -> (Vec<String>, Vec<usize>) {
    let mut lines = vec![format!("K init {} {} 0", obs.idc, obs.idc)];
    let mut marks = vec![];
    for flows in &obs.flows {
        for (dc, credit) in flows {
            lines.push(format!("K flow {} {} 0 0", dc.map(|d| d as i64).unwrap_or(-1), credit));
        }
        for _ in 0..case.msgs {
            lines.push("K send".into());
        }
        marks.push(lines.len());
    }
    (lines, marks)
}

pub fn main(opts: &Opts) {
    let mut report = Report::new(
        if opts.property.is_empty() { "C08" } else { &opts.property },
        "a sending link accepted by a LinkAcceptor against a scripted receiver: 0..3 link flows pipelined behind the attach (buffered by the listener session until the application accepts the link, \
         after 0 / 20 / 50 virtual ms), then 0..3 later flows with and without the delivery-count echoed, 1..6 messages sent one after the other; after every step the transfers on the wire are compared \
         with what the latest flow allows (not more, not fewer while messages wait) and with the Lean model of the sender's flow state; non-trivial = at least two pipelined flows with different credit, \
         or a later flow that re-opens a closed link; distinct by hash of the case",
    );
    if let Some(path) = &opts.replay {
        let j: J = serde_json::from_str(&std::fs::read_to_string(path).expect("read replay")).expect("json");
        let case = Case::from_json(j.get("case").unwrap_or(&j)).expect("case");
        match run_case(&case) {
            Ok(obs) => {
                println!("{:?}", obs);
                let v = check(&case, &obs);
                println!("REPLAY: property {} on this scenario {:?}", if v.is_none() { "holds" } else { "violated" }, v);
                std::process::exit(if v.is_none() { 0 } else { 1 });
            }
            Err(e) => {
                println!("REPLAY: scenario failed: {}", e);
                std::process::exit(1);
            }
        }
    }
    let mut rng = Rng::new(opts.seed ^ 0x15e7d);
    let n = if opts.thorough() { 600 } else { 80 };
    let mut cases: Vec<Case> = vec![
        Case { pre: vec![Fl { credit: 5, echo_count: false }, Fl { credit: 0, echo_count: false }], accept_delay_ms: 50, msgs: 3, post: vec![Fl { credit: 2, echo_count: true }], pre_window: 2048 },
        Case { pre: vec![Fl { credit: 0, echo_count: false }, Fl { credit: 3, echo_count: false }], accept_delay_ms: 50, msgs: 3, post: vec![], pre_window: 2048 },
        Case { pre: vec![Fl { credit: 5, echo_count: false }], accept_delay_ms: 50, msgs: 4, post: vec![Fl { credit: 5, echo_count: true }], pre_window: 2 },
        Case { pre: vec![Fl { credit: 1, echo_count: false }, Fl { credit: 2, echo_count: false }, Fl { credit: 1, echo_count: false }], accept_delay_ms: 20, msgs: 4, post: vec![Fl { credit: 0, echo_count: true }, Fl { credit: 3, echo_count: true }], pre_window: 2048 },
    ];
    for _ in 0..n {
        cases.push(gen_case(&mut rng));
    }
    let mut all_lines: Vec<String> = vec![];
    let mut per_case: Vec<(usize, Vec<usize>, Vec<usize>)> = vec![];
    for case in &cases {
        report.evaluations += 1;
        report.count(&format!("pipelined_flows_{}", case.pre.len()));
        let distinct_pre = case.pre.windows(2).any(|w| w[0].credit != w[1].credit);
        if (distinct_pre && case.accept_delay_ms > 0) || case.post.windows(2).any(|w| w[0].credit == 0 && w[1].credit > 0) {
            report.nontrivial_case(fnv(&case.to_json().to_string()));
        }
        match run_case(case) {
            Ok(obs) => {
                let view = |key: &str| -> bool {
                    match opts.property.as_str() {
                        "C07" => key.starts_with("listener-session:") || key.ends_with("scenario-failed"),
                        "C08" => !key.starts_with("listener-session:"),
                        _ => true,
                    }
                };
                if let Some((key, description)) = check(case, &obs).filter(|(k, _)| view(k)) {
                    report.finding(Finding { kind: "violation", key, description, replay: json!({"property": "C08", "module": "lsender", "case": case.to_json(), "observed": format!("{:?}", obs)}) });
                }
                let (lines, marks) = model_lines(case, &obs);
                per_case.push((all_lines.len(), marks, obs.transfers_after.clone()));
                all_lines.extend(lines);
            }
            Err(e) => {
                report.count("scenario_errors");
                report.finding(Finding { kind: "violation", key: "listener-sender:scenario-failed".into(), description: e, replay: json!({"property": "C08", "module": "lsender", "case": case.to_json()}) });
                per_case.push((all_lines.len(), vec![], vec![]));
            }
        }
    }
    if driver_available() {
        match run_driver(&all_lines) {
            Ok(model) => {
                report.model_used = true;
                report.model_lines = model.len() as u64;
                let mut bad = 0;
                for (ci, (start, marks, got)) in per_case.iter().enumerate() {
                    // transfers the model lets out up to each mark = number of "S" outputs so far
                    let mut prev = 0usize;
                    if cases[ci].pre_window < 2048 {
                        continue;
                    }
                    for (k, &m) in marks.iter().enumerate() {
                        let sent = model[*start..*start + m].iter().filter(|l| l.starts_with("S ")).count();
                        let sent = sent.min(cases[ci].msgs);
                        let _ = prev;
                        prev = sent;
                        if got.get(k).copied() != Some(sent) {
                            bad += 1;
                            report.finding(Finding { kind: "disagreement", key: "model-vs-implementation:listener-sender".into(), description: format!("case {}: after step {} the model has sent {} transfers, the implementation {:?}", ci, k, sent, got.get(k)), replay: json!({"property": "C08", "module": "lsender", "case": cases[ci].to_json(), "model": model[*start..*start + m].to_vec()}) });
                            break;
                        }
                    }
                }
                report.count_n("cases_disagreeing_with_model", bad);
            }
            Err(e) => report.notes.push(format!("model driver failed: {}", e)),
        }
    }
    else {
        report.notes.push("model driver not available: correspondence skipped".into());
    }
    report.write(&opts.report);
    println!("lsender: {} cases, {} non-trivial, {} findings", report.evaluations, report.nontrivial.len(), report.findings.len());
}
