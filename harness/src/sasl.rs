//! C19 — SASL: no connection without successful authentication; SCRAM is mutual.
//!
//! Four kinds of runs, all compared with the Lean model (`Amqp/Sasl.lean`, driver prefix `X`)
//! and judged by an oracle written from RFC 4616 / RFC 5802 and the property alone:
//!
//!  * `plain`    — `SaslPlainMechanism::on_init` on structured and random responses;
//!  * `scramsrv` — `ScramAuthenticator::{on_init,on_response}` driven through honest, tampered,
//!                 replayed and out-of-order exchanges by the harness' own SCRAM implementation;
//!  * `listener` — a real `ConnectionAcceptor` (PLAIN / SCRAM) against scripted clients writing
//!                 arbitrary header / frame sequences on an in-memory transport;
//!  * `client`   — a real `Connection::builder().sasl_profile(..)` against scripted servers
//!                 (tampered nonce, salt, iteration count, signature, outcome codes, extra
//!                 challenges, wrong header).

use std::cell::RefCell;
use std::time::Duration;

use base64::Engine;
use fe2o3_amqp::acceptor::sasl_acceptor::SaslServerFrame;
use fe2o3_amqp::acceptor::scram::SingleScramCredential;
use fe2o3_amqp::acceptor::{ConnectionAcceptor, SaslAcceptor, SaslPlainMechanism};
use fe2o3_amqp::auth::scram::{ScramAuthenticator, ScramVersion};
use fe2o3_amqp::connection::Connection;
use fe2o3_amqp::sasl_profile::{SaslProfile, SaslScramSha1, SaslScramSha256, SaslScramSha512};
use fe2o3_amqp_types::primitives::{Array, Binary, Symbol};
use fe2o3_amqp_types::sasl::{SaslChallenge, SaslCode, SaslInit, SaslMechanisms, SaslOutcome, SaslResponse};
use hmac::{Hmac, KeyInit, Mac};
use serde_json::{json, Value as J};
use sha1::Sha1;
use sha2::{Digest, Sha256, Sha512};

use crate::common::*;
use crate::peer::*;

// ------------------------------------------------------------------------------- reference SCRAM

#[derive(Clone, Copy, Debug, PartialEq)]
pub enum Ver {
    S1,
    S256,
    S512,
}

impl Ver {
    pub fn mech(&self) -> &'static str {
        match self {
            Ver::S1 => "SCRAM-SHA-1",
            Ver::S256 => "SCRAM-SHA-256",
            Ver::S512 => "SCRAM-SHA-512",
        }
    }
    fn version(&self) -> ScramVersion {
        match self {
            Ver::S1 => ScramVersion::Sha1,
            Ver::S256 => ScramVersion::Sha256,
            Ver::S512 => ScramVersion::Sha512,
        }
    }
    fn len(&self) -> usize {
        match self {
            Ver::S1 => 20,
            Ver::S256 => 32,
            Ver::S512 => 64,
        }
    }
}

/// the three primitives, with every call recorded for the model's table
pub struct Crypto {
    pub ver: Ver,
    pub table: RefCell<Vec<String>>,
}

impl Crypto {
    pub fn new(ver: Ver) -> Self {
        Crypto { ver, table: RefCell::new(vec![]) }
    }
    pub fn hmac(&self, key: &[u8], msg: &[u8]) -> Vec<u8> {
        let out: Vec<u8> = match self.ver {
            Ver::S1 => {
                let mut m = Hmac::<Sha1>::new_from_slice(key).expect("hmac key");
                m.update(msg);
                m.finalize().into_bytes().to_vec()
            }
            Ver::S256 => {
                let mut m = Hmac::<Sha256>::new_from_slice(key).expect("hmac key");
                m.update(msg);
                m.finalize().into_bytes().to_vec()
            }
            Ver::S512 => {
                let mut m = Hmac::<Sha512>::new_from_slice(key).expect("hmac key");
                m.update(msg);
                m.finalize().into_bytes().to_vec()
            }
        };
        self.table.borrow_mut().push(format!("m:{}:{}:{}", hexo(key), hexo(msg), hexo(&out)));
        out
    }
    pub fn h(&self, msg: &[u8]) -> Vec<u8> {
        let out: Vec<u8> = match self.ver {
            Ver::S1 => Sha1::digest(msg).to_vec(),
            Ver::S256 => Sha256::digest(msg).to_vec(),
            Ver::S512 => Sha512::digest(msg).to_vec(),
        };
        self.table.borrow_mut().push(format!("h:{}:{}", hexo(msg), hexo(&out)));
        out
    }
    /// Hi(): PBKDF2-HMAC; passwords in these runs are ASCII, for which SASLprep is the identity
    pub fn hi(&self, password: &[u8], salt: &[u8], iters: u32) -> Option<Vec<u8>> {
        let mut out = vec![0u8; self.ver.len()];
        let r = {
            // (the PBKDF2 primitive is a parameter of the model: its answer for 0 rounds is recorded, not judged)
            let ok = match self.ver {
                Ver::S1 => pbkdf2::pbkdf2::<Hmac<Sha1>>(password, salt, iters, &mut out).is_ok(),
                Ver::S256 => pbkdf2::pbkdf2::<Hmac<Sha256>>(password, salt, iters, &mut out).is_ok(),
                Ver::S512 => pbkdf2::pbkdf2::<Hmac<Sha512>>(password, salt, iters, &mut out).is_ok(),
            };
            if ok {
                Some(out)
            } else {
                None
            }
        };
        self.table.borrow_mut().push(format!("p:{}:{}:{}:{}", hexo(password), hexo(salt), iters, r.as_ref().map(|o| hexo(o)).unwrap_or_else(|| "-".into())));
        r
    }
    pub fn table_words(&self) -> String {
        let t = self.table.borrow();
        if t.is_empty() {
            "-".into()
        } else {
            t.join(" ")
        }
    }
}

/// hex, with `-` never produced (empty = `.`)
pub fn hexo(b: &[u8]) -> String {
    if b.is_empty() {
        ".".into()
    } else {
        hex(b)
    }
}

fn b64(b: &[u8]) -> String {
    base64::engine::general_purpose::STANDARD.encode(b)
}

fn xor(a: &[u8], b: &[u8]) -> Vec<u8> {
    a.iter().zip(b.iter()).map(|(x, y)| x ^ y).collect()
}

/// what the server keeps for a user
#[derive(Clone, Debug)]
pub struct Stored {
    pub salt: Vec<u8>,
    pub iters: u32,
    pub stored_key: Vec<u8>,
    pub server_key: Vec<u8>,
}

pub fn stored_for(c: &Crypto, password: &[u8], salt: &[u8], iters: u32) -> Option<Stored> {
    let salted = c.hi(password, salt, iters)?;
    let client_key = c.hmac(&salted, b"Client Key");
    let stored_key = c.h(&client_key);
    let server_key = c.hmac(&salted, b"Server Key");
    Some(Stored { salt: salt.to_vec(), iters, stored_key, server_key })
}

/// RFC 5802 client: the final message and the server signature it expects, from the messages as received
pub fn ref_client_final(c: &Crypto, password: &[u8], client_first_bare: &[u8], server_first: &[u8], nonce: &[u8], salt: &[u8], iters: u32) -> Option<(Vec<u8>, Vec<u8>)> {
    let salted = c.hi(password, salt, iters)?;
    let mut without_proof = b"c=biws,r=".to_vec();
    without_proof.extend_from_slice(nonce);
    let mut auth = client_first_bare.to_vec();
    auth.push(b',');
    auth.extend_from_slice(server_first);
    auth.push(b',');
    auth.extend_from_slice(&without_proof);
    let client_key = c.hmac(&salted, b"Client Key");
    let stored_key = c.h(&client_key);
    let client_sig = c.hmac(&stored_key, &auth);
    let proof = xor(&client_key, &client_sig);
    let server_key = c.hmac(&salted, b"Server Key");
    let server_sig = c.hmac(&server_key, &auth);
    let mut fin = without_proof.clone();
    fin.extend_from_slice(b",p=");
    fin.extend_from_slice(b64(&proof).as_bytes());
    Some((fin, server_sig))
}

/// parse `r=..,s=..,i=..` leniently (the scripted client reads what the real server sent)
pub fn parse_server_first(sf: &[u8]) -> Option<(Vec<u8>, Vec<u8>, u32)> {
    let s = std::str::from_utf8(sf).ok()?;
    let mut nonce = None;
    let mut salt = None;
    let mut iters = None;
    for part in s.split(',') {
        if let Some(v) = part.strip_prefix("r=") {
            nonce = Some(v.as_bytes().to_vec());
        } else if let Some(v) = part.strip_prefix("s=") {
            salt = base64::engine::general_purpose::STANDARD.decode(v).ok();
        } else if let Some(v) = part.strip_prefix("i=") {
            iters = v.parse::<u32>().ok();
        }
    }
    Some((nonce?, salt?, iters?))
}

fn code_name(c: &SaslCode) -> &'static str {
    match c {
        SaslCode::Ok => "ok",
        SaslCode::Auth => "auth",
        SaslCode::Sys => "sys",
        SaslCode::SysPerm => "sysPerm",
        SaslCode::SysTemp => "sysTemp",
    }
}

fn show_server_frame(f: &SaslServerFrame) -> String {
    match f {
        SaslServerFrame::Challenge(c) => format!("c:{}", hexo(&c.challenge)),
        SaslServerFrame::Outcome(o) => format!("o:{}:{}", code_name(&o.code), o.additional_data.as_ref().map(|d| hexo(d)).unwrap_or_else(|| "-".into())),
    }
}

// ------------------------------------------------------------------------------- plain

const USER: &[u8] = b"guest";
const PASS: &[u8] = b"s3cret";

fn variant_of(rng: &mut Rng, base: &[u8]) -> Vec<u8> {
    match rng.below(9) {
        0 | 1 | 2 => base.to_vec(),
        3 => base[..base.len().saturating_sub(1)].to_vec(), // prefix
        4 => {
            let mut v = base.to_vec();
            v.push(*rng.pick(&[b'x', b' ', 0u8]));
            v
        }
        5 => {
            let mut v = base.to_vec();
            if !v.is_empty() {
                let i = rng.below(v.len() as u64) as usize;
                v[i] ^= 1 << rng.below(8);
            }
            v
        }
        6 => vec![],
        7 => base.iter().map(|b| b.to_ascii_uppercase()).collect(),
        _ => (0..rng.below(8)).map(|_| rng.below(256) as u8).collect(),
    }
}

pub fn gen_plain_response(rng: &mut Rng) -> Option<Vec<u8>> {
    if rng.chance(1, 20) {
        return None;
    }
    if rng.chance(1, 8) {
        return Some((0..rng.below(20)).map(|_| *rng.pick(&[0u8, 0, b'g', b'u', b's', 1, 255])).collect());
    }
    let authzid: Vec<u8> = match rng.below(4) {
        0 | 1 => vec![],
        2 => b"admin".to_vec(),
        _ => USER.to_vec(),
    };
    let mut v = authzid;
    let nfields = *rng.pick(&[2usize, 2, 2, 2, 1, 3, 4]);
    let fields: Vec<Vec<u8>> = (0..nfields)
        .map(|i| match i {
            0 => variant_of(rng, USER),
            1 => variant_of(rng, PASS),
            _ => variant_of(rng, b"junk"),
        })
        .collect();
    for f in fields {
        v.push(0);
        v.extend_from_slice(&f);
    }
    Some(v)
}

/// RFC 4616: message = [authzid] NUL authcid NUL passwd, none of them containing NUL
pub fn plain_oracle(resp: &Option<Vec<u8>>) -> bool {
    let r = match resp {
        Some(r) => r,
        None => return false,
    };
    let fields: Vec<&[u8]> = r.split(|b| *b == 0).collect();
    fields.len() == 3 && fields[1] == USER && fields[2] == PASS
}

fn run_plain(rng: &mut Rng, report: &mut Report, lines: &mut Vec<String>, imp: &mut Vec<String>, n: u64) {
    for _ in 0..n {
        let resp = gen_plain_response(rng);
        let mech = *rng.pick(&["PLAIN", "PLAIN", "PLAIN", "ANONYMOUS", "plain", "SCRAM-SHA-256", ""]);
        let mut acc = SaslPlainMechanism::new(String::from_utf8_lossy(USER).to_string(), String::from_utf8_lossy(PASS).to_string());
        let init = SaslInit { mechanism: Symbol::from(mech), initial_response: resp.clone().map(Binary::from), hostname: None };
        let out = acc.on_init(init);
        let shown = show_server_frame(&out);
        report.evaluations += 1;
        report.count(if shown.starts_with("o:ok") { "plain_ok" } else { "plain_refused" });
        if resp.as_ref().map(|r| r.iter().filter(|b| **b == 0).count() >= 2).unwrap_or(false) {
            report.nontrivial_case(fnv(&format!("{:?}", resp)));
        }
        let accepted = shown.starts_with("o:ok");
        if accepted && !plain_oracle(&resp) {
            report.finding(Finding { kind: "violation", key: "plain:accepted-without-valid-credentials".into(), description: format!("PLAIN response {} (mechanism {:?}) was answered with outcome ok; the configured credentials are guest / s3cret", resp.as_ref().map(|r| hexo(r)).unwrap_or("-".into()), mech), replay: json!({"property": "C19", "module": "sasl", "plain": {"response": resp.as_ref().map(|r| hex(r)), "mechanism": mech}}) });
        }
        if !accepted && plain_oracle(&resp) {
            report.finding(Finding { kind: "violation", key: "plain:valid-credentials-refused".into(), description: format!("PLAIN response {} was refused ({})", resp.as_ref().map(|r| hexo(r)).unwrap_or("-".into()), shown), replay: json!({"property": "C19", "module": "sasl", "plain": {"response": resp.as_ref().map(|r| hex(r)), "mechanism": mech}}) });
        }
        lines.push(format!("X plain {} {} {}", hexo(USER), hexo(PASS), resp.as_ref().map(|r| hexo(r)).unwrap_or("-".into())));
        imp.push(match &out {
            SaslServerFrame::Outcome(o) => code_name(&o.code).to_string(),
            _ => "challenge".into(),
        });
        // a response frame is never part of PLAIN
        if rng.chance(1, 10) {
            let out = acc.on_response(SaslResponse { response: Binary::from(resp.clone().unwrap_or_default()) });
            if show_server_frame(&out).starts_with("o:ok") {
                report.finding(Finding { kind: "violation", key: "plain:response-frame-accepted".into(), description: "a sasl-response was answered with outcome ok by the PLAIN acceptor".into(), replay: json!({"property": "C19", "module": "sasl", "plain_response": true}) });
            }
        }
    }
}

// ------------------------------------------------------------------------------- scram server, direct

#[derive(Clone, Debug)]
pub enum SrvStep {
    /// init with this mechanism and this kind of client-first
    Init { mech: String, first: FirstKind },
    /// response built from the last challenge seen
    Resp(FinalKind),
}

#[derive(Clone, Debug, PartialEq)]
pub enum FirstKind {
    Honest,
    None,
    UnknownUser,
    BadGs2(String),
    NoUser,
    NoNonce,
    InvalidUtf8,
    ExtraAttr,
    Swapped,
}

#[derive(Clone, Debug, PartialEq)]
pub enum FinalKind {
    Honest,
    WrongPassword,
    ProofBitFlip,
    NonceReplaced,
    NonceTruncated,
    /// a final recorded in an earlier exchange of the same scenario
    Replayed,
    ChannelBinding(String),
    NoProof,
    ProofShort,
    ProofNotBase64,
    ExtAttrBeforeProof,
    InvalidUtf8,
    Empty,
    /// the proof the server itself would compute is not known to the client: send the client signature instead
    SignatureAsProof,
}

fn step_to_json(s: &SrvStep) -> J {
    match s {
        SrvStep::Init { mech, first } => json!({"init": mech, "first": format!("{:?}", first)}),
        SrvStep::Resp(k) => json!({"resp": format!("{:?}", k)}),
    }
}

pub fn gen_srv_scenario(rng: &mut Rng, ver: Ver) -> Vec<SrvStep> {
    let mut v = vec![];
    if rng.chance(1, 2) {
        // the regular exchange with one kind of final or another, possibly followed by a second attempt
        let k = gen_final_kind(rng);
        v.push(SrvStep::Init { mech: ver.mech().to_string(), first: if rng.chance(1, 6) { FirstKind::ExtraAttr } else { FirstKind::Honest } });
        v.push(SrvStep::Resp(k));
        if rng.chance(1, 3) {
            v.push(SrvStep::Resp(gen_final_kind(rng)));
        }
        if rng.chance(1, 3) {
            v.push(SrvStep::Init { mech: ver.mech().to_string(), first: FirstKind::Honest });
            v.push(SrvStep::Resp(if rng.chance(1, 2) { FinalKind::Replayed } else { gen_final_kind(rng) }));
        }
        return v;
    }
    let n = rng.range(1, 5);
    for _ in 0..n {
        if rng.chance(1, 2) {
            let mech = match rng.below(8) {
                0 => *rng.pick(&["SCRAM-SHA-1", "SCRAM-SHA-256", "SCRAM-SHA-512", "PLAIN", "ANONYMOUS", "scram-sha-256"]),
                _ => ver.mech(),
            };
            let first = match rng.below(14) {
                0 => FirstKind::None,
                1 => FirstKind::UnknownUser,
                2 => FirstKind::BadGs2(rng.pick(&["y,,", "p=tls-unique,,", "n,a=admin,", "", "n,"]).to_string()),
                3 => FirstKind::NoUser,
                4 => FirstKind::NoNonce,
                5 => FirstKind::InvalidUtf8,
                6 => FirstKind::ExtraAttr,
                7 => FirstKind::Swapped,
                _ => FirstKind::Honest,
            };
            v.push(SrvStep::Init { mech: mech.to_string(), first });
        } else {
            let k = gen_final_kind(rng);
            v.push(SrvStep::Resp(k));
        }
    }
    v
}

fn gen_final_kind(rng: &mut Rng) -> FinalKind {
    {
        {
            let k = match rng.below(20) {
                0 => FinalKind::WrongPassword,
                1 => FinalKind::ProofBitFlip,
                2 => FinalKind::NonceReplaced,
                3 => FinalKind::NonceTruncated,
                4 => FinalKind::Replayed,
                5 => FinalKind::ChannelBinding(rng.pick(&["eSws", "", "biw=", "biws=", "!!!!"]).to_string()),
                6 => FinalKind::NoProof,
                7 => FinalKind::ProofShort,
                8 => FinalKind::ProofNotBase64,
                9 => FinalKind::ExtAttrBeforeProof,
                10 => FinalKind::InvalidUtf8,
                11 => FinalKind::Empty,
                12 => FinalKind::SignatureAsProof,
                _ => FinalKind::Honest,
            };
            k
        }
    }
}

struct Exchange {
    client_nonce: Vec<u8>,
    bare: Vec<u8>,
    server_first: Vec<u8>,
}

/// runs a scenario against a fresh authenticator; returns (events for the model, implementation's answers, oracle verdict per step)
pub fn run_srv_scenario(ver: Ver, steps: &[SrvStep], seed: u64) -> (String, Vec<String>, Vec<(bool, bool)>) {
    let cr = Crypto::new(ver);
    let cred = SingleScramCredential::new(String::from_utf8_lossy(USER).to_string(), String::from_utf8_lossy(PASS).to_string(), ver.version()).expect("credential");
    let mut auth = ScramAuthenticator::new(std::sync::Arc::new(cred));
    let mut rng = Rng::new(seed);
    let mut ex: Option<Exchange> = None;
    let mut recorded_final: Option<Vec<u8>> = None;
    let mut events: Vec<String> = vec![];
    let mut answers: Vec<String> = vec![];
    let mut verdicts: Vec<(bool, bool)> = vec![]; // (implementation said ok, oracle allows ok)
    let mut stored: Option<Stored> = None;
    for st in steps {
        match st {
            SrvStep::Init { mech, first } => {
                let cn: Vec<u8> = b64(&(0..18).map(|_| rng.below(256) as u8).collect::<Vec<u8>>()).into_bytes();
                let (msg, bare): (Option<Vec<u8>>, Vec<u8>) = match first {
                    FirstKind::None => (None, vec![]),
                    FirstKind::Honest => {
                        let bare = [b"n=".as_ref(), USER, b",r=", &cn].concat();
                        (Some([b"n,,".as_ref(), &bare].concat()), bare)
                    }
                    FirstKind::UnknownUser => {
                        let bare = [b"n=".as_ref(), b"mallory", b",r=", &cn].concat();
                        (Some([b"n,,".as_ref(), &bare].concat()), bare)
                    }
                    FirstKind::BadGs2(g) => {
                        let bare = [b"n=".as_ref(), USER, b",r=", &cn].concat();
                        (Some([g.as_bytes(), &bare].concat()), bare)
                    }
                    FirstKind::NoUser => {
                        let bare = [b"r=".as_ref(), &cn].concat();
                        (Some([b"n,,".as_ref(), &bare].concat()), bare)
                    }
                    FirstKind::NoNonce => {
                        let bare = [b"n=".as_ref(), USER].concat();
                        (Some([b"n,,".as_ref(), &bare].concat()), bare)
                    }
                    FirstKind::InvalidUtf8 => {
                        let bare = [b"n=".as_ref(), USER, b",r=", &cn, &[0xff, 0xfe]].concat();
                        (Some([b"n,,".as_ref(), &bare].concat()), bare)
                    }
                    FirstKind::ExtraAttr => {
                        let bare = [b"n=".as_ref(), USER, b",r=", &cn, b",x=ext"].concat();
                        (Some([b"n,,".as_ref(), &bare].concat()), bare)
                    }
                    FirstKind::Swapped => {
                        let bare = [b"r=".as_ref(), &cn, b",n=", USER].concat();
                        (Some([b"n,,".as_ref(), &bare].concat()), bare)
                    }
                };
                let out = auth.on_init(SaslInit { mechanism: Symbol::from(mech.as_str()), initial_response: msg.clone().map(Binary::from), hostname: None });
                let mut server_nonce: Vec<u8> = vec![];
                if let SaslServerFrame::Challenge(c) = &out {
                    if let Some((nonce, salt, iters)) = parse_server_first(&c.challenge) {
                        // the client-first's nonce is whatever followed `r=` up to the next comma
                        let sent_nonce: Vec<u8> = match first {
                            FirstKind::ExtraAttr | FirstKind::Honest | FirstKind::UnknownUser | FirstKind::BadGs2(_) => cn.clone(),
                            _ => cn.clone(),
                        };
                        if nonce.starts_with(&sent_nonce) {
                            server_nonce = nonce[sent_nonce.len()..].to_vec();
                        }
                        if stored.is_none() {
                            stored = stored_for(&cr, PASS, &salt, iters);
                        }
                        ex = Some(Exchange { client_nonce: nonce.clone(), bare: bare.clone(), server_first: c.challenge.to_vec() });
                    }
                }
                events.push(format!("i:{}:{}:{}", hexo(mech.as_bytes()), msg.as_ref().map(|m| hexo(m)).unwrap_or("-".into()), hexo(&server_nonce)));
                answers.push(show_server_frame(&out));
                // an init never authenticates
                verdicts.push((show_server_frame(&out).starts_with("o:ok"), false));
            }
            SrvStep::Resp(kind) => {
                // build the final from the last exchange (or from nothing)
                let (fin, honest): (Vec<u8>, bool) = match (&ex, kind) {
                    (_, FinalKind::Empty) => (vec![], false),
                    (None, _) => (b"c=biws,r=abc,p=AAAA".to_vec(), false),
                    (Some(e), k) => {
                        let (nonce, salt, iters) = parse_server_first(&e.server_first).unwrap_or((vec![], vec![], 1));
                        let pw: &[u8] = if *k == FinalKind::WrongPassword { b"s3cres" } else { PASS };
                        let (good, _sig) = ref_client_final(&cr, pw, &e.bare, &e.server_first, &nonce, &salt, iters).unwrap_or((vec![], vec![]));
                        let _ = &e.client_nonce;
                        let good_s = String::from_utf8_lossy(&good).to_string();
                        let (wo, proof) = good_s.rsplit_once(",p=").map(|(a, b)| (a.to_string(), b.to_string())).unwrap_or_default();
                        match k {
                            FinalKind::Honest => (good.clone(), true),
                            FinalKind::WrongPassword => (good.clone(), false),
                            FinalKind::ProofBitFlip => {
                                let mut p = base64::engine::general_purpose::STANDARD.decode(&proof).unwrap_or_default();
                                if !p.is_empty() {
                                    let i = rng.below(p.len() as u64) as usize;
                                    p[i] ^= 1 << rng.below(8);
                                }
                                (format!("{},p={}", wo, b64(&p)).into_bytes(), false)
                            }
                            FinalKind::NonceReplaced => (format!("c=biws,r={},p={}", "bm90LXRoZS1ub25jZQ==", proof).into_bytes(), false),
                            FinalKind::NonceTruncated => {
                                let n = String::from_utf8_lossy(&nonce).to_string();
                                (format!("c=biws,r={},p={}", &n[..n.len().saturating_sub(1)], proof).into_bytes(), false)
                            }
                            FinalKind::Replayed => match &recorded_final {
                                Some(f) => (f.clone(), *f == good),
                                None => (good.clone(), true),
                            },
                            FinalKind::ChannelBinding(cb) => {
                                // the proof is recomputed over the changed message, as an attacker who knows the password could
                                let mut wo2 = format!("c={},r=", cb).into_bytes();
                                wo2.extend_from_slice(&nonce);
                                let salted = cr.hi(PASS, &salt, iters).unwrap_or_default();
                                let auth_msg = [e.bare.as_slice(), b",", e.server_first.as_slice(), b",", wo2.as_slice()].concat();
                                let ck = cr.hmac(&salted, b"Client Key");
                                let sk = cr.h(&ck);
                                let sig = cr.hmac(&sk, &auth_msg);
                                let p = xor(&ck, &sig);
                                // also tell the table what the server side would compute
                                if let Some(s) = &stored {
                                    let _ = cr.hmac(&s.server_key, &auth_msg);
                                }
                                ([wo2.as_slice(), b",p=", b64(&p).as_bytes()].concat(), false)
                            }
                            FinalKind::NoProof => (wo.clone().into_bytes(), false),
                            FinalKind::ProofShort => {
                                let p = base64::engine::general_purpose::STANDARD.decode(&proof).unwrap_or_default();
                                (format!("{},p={}", wo, b64(&p[..p.len().saturating_sub(1)])).into_bytes(), false)
                            }
                            FinalKind::ProofNotBase64 => (format!("{},p=!!{}", wo, proof).into_bytes(), false),
                            FinalKind::ExtAttrBeforeProof => {
                                // an extension between nonce and proof is part of the message the proof covers
                                let mut wo2 = wo.clone().into_bytes();
                                wo2.extend_from_slice(b",x=ext");
                                let salted = cr.hi(PASS, &salt, iters).unwrap_or_default();
                                let auth_msg = [e.bare.as_slice(), b",", e.server_first.as_slice(), b",", wo2.as_slice()].concat();
                                let ck = cr.hmac(&salted, b"Client Key");
                                let sk = cr.h(&ck);
                                let sig = cr.hmac(&sk, &auth_msg);
                                let p = xor(&ck, &sig);
                                if let Some(s) = &stored {
                                    let _ = cr.hmac(&s.server_key, &auth_msg);
                                }
                                ([wo2.as_slice(), b",p=", b64(&p).as_bytes()].concat(), true)
                            }
                            FinalKind::InvalidUtf8 => ([good.as_slice(), &[0xc3, 0x28]].concat(), false),
                            FinalKind::SignatureAsProof => {
                                let salted = cr.hi(PASS, &salt, iters).unwrap_or_default();
                                let auth_msg = [e.bare.as_slice(), b",", e.server_first.as_slice(), b",", wo.as_bytes()].concat();
                                let ck = cr.hmac(&salted, b"Client Key");
                                let sk = cr.h(&ck);
                                let sig = cr.hmac(&sk, &auth_msg);
                                (format!("{},p={}", wo, b64(&sig)).into_bytes(), false)
                            }
                            FinalKind::Empty => (vec![], false),
                        }
                    }
                };
                // what the server will compute for this message (for the model's table): its own view of the auth message
                if let (Some(e), Some(s)) = (&ex, &stored) {
                    if let Ok(fs) = std::str::from_utf8(&fin) {
                        if let Some((wo, p)) = fs.rsplit_once(",p=") {
                            let auth_msg = [e.bare.as_slice(), b",", e.server_first.as_slice(), b",", wo.as_bytes()].concat();
                            let sig = cr.hmac(&s.stored_key, &auth_msg);
                            let _ = cr.hmac(&s.server_key, &auth_msg);
                            if let Ok(pb) = base64::engine::general_purpose::STANDARD.decode(p) {
                                if pb.len() == sig.len() {
                                    let _ = cr.h(&xor(&pb, &sig));
                                }
                            }
                        }
                    }
                }
                let out = auth.on_response(SaslResponse { response: Binary::from(fin.clone()) });
                let ok = show_server_frame(&out).starts_with("o:ok");
                if ok && *kind == FinalKind::Honest {
                    recorded_final = Some(fin.clone());
                }
                // after an exchange has ended (either way) the same challenge must not be usable again
                let allowed = honest && ex.is_some();
                events.push(format!("r:{}", hexo(&fin)));
                answers.push(show_server_frame(&out));
                verdicts.push((ok, allowed));
                if ok {
                    ex = None;
                }
            }
        }
    }
    let st = stored.clone().unwrap_or(Stored { salt: vec![], iters: 0, stored_key: vec![], server_key: vec![] });
    let line = format!("X scramsrv {} {} {} {} {} {} T {} E {}", hexo(ver.mech().as_bytes()), hexo(USER), hexo(&st.salt), st.iters, hexo(&st.stored_key), hexo(&st.server_key), cr.table_words(), events.join(" "));
    (line, answers, verdicts)
}

/// a credential store whose account can be taken away in the middle of an exchange
struct Revocable {
    inner: SingleScramCredential,
    revoked: std::sync::atomic::AtomicBool,
}

impl fe2o3_amqp::auth::scram::ScramCredentialProvider for Revocable {
    fn scram_version(&self) -> &ScramVersion {
        self.inner.scram_version()
    }
    fn get_stored_password<'a>(&'a self, username: &str) -> Option<fe2o3_amqp::auth::scram::StoredPassword<'a>> {
        if self.revoked.load(std::sync::atomic::Ordering::SeqCst) {
            None
        } else {
            self.inner.get_stored_password(username)
        }
    }
}

/// the account disappears between the server-first and the client-final message: whatever the client
/// then sends — the honest proof or arbitrary bytes — the outcome is not `ok`
fn run_revoked(report: &mut Report) {
    for ver in [Ver::S1, Ver::S256, Ver::S512] {
        for honest in [true, false] {
            report.evaluations += 1;
            report.count("scram_server_account_revoked_mid_exchange");
            report.nontrivial_case(fnv(&format!("revoked-{:?}-{}", ver, honest)));
            let cr = Crypto::new(ver);
            let cred = SingleScramCredential::new(String::from_utf8_lossy(USER).to_string(), String::from_utf8_lossy(PASS).to_string(), ver.version()).expect("credential");
            let store = std::sync::Arc::new(Revocable { inner: cred, revoked: std::sync::atomic::AtomicBool::new(false) });
            let mut auth = ScramAuthenticator::new(store.clone());
            let cn: Vec<u8> = b"rOprNGfwEbeRWgbNEkqO".to_vec();
            let bare = [b"n=".as_ref(), USER, b",r=", &cn].concat();
            let first = [b"n,,".as_ref(), &bare].concat();
            let out = auth.on_init(SaslInit { mechanism: Symbol::from(ver.mech()), initial_response: Some(Binary::from(first)), hostname: None });
            let challenge = match &out {
                SaslServerFrame::Challenge(c) => c.challenge.to_vec(),
                other => {
                    report.finding(Finding { kind: "violation", key: "scram-server:honest-exchange-refused".into(), description: format!("{:?}: the honest client-first was answered with {}", ver, show_server_frame(other)), replay: json!({"property": "C19", "module": "sasl", "revoked": format!("{:?}", ver)}) });
                    continue;
                }
            };
            let fin = match parse_server_first(&challenge).and_then(|(nonce, salt, iters)| ref_client_final(&cr, PASS, &bare, &challenge, &nonce, &salt, iters)) {
                Some((fin, _)) => fin,
                None => continue,
            };
            store.revoked.store(true, std::sync::atomic::Ordering::SeqCst);
            let msg = if honest { fin } else { b"c=biws,r=rOprNGfwEbeRWgbNEkqOxyz,p=AAAA".to_vec() };
            let out = auth.on_response(SaslResponse { response: Binary::from(msg) });
            if show_server_frame(&out).starts_with("o:ok") {
                report.finding(Finding { kind: "violation", key: "scram-server:accepted:account-gone-before-the-final-message".into(), description: format!("{:?}: the account was removed from the credential store after the server-first message; the {} client-final was answered with {}", ver, if honest { "honest" } else { "arbitrary" }, show_server_frame(&out)), replay: json!({"property": "C19", "module": "sasl", "revoked": format!("{:?}", ver), "honest": honest}) });
            }
        }
    }
}

fn run_scramsrv(rng: &mut Rng, report: &mut Report, lines: &mut Vec<String>, imp: &mut Vec<String>, n: u64) {
    for k in 0..n {
        let ver = *rng.pick(&[Ver::S256, Ver::S256, Ver::S1, Ver::S512]);
        let steps = gen_srv_scenario(rng, ver);
        let seed = rng.next();
        let (line, answers, verdicts) = run_srv_scenario(ver, &steps, seed);
        report.evaluations += 1;
        if steps.len() > 1 {
            report.nontrivial_case(fnv(&format!("{:?}{:?}", ver, steps)));
        }
        for (i, (ok, allowed)) in verdicts.iter().enumerate() {
            report.count(if *ok { "scram_server_ok" } else { "scram_server_refused" });
            if *ok && !*allowed {
                report.finding(Finding { kind: "violation", key: format!("scram-server:accepted:{}", match &steps[i] { SrvStep::Init { .. } => "init".to_string(), SrvStep::Resp(k) => format!("{:?}", k).split('(').next().unwrap_or("").to_string() }), description: format!("step {} of {:?} was answered with outcome ok ({:?})", i, steps, answers), replay: json!({"property": "C19", "module": "sasl", "scramsrv": {"ver": ver.mech(), "steps": steps.iter().map(step_to_json).collect::<Vec<_>>(), "seed": seed}}) });
            }
            if !*ok && *allowed {
                report.finding(Finding { kind: "violation", key: "scram-server:honest-exchange-refused".into(), description: format!("step {} of {:?}: an honest client-final was refused ({:?})", i, steps, answers), replay: json!({"property": "C19", "module": "sasl", "scramsrv": {"ver": ver.mech(), "steps": steps.iter().map(step_to_json).collect::<Vec<_>>(), "seed": seed}}) });
            }
        }
        if k < 3 {
            report.sample(json!({"scramsrv": steps.iter().map(step_to_json).collect::<Vec<_>>(), "answers": answers}));
        }
        lines.push(line);
        // challenges carry the server's random nonce and salt: compare kinds and codes, and the full outcome
        imp.push(answers.iter().map(|a| if a.starts_with("c:") { "c".to_string() } else { a.clone() }).collect::<Vec<_>>().join(" "));
    }
}

// ------------------------------------------------------------------------------- raw SASL peer

const SASL_HEADER: [u8; 8] = [b'A', b'M', b'Q', b'P', 3, 1, 0, 0];
const AMQP_HEADER_: [u8; 8] = [b'A', b'M', b'Q', b'P', 0, 1, 0, 0];

fn sasl_frame(body: &[u8]) -> Vec<u8> {
    let size = 8 + body.len();
    let mut out = (size as u32).to_be_bytes().to_vec();
    out.extend_from_slice(&[2, 1, 0, 0]);
    out.extend_from_slice(body);
    out
}

fn enc<T: serde::Serialize>(v: &T) -> Vec<u8> {
    serde_amqp::to_vec(v).expect("encode sasl body")
}

/// a SASL frame as the scripted side saw it
#[derive(Debug, Clone)]
pub enum Seen {
    Mechanisms(Vec<String>),
    Init(String, Option<Vec<u8>>),
    Challenge(Vec<u8>),
    Response(Vec<u8>),
    Outcome(String, Option<Vec<u8>>),
    /// something else: (type byte, first bytes)
    Other(String),
    Header([u8; 8]),
    Eof,
    Timeout,
}

async fn read_sasl(peer: &mut Peer) -> Seen {
    match peer.recv_raw_frame().await {
        Ok((_doff, ty, _ch, body)) => {
            if ty != 1 {
                return Seen::Other(format!("frame type {}", ty));
            }
            match serde_amqp::from_slice::<fe2o3_amqp::frames::sasl::Frame>(&body) {
                Ok(fe2o3_amqp::frames::sasl::Frame::Mechanisms(m)) => Seen::Mechanisms(m.sasl_server_mechanisms.0.iter().map(|s| s.as_str().to_string()).collect()),
                Ok(fe2o3_amqp::frames::sasl::Frame::Init(i)) => Seen::Init(i.mechanism.as_str().to_string(), i.initial_response.map(|b| b.to_vec())),
                Ok(fe2o3_amqp::frames::sasl::Frame::Challenge(c)) => Seen::Challenge(c.challenge.to_vec()),
                Ok(fe2o3_amqp::frames::sasl::Frame::Response(r)) => Seen::Response(r.response.to_vec()),
                Ok(fe2o3_amqp::frames::sasl::Frame::Outcome(o)) => Seen::Outcome(code_name(&o.code).to_string(), o.additional_data.map(|b| b.to_vec())),
                Err(e) => Seen::Other(format!("undecodable: {}", e)),
            }
        }
        Err(PeerError::Eof) => Seen::Eof,
        Err(PeerError::Timeout) => Seen::Timeout,
        Err(e) => Seen::Other(format!("{:?}", e)),
    }
}

// ------------------------------------------------------------------------------- listener

#[derive(Clone, Debug, PartialEq)]
pub enum HdrKind {
    Sasl,
    Amqp,
    Tls,
    WrongVersion,
    Garbage,
    Nothing,
}

#[derive(Clone, Debug)]
pub enum CliStep {
    PlainInit { mech: String, resp: Option<Vec<u8>> },
    ScramInit { mech: String, first: FirstKind },
    ScramResp(FinalKind),
    RawResp(Vec<u8>),
    /// a frame only servers send
    ServerFrame(u8),
    /// an AMQP open frame (type 0) in the middle of SASL
    AmqpFrame,
    /// a SASL frame with an undecodable body
    Garbage,
    /// a SASL frame of 600 bytes (the limit is 512 before Open)
    Oversize,
    /// the AMQP header, as if SASL were over
    AmqpHeader,
}

#[derive(Clone, Debug)]
pub struct ListenCase {
    pub scram: Option<Ver>,
    pub hdr: HdrKind,
    pub steps: Vec<CliStep>,
    /// write everything at once instead of waiting for the answers
    pub pipelined: bool,
}

fn listen_case_json(c: &ListenCase) -> J {
    json!({"scram": c.scram.map(|v| v.mech()), "hdr": format!("{:?}", c.hdr), "steps": c.steps.iter().map(|s| format!("{:?}", s)).collect::<Vec<_>>(), "pipelined": c.pipelined})
}

pub fn gen_listen_case(rng: &mut Rng) -> ListenCase {
    let scram = if rng.chance(1, 2) { Some(*rng.pick(&[Ver::S256, Ver::S1, Ver::S512])) } else { None };
    let hdr = match rng.below(12) {
        0 => HdrKind::Amqp,
        1 => HdrKind::Tls,
        2 => HdrKind::WrongVersion,
        3 => HdrKind::Garbage,
        4 => HdrKind::Nothing,
        _ => HdrKind::Sasl,
    };
    let n = rng.range(0, 4);
    let mut steps = vec![];
    for _ in 0..n {
        let st = match rng.below(16) {
            0 => CliStep::ServerFrame(rng.below(3) as u8),
            1 => CliStep::AmqpFrame,
            2 => CliStep::Garbage,
            3 => CliStep::Oversize,
            4 => CliStep::AmqpHeader,
            5 => CliStep::RawResp((0..rng.below(12)).map(|_| rng.below(256) as u8).collect()),
            _ => match scram {
                None => CliStep::PlainInit { mech: rng.pick(&["PLAIN", "PLAIN", "PLAIN", "ANONYMOUS", "SCRAM-SHA-256", "EXTERNAL"]).to_string(), resp: gen_plain_response(rng) },
                Some(ver) => {
                    if rng.chance(1, 2) {
                        let first = match rng.below(10) {
                            0 => FirstKind::None,
                            1 => FirstKind::UnknownUser,
                            2 => FirstKind::BadGs2("y,,".into()),
                            3 => FirstKind::NoNonce,
                            4 => FirstKind::InvalidUtf8,
                            _ => FirstKind::Honest,
                        };
                        CliStep::ScramInit { mech: if rng.chance(1, 8) { rng.pick(&["PLAIN", "ANONYMOUS", "SCRAM-SHA-1", "SCRAM-SHA-256"]).to_string() } else { ver.mech().to_string() }, first }
                    } else {
                        CliStep::ScramResp(match rng.below(10) {
                            0 => FinalKind::WrongPassword,
                            1 => FinalKind::ProofBitFlip,
                            2 => FinalKind::NonceReplaced,
                            3 => FinalKind::Replayed,
                            4 => FinalKind::NoProof,
                            5 => FinalKind::SignatureAsProof,
                            _ => FinalKind::Honest,
                        })
                    }
                }
            },
        };
        steps.push(st);
    }
    // often: the honest pair, so that the accepting path is well covered
    if rng.chance(1, 4) {
        steps = match scram {
            None => vec![CliStep::PlainInit { mech: "PLAIN".into(), resp: Some([b"\0".as_ref(), USER, b"\0", PASS].concat()) }],
            Some(ver) => vec![CliStep::ScramInit { mech: ver.mech().into(), first: FirstKind::Honest }, CliStep::ScramResp(if rng.chance(1, 3) { FinalKind::WrongPassword } else { FinalKind::Honest })],
        };
    }
    ListenCase { scram, hdr, steps, pipelined: rng.chance(1, 5) }
}

#[derive(Debug, Default, Clone)]
pub struct ListenObserved {
    /// what the listener's accept() returned
    pub accept: String,
    /// the SASL frames the listener sent after its mechanisms frame
    pub server_frames: Vec<String>,
    pub mechanisms: Vec<String>,
    /// did anything of the AMQP layer (header, open) come from the listener
    pub amqp_seen: bool,
    /// the oracle: were valid credentials presented in a complete exchange
    pub authenticated: bool,
    /// model line and the implementation's answer to it
    pub line: String,
    pub imp: String,
    pub notes: Vec<String>,
}

fn classify_accept<T>(r: &Result<T, fe2o3_amqp::connection::OpenError>) -> String {
    use fe2o3_amqp::connection::OpenError;
    match r {
        Ok(_) => "passed".into(),
        Err(OpenError::SaslError { code, .. }) => format!("failed:{}", code_name(code)),
        Err(OpenError::ProtocolHeaderMismatch(_)) => "failed:header".into(),
        Err(_) => "failed:io".into(),
    }
}

pub fn run_listen_case(case: &ListenCase, seed: u64) -> Result<ListenObserved, String> {
    let rt = paused_runtime();
    let case = case.clone();
    rt.block_on(async move {
        let (cio, sio) = tokio::io::duplex(1 << 16);
        let scram = case.scram;
        let server = tokio::spawn(async move {
            let r = match scram {
                None => {
                    let acc = ConnectionAcceptor::builder().container_id("listener").sasl_acceptor(SaslPlainMechanism::new(String::from_utf8_lossy(USER).to_string(), String::from_utf8_lossy(PASS).to_string())).build();
                    tokio::time::timeout(Duration::from_secs(20), acc.accept(sio)).await
                }
                Some(ver) => {
                    let cred = SingleScramCredential::new(String::from_utf8_lossy(USER).to_string(), String::from_utf8_lossy(PASS).to_string(), ver.version()).expect("credential");
                    let acc = ConnectionAcceptor::builder().container_id("listener").sasl_acceptor(ScramAuthenticator::new(std::sync::Arc::new(cred))).build();
                    tokio::time::timeout(Duration::from_secs(20), acc.accept(sio)).await
                }
            };
            match r {
                Ok(r) => {
                    let c = classify_accept(&r);
                    // keep an accepted connection alive for a moment so that the client sees its open
                    if let Ok(mut h) = r {
                        tokio::time::sleep(Duration::from_millis(50)).await;
                        let _ = tokio::time::timeout(Duration::from_millis(200), h.close()).await;
                    }
                    c
                }
                Err(_) => "hang".to_string(),
            }
        });
        let mut obs = ListenObserved::default();
        let mut peer = Peer::new(cio);
        peer.recv_timeout = Duration::from_millis(200);
        let mut rng = Rng::new(seed);
        let ver = case.scram.unwrap_or(Ver::S256);
        let cr = Crypto::new(ver);
        // header
        let hdr_bytes: Option<Vec<u8>> = match case.hdr {
            HdrKind::Sasl => Some(SASL_HEADER.to_vec()),
            HdrKind::Amqp => Some(AMQP_HEADER_.to_vec()),
            HdrKind::Tls => Some(vec![b'A', b'M', b'Q', b'P', 2, 1, 0, 0]),
            HdrKind::WrongVersion => Some(vec![b'A', b'M', b'Q', b'P', 3, 1, 0, 1]),
            HdrKind::Garbage => Some(b"GET / HT".to_vec()),
            HdrKind::Nothing => None,
        };
        let mut ended = false; // the SASL exchange is over (an outcome was seen, or the stream ended)
        let mut model_ins: Vec<String> = vec![];
        let mut ex: Option<Exchange> = None;
        let mut stored: Option<Stored> = None;
        let mut recorded_final: Option<Vec<u8>> = None;
        let mut authenticated = false;
        let mut decided = false; // the oracle has seen the frame that decides
        if let Some(h) = &hdr_bytes {
            let _ = peer.send_raw(h).await;
        } else {
            drop(peer);
            let accept = server.await.map_err(|e| e.to_string())?;
            obs.accept = accept.clone();
            obs.line = format!("X listen plain {} {} other e", hexo(USER), hexo(PASS));
            obs.imp = "- failed:header".into();
            // nothing was sent: any failure will do
            if accept == "passed" {
                obs.amqp_seen = true;
            }
            obs.imp = format!("- {}", if accept == "failed:io" { "failed:header".to_string() } else { accept });
            return Ok(obs);
        }
        // the listener writes its SASL header first, whatever we sent
        match peer.recv_header().await {
            Ok(h) => {
                if h != SASL_HEADER {
                    obs.notes.push(format!("listener's header: {}", hex(&h)));
                    if h == AMQP_HEADER_ {
                        obs.amqp_seen = true;
                    }
                }
            }
            Err(_) => ended = true,
        }
        if case.hdr == HdrKind::Sasl && !ended {
            match read_sasl(&mut peer).await {
                Seen::Mechanisms(m) => obs.mechanisms = m,
                other => {
                    obs.notes.push(format!("expected mechanisms, saw {:?}", other));
                    ended = true;
                }
            }
        } else {
            ended = true;
        }
        let mut pending_reads = 0usize;
        for st in &case.steps {
            if ended && !case.pipelined {
                break;
            }
            // the bytes of this step, its model event, and what the oracle makes of it
            let (bytes, ev): (Vec<u8>, String) = match st {
                CliStep::PlainInit { mech, resp } => {
                    let init = SaslInit { mechanism: Symbol::from(mech.as_str()), initial_response: resp.clone().map(Binary::from), hostname: None };
                    if !decided {
                        decided = true;
                        authenticated = match case.scram {
                            None => plain_oracle(resp),
                            Some(_) => false,
                        };
                        if case.scram.is_some() {
                            // a PLAIN-style init sent to a SCRAM listener: refused unless it happens to be a client-first (it is not)
                        }
                    }
                    (sasl_frame(&enc(&init)), format!("i:{}:{}", hexo(mech.as_bytes()), resp.as_ref().map(|r| hexo(r)).unwrap_or("-".into())))
                }
                CliStep::ScramInit { mech, first } => {
                    let cn: Vec<u8> = b64(&(0..18).map(|_| rng.below(256) as u8).collect::<Vec<u8>>()).into_bytes();
                    let (msg, bare): (Option<Vec<u8>>, Vec<u8>) = match first {
                        FirstKind::None => (None, vec![]),
                        FirstKind::UnknownUser => {
                            let bare = [b"n=".as_ref(), b"mallory", b",r=", &cn].concat();
                            (Some([b"n,,".as_ref(), &bare].concat()), bare)
                        }
                        FirstKind::BadGs2(g) => {
                            let bare = [b"n=".as_ref(), USER, b",r=", &cn].concat();
                            (Some([g.as_bytes(), &bare].concat()), bare)
                        }
                        FirstKind::NoNonce => {
                            let bare = [b"n=".as_ref(), USER].concat();
                            (Some([b"n,,".as_ref(), &bare].concat()), bare)
                        }
                        FirstKind::InvalidUtf8 => {
                            let bare = [b"n=".as_ref(), USER, b",r=", &cn, &[0xff, 0xfe]].concat();
                            (Some([b"n,,".as_ref(), &bare].concat()), bare)
                        }
                        _ => {
                            let bare = [b"n=".as_ref(), USER, b",r=", &cn].concat();
                            (Some([b"n,,".as_ref(), &bare].concat()), bare)
                        }
                    };
                    let init = SaslInit { mechanism: Symbol::from(mech.as_str()), initial_response: msg.clone().map(Binary::from), hostname: None };
                    let good = case.scram.map(|v| v.mech() == mech).unwrap_or(false) && *first == FirstKind::Honest;
                    if !decided && !good {
                        // anything but a well-formed init for the offered mechanism ends the exchange
                        decided = true;
                        authenticated = false;
                        if case.scram.is_none() {
                            // a client-first sent to the PLAIN listener: three NUL-separated fields it is not
                            authenticated = plain_oracle(&msg);
                        }
                    }
                    // remember what was sent, to answer the challenge
                    ex = Some(Exchange { client_nonce: cn.clone(), bare, server_first: vec![] });
                    (sasl_frame(&enc(&init)), format!("i:{}:{}:@NONCE@", hexo(mech.as_bytes()), msg.as_ref().map(|m| hexo(m)).unwrap_or("-".into())))
                }
                CliStep::ScramResp(kind) => {
                    let (fin, honest): (Vec<u8>, bool) = match &ex {
                        Some(e) if !e.server_first.is_empty() => {
                            let (nonce, salt, iters) = parse_server_first(&e.server_first).unwrap_or((vec![], vec![], 1));
                            let pw: &[u8] = if *kind == FinalKind::WrongPassword { b"s3cres" } else { PASS };
                            let (good, _) = ref_client_final(&cr, pw, &e.bare, &e.server_first, &nonce, &salt, iters).unwrap_or((vec![], vec![]));
                            let gs = String::from_utf8_lossy(&good).to_string();
                            let (wo, proof) = gs.rsplit_once(",p=").map(|(a, b)| (a.to_string(), b.to_string())).unwrap_or_default();
                            match kind {
                                FinalKind::Honest => (good, true),
                                FinalKind::WrongPassword => (good, false),
                                FinalKind::ProofBitFlip => {
                                    let mut p = base64::engine::general_purpose::STANDARD.decode(&proof).unwrap_or_default();
                                    if !p.is_empty() {
                                        p[0] ^= 4;
                                    }
                                    (format!("{},p={}", wo, b64(&p)).into_bytes(), false)
                                }
                                FinalKind::NonceReplaced => (format!("c=biws,r=bm9uY2U=,p={}", proof).into_bytes(), false),
                                FinalKind::Replayed => match &recorded_final {
                                    Some(f) => (f.clone(), *f == good),
                                    None => (good, true),
                                },
                                FinalKind::NoProof => (wo.into_bytes(), false),
                                FinalKind::SignatureAsProof => {
                                    let salted = cr.hi(PASS, &salt, iters).unwrap_or_default();
                                    let auth_msg = [e.bare.as_slice(), b",", e.server_first.as_slice(), b",", wo.as_bytes()].concat();
                                    let ck = cr.hmac(&salted, b"Client Key");
                                    let sk = cr.h(&ck);
                                    let sig = cr.hmac(&sk, &auth_msg);
                                    (format!("{},p={}", wo, b64(&sig)).into_bytes(), false)
                                }
                                _ => (good, true),
                            }
                        }
                        _ => (b"c=biws,r=abc,p=AAAA".to_vec(), false),
                    };
                    if let (Some(e), Some(s)) = (&ex, &stored) {
                        if let Ok(fs) = std::str::from_utf8(&fin) {
                            if let Some((wo, p)) = fs.rsplit_once(",p=") {
                                let auth_msg = [e.bare.as_slice(), b",", e.server_first.as_slice(), b",", wo.as_bytes()].concat();
                                let sig = cr.hmac(&s.stored_key, &auth_msg);
                                let _ = cr.hmac(&s.server_key, &auth_msg);
                                if let Ok(pb) = base64::engine::general_purpose::STANDARD.decode(p) {
                                    if pb.len() == sig.len() {
                                        let _ = cr.h(&xor(&pb, &sig));
                                    }
                                }
                            }
                        }
                    }
                    if !decided {
                        decided = true;
                        authenticated = honest && case.scram.is_some();
                    }
                    if honest {
                        recorded_final = Some(fin.clone());
                    }
                    (sasl_frame(&enc(&SaslResponse { response: Binary::from(fin.clone()) })), format!("r:{}", hexo(&fin)))
                }
                CliStep::RawResp(b) => {
                    if !decided {
                        decided = true;
                        authenticated = false;
                    }
                    (sasl_frame(&enc(&SaslResponse { response: Binary::from(b.clone()) })), format!("r:{}", hexo(b)))
                }
                CliStep::ServerFrame(k) => {
                    if !decided {
                        decided = true;
                        authenticated = false;
                    }
                    let body = match k {
                        0 => enc(&SaslMechanisms { sasl_server_mechanisms: Array::from(vec![Symbol::from("PLAIN")]) }),
                        1 => enc(&SaslChallenge { challenge: Binary::from(b"x".to_vec()) }),
                        _ => enc(&SaslOutcome { code: SaslCode::Ok, additional_data: None }),
                    };
                    (sasl_frame(&body), "o".into())
                }
                CliStep::AmqpFrame => {
                    if !decided {
                        decided = true;
                        authenticated = false;
                    }
                    (Peer::encode_frame(0, &fe2o3_amqp_types::performatives::Performative::Open(PeerOpen::default().to_open()), &[]), "b".into())
                }
                CliStep::Garbage => {
                    if !decided {
                        decided = true;
                        authenticated = false;
                    }
                    (sasl_frame(&[0x00, 0x53, 0x99, 0xc0, 0x01, 0x00]), "b".into())
                }
                CliStep::Oversize => {
                    if !decided {
                        decided = true;
                        authenticated = false;
                    }
                    (sasl_frame(&enc(&SaslResponse { response: Binary::from(vec![7u8; 600]) })), "b".into())
                }
                CliStep::AmqpHeader => {
                    if !decided {
                        decided = true;
                        authenticated = false;
                    }
                    (AMQP_HEADER_.to_vec(), "b".into())
                }
            };
            if !ended {
                model_ins.push(ev);
            }
            let _ = peer.send_raw(&bytes).await;
            if case.pipelined {
                pending_reads += 1;
                continue;
            }
            // read the listener's answer
            match read_sasl(&mut peer).await {
                Seen::Challenge(c) => {
                    obs.server_frames.push("c".into());
                    if let Some(e) = ex.as_mut() {
                        e.server_first = c.clone();
                        if let Some((nonce, salt, iters)) = parse_server_first(&c) {
                            if stored.is_none() {
                                stored = stored_for(&cr, PASS, &salt, iters);
                            }
                            let sn = if nonce.starts_with(&e.client_nonce) { nonce[e.client_nonce.len()..].to_vec() } else { vec![] };
                            if let Some(last) = model_ins.last_mut() {
                                *last = last.replace("@NONCE@", &hexo(&sn));
                            }
                        }
                    }
                    // a challenge means the init did not decide anything yet
                    if matches!(st, CliStep::ScramInit { .. }) {
                        // stays undecided
                    }
                }
                Seen::Outcome(code, extra) => {
                    obs.server_frames.push(format!("o:{}:{}", code, extra.as_ref().map(|d| hexo(d)).unwrap_or("-".into())));
                    ended = true;
                    if code == "ok" {
                        // authenticated, says the listener: go on with the AMQP layer
                        let _ = peer.send_raw(&AMQP_HEADER_).await;
                        peer.recv_timeout = Duration::from_millis(500);
                        if let Ok(h) = peer.recv_header().await {
                            if h == AMQP_HEADER_ {
                                obs.amqp_seen = true;
                            }
                        }
                        let _ = peer.send(0, fe2o3_amqp_types::performatives::Performative::Open(PeerOpen::default().to_open()), &[]).await;
                        if let Ok((_, fe2o3_amqp_types::performatives::Performative::Open(_), _)) = peer.recv_frame().await {
                            obs.amqp_seen = true;
                        }
                    }
                }
                Seen::Eof => ended = true,
                Seen::Timeout => {
                    obs.notes.push(format!("no answer to {:?}", st));
                    ended = true;
                }
                Seen::Header(h) => {
                    obs.notes.push(format!("header {}", hex(&h)));
                    ended = true;
                }
                other => {
                    obs.notes.push(format!("unexpected {:?}", other));
                    ended = true;
                }
            }
        }
        if case.pipelined {
            // everything was written blind, followed by the AMQP layer
            let _ = peer.send_raw(&AMQP_HEADER_).await;
            let _ = peer.send(0, fe2o3_amqp_types::performatives::Performative::Open(PeerOpen::default().to_open()), &[]).await;
            // a blind client cannot answer a challenge: SCRAM never succeeds here
            if case.scram.is_some() {
                authenticated = false;
            }
            peer.recv_timeout = Duration::from_millis(300);
            for _ in 0..(pending_reads + 3) {
                // what comes back: SASL frames, then possibly the AMQP header
                if peer_has_header(&mut peer).await {
                    obs.amqp_seen = true;
                    if let Ok((_, fe2o3_amqp_types::performatives::Performative::Open(_), _)) = peer.recv_frame().await {
                        obs.amqp_seen = true;
                    }
                    break;
                }
                match read_sasl(&mut peer).await {
                    Seen::Challenge(_) => obs.server_frames.push("c".into()),
                    Seen::Outcome(code, extra) => obs.server_frames.push(format!("o:{}:{}", code, extra.as_ref().map(|d| hexo(d)).unwrap_or("-".into()))),
                    _ => break,
                }
            }
            for m in model_ins.iter_mut() {
                *m = m.replace("@NONCE@", ".");
            }
        }
        drop(peer);
        obs.accept = server.await.map_err(|e| e.to_string())?;
        obs.authenticated = authenticated && case.hdr == HdrKind::Sasl;
        let hdr_word = match case.hdr {
            HdrKind::Sasl => "sasl",
            HdrKind::Amqp => "amqp",
            _ => "other",
        };
        for m in model_ins.iter_mut() {
            *m = m.replace("@NONCE@", ".");
        }
        let ins = if model_ins.is_empty() { "e".to_string() } else { format!("{} e", model_ins.join(" ")) };
        obs.line = match case.scram {
            None => format!("X listen plain {} {} {} {}", hexo(USER), hexo(PASS), hdr_word, ins),
            Some(v) => {
                let st = stored.clone().unwrap_or(Stored { salt: vec![], iters: 0, stored_key: vec![], server_key: vec![] });
                format!("X listen scram {} {} {} {} {} {} {} T {} E {}", hexo(v.mech().as_bytes()), hexo(USER), hexo(&st.salt), st.iters, hexo(&st.stored_key), hexo(&st.server_key), hdr_word, cr.table_words(), ins)
            }
        };
        obs.imp = format!("{} {}", if obs.server_frames.is_empty() { "-".to_string() } else { obs.server_frames.join(" ") }, obs.accept);
        Ok(obs)
    })
}

/// is the next thing in the stream a protocol header? (consumes it if so)
async fn peer_has_header(peer: &mut Peer) -> bool {
    match peer.peek4().await {
        Some(b) if &b == b"AMQP" => peer.recv_header().await.map(|h| h == AMQP_HEADER_).unwrap_or(false),
        _ => false,
    }
}

fn run_listener(rng: &mut Rng, report: &mut Report, lines: &mut Vec<String>, imp: &mut Vec<String>, n: u64) {
    for k in 0..n {
        let case = gen_listen_case(rng);
        let seed = rng.next();
        report.evaluations += 1;
        match run_listen_case(&case, seed) {
            Ok(obs) => {
                if !case.steps.is_empty() && case.hdr == HdrKind::Sasl {
                    report.nontrivial_case(fnv(&format!("{:?}", case)));
                }
                report.count(if obs.accept == "passed" { "listener_accepted" } else { "listener_refused" });
                if obs.accept == "passed" && case.scram.is_some() {
                    report.count("listener_scram_accepted");
                }
                let replay = json!({"property": "C19", "module": "sasl", "listen": listen_case_json(&case), "seed": seed});
                if (obs.accept == "passed" || obs.amqp_seen) && !obs.authenticated {
                    report.finding(Finding { kind: "violation", key: "listener:amqp-opened-without-authentication".into(), description: format!("accept() = {}, AMQP layer seen by the client: {}; the client never completed a SASL exchange with valid credentials; server frames {:?}; case {:?}", obs.accept, obs.amqp_seen, obs.server_frames, case), replay: replay.clone() });
                }
                if obs.authenticated && obs.accept != "passed" && !case.pipelined {
                    report.finding(Finding { kind: "violation", key: "listener:valid-exchange-refused".into(), description: format!("accept() = {} although the client authenticated with valid credentials and went on with the AMQP layer; server frames {:?}; notes {:?}; case {:?}", obs.accept, obs.server_frames, obs.notes, case), replay: replay.clone() });
                }
                if obs.accept == "hang" {
                    report.finding(Finding { kind: "violation", key: "listener:accept-hangs".into(), description: format!("accept() did not return within 20 virtual seconds after the client closed its end; case {:?}", case), replay: replay.clone() });
                }
                if !case.pipelined {
                    lines.push(obs.line.clone());
                    imp.push(obs.imp.clone());
                }
                if k < 3 {
                    report.sample(json!({"listen": listen_case_json(&case), "observed": obs.imp}));
                }
            }
            Err(e) => report.finding(Finding { kind: "violation", key: "listener:scenario-failed".into(), description: e, replay: json!({"property": "C19", "module": "sasl", "listen": listen_case_json(&case), "seed": seed}) }),
        }
    }
}

/// an acceptor that answers every init with a fixed outcome code: does the listener let a peer in on any code but ok?
#[derive(Clone, Debug)]
struct FixedCode(SaslCode);

impl SaslAcceptor for FixedCode {
    fn mechanisms(&self) -> Array<Symbol> {
        Array::from(vec![Symbol::from("PLAIN")])
    }
    fn on_init(&mut self, _init: SaslInit) -> SaslServerFrame {
        SaslServerFrame::Outcome(SaslOutcome { code: self.0.clone(), additional_data: None })
    }
    fn on_response(&mut self, _r: SaslResponse) -> SaslServerFrame {
        SaslServerFrame::Outcome(SaslOutcome { code: self.0.clone(), additional_data: None })
    }
}

fn run_fixed_codes(report: &mut Report) {
    for code in [SaslCode::Ok, SaslCode::Auth, SaslCode::Sys, SaslCode::SysPerm, SaslCode::SysTemp] {
        for use_response in [false, true] {
            report.evaluations += 1;
            let rt = paused_runtime();
            let c2 = code.clone();
            let (accept, amqp_seen) = rt.block_on(async move {
                let (cio, sio) = tokio::io::duplex(1 << 16);
                let server = tokio::spawn(async move {
                    let acc = ConnectionAcceptor::builder().container_id("listener").sasl_acceptor(FixedCode(c2)).build();
                    match tokio::time::timeout(Duration::from_secs(20), acc.accept(sio)).await {
                        Ok(r) => {
                            let c = classify_accept(&r);
                            if let Ok(mut h) = r {
                                tokio::time::sleep(Duration::from_millis(50)).await;
                                let _ = tokio::time::timeout(Duration::from_millis(200), h.close()).await;
                            }
                            c
                        }
                        Err(_) => "hang".to_string(),
                    }
                });
                let mut peer = Peer::new(cio);
                peer.recv_timeout = Duration::from_millis(300);
                let _ = peer.send_raw(&SASL_HEADER).await;
                let _ = peer.recv_header().await;
                let _ = read_sasl(&mut peer).await;
                let body = if use_response { enc(&SaslResponse { response: Binary::from(b"x".to_vec()) }) } else { enc(&SaslInit { mechanism: Symbol::from("PLAIN"), initial_response: None, hostname: None }) };
                let _ = peer.send_raw(&sasl_frame(&body)).await;
                let _ = read_sasl(&mut peer).await;
                // go on as if authenticated, whatever the outcome was
                let _ = peer.send_raw(&AMQP_HEADER_).await;
                let _ = peer.send(0, fe2o3_amqp_types::performatives::Performative::Open(PeerOpen::default().to_open()), &[]).await;
                let mut amqp_seen = false;
                if peer_has_header(&mut peer).await {
                    amqp_seen = true;
                }
                drop(peer);
                (server.await.unwrap_or_else(|e| e.to_string()), amqp_seen)
            });
            let ok = matches!(code, SaslCode::Ok);
            if (accept == "passed" || amqp_seen) != ok {
                report.finding(Finding { kind: "violation", key: if ok { "listener:outcome-ok-not-honoured".into() } else { "listener:amqp-opened-after-non-ok-outcome".into() }, description: format!("an acceptor that answers with outcome {}: accept() = {}, AMQP layer seen by the client: {}", code_name(&code), accept, amqp_seen), replay: json!({"property": "C19", "module": "sasl", "fixed_code": code_name(&code), "response": use_response}) });
            }
        }
    }
}

// ------------------------------------------------------------------------------- client

#[derive(Clone, Debug, PartialEq)]
pub enum ChKind {
    Honest,
    NonceNotExtending,
    NonceExact,
    Mext,
    MissingSalt,
    MissingIter,
    IterNotNumber,
    IterZero,
    IterTooBig,
    InvalidUtf8,
    TwoParts,
    SaltNotB64,
    /// the message is changed in flight (iteration count 4096 -> 1); the server's own computations use the original
    Mitm,
    Empty,
}

#[derive(Clone, Debug, PartialEq)]
pub enum SigKind {
    Honest,
    None,
    Garbage,
    WrongPassword,
    /// computed over the messages as the server sent them, not as the client got them
    OverOriginal,
    ErrorAttr,
    HonestThenExt,
    BitFlip,
    Truncated,
    InvalidUtf8,
}

#[derive(Clone, Debug)]
pub enum SrvStepC {
    Mechs(u8),
    Challenge(ChKind),
    Outcome(u8, SigKind),
    ClientFrame,
    Garbage,
    AmqpHeader,
}

#[derive(Clone, Debug)]
pub struct ClientCase {
    pub scram: Option<Ver>,
    pub hdr: HdrKind,
    pub steps: Vec<SrvStepC>,
}

fn client_case_json(c: &ClientCase) -> J {
    json!({"scram": c.scram.map(|v| v.mech()), "hdr": format!("{:?}", c.hdr), "steps": c.steps.iter().map(|s| format!("{:?}", s)).collect::<Vec<_>>()})
}

pub fn gen_client_case(rng: &mut Rng) -> ClientCase {
    let scram = if rng.chance(3, 4) { Some(*rng.pick(&[Ver::S256, Ver::S256, Ver::S1, Ver::S512])) } else { None };
    let hdr = match rng.below(12) {
        0 => HdrKind::Amqp,
        1 => HdrKind::WrongVersion,
        2 => HdrKind::Garbage,
        3 => HdrKind::Nothing,
        _ => HdrKind::Sasl,
    };
    let ch = |rng: &mut Rng| match rng.below(20) {
        0 => ChKind::NonceNotExtending,
        1 => ChKind::NonceExact,
        2 => ChKind::Mext,
        3 => ChKind::MissingSalt,
        4 => ChKind::MissingIter,
        5 => ChKind::IterNotNumber,
        6 => ChKind::IterZero,
        7 => ChKind::IterTooBig,
        8 => ChKind::InvalidUtf8,
        9 => ChKind::TwoParts,
        10 => ChKind::SaltNotB64,
        11 | 12 => ChKind::Mitm,
        13 => ChKind::Empty,
        _ => ChKind::Honest,
    };
    let sig = |rng: &mut Rng| match rng.below(16) {
        0 => SigKind::None,
        1 => SigKind::Garbage,
        2 => SigKind::WrongPassword,
        3 => SigKind::OverOriginal,
        4 => SigKind::ErrorAttr,
        5 => SigKind::HonestThenExt,
        6 => SigKind::BitFlip,
        7 => SigKind::Truncated,
        8 => SigKind::InvalidUtf8,
        _ => SigKind::Honest,
    };
    let mut steps = vec![];
    if rng.chance(2, 3) {
        // the regular shape with one thing or another changed
        steps.push(SrvStepC::Mechs(if rng.chance(1, 8) { rng.below(4) as u8 } else { 0 }));
        if scram.is_some() || rng.chance(1, 4) {
            steps.push(SrvStepC::Challenge(ch(rng)));
            if rng.chance(1, 8) {
                steps.push(SrvStepC::Challenge(ch(rng)));
            }
        }
        let code = if rng.chance(1, 4) { rng.range(1, 4) as u8 } else { 0 };
        steps.push(SrvStepC::Outcome(code, sig(rng)));
    } else {
        for _ in 0..rng.range(0, 4) {
            steps.push(match rng.below(10) {
                0 | 1 => SrvStepC::Mechs(rng.below(4) as u8),
                2 | 3 | 4 => SrvStepC::Challenge(ch(rng)),
                5 | 6 => SrvStepC::Outcome(if rng.chance(1, 3) { rng.range(1, 4) as u8 } else { 0 }, sig(rng)),
                7 => SrvStepC::ClientFrame,
                8 => SrvStepC::Garbage,
                _ => SrvStepC::AmqpHeader,
            });
        }
    }
    ClientCase { scram, hdr, steps }
}

#[derive(Debug, Default, Clone)]
pub struct ClientObserved {
    /// authenticated | refused:<code> | error
    pub verdict: String,
    pub client_frames: Vec<String>,
    /// the client went on to the AMQP layer
    pub amqp_started: bool,
    /// oracle: did an honest server (one that knows the password) say ok at the end of a complete exchange
    pub legitimate: bool,
    pub line: Option<String>,
    pub imp: String,
    pub notes: Vec<String>,
    pub err: String,
}

pub fn run_client_case(case: &ClientCase, seed: u64) -> Result<ClientObserved, String> {
    let rt = paused_runtime();
    let case = case.clone();
    rt.block_on(async move {
        let (cio, sio) = tokio::io::duplex(1 << 16);
        let scram = case.scram;
        let client = tokio::spawn(async move {
            let user = String::from_utf8_lossy(USER).to_string();
            let pass = String::from_utf8_lossy(PASS).to_string();
            let profile: SaslProfile = match scram {
                None => SaslProfile::Plain { username: user, password: pass },
                Some(Ver::S1) => SaslScramSha1::new(user, pass).into(),
                Some(Ver::S256) => SaslScramSha256::new(user, pass).into(),
                Some(Ver::S512) => SaslScramSha512::new(user, pass).into(),
            };
            let r = tokio::time::timeout(Duration::from_secs(20), Connection::builder().container_id("c19").sasl_profile(profile).open_with_stream(cio)).await;
            match r {
                Ok(Ok(mut c)) => {
                    let _ = tokio::time::timeout(Duration::from_millis(300), c.close()).await;
                    ("authenticated".to_string(), String::new())
                }
                Ok(Err(e)) => {
                    use fe2o3_amqp::connection::OpenError;
                    let cls = match &e {
                        OpenError::SaslError { code, .. } => format!("refused:{}", code_name(code)),
                        _ => "error".to_string(),
                    };
                    (cls, format!("{:?}", e))
                }
                Err(_) => ("hang".to_string(), String::new()),
            }
        });
        let mut obs = ClientObserved::default();
        let mut peer = Peer::new(sio);
        peer.recv_timeout = Duration::from_millis(200);
        let _rng = Rng::new(seed);
        let ver = case.scram.unwrap_or(Ver::S256);
        let mech = match case.scram {
            None => "PLAIN",
            Some(v) => v.mech(),
        };
        let cr = Crypto::new(ver);
        let salt: Vec<u8> = (0..16).map(|i| (i * 7 + 3) as u8).collect();
        let iters: u32 = 4096;
        // the client's header comes first
        let ch = peer.recv_header().await.ok();
        if ch != Some(SASL_HEADER) {
            obs.notes.push(format!("client's first header: {:?}", ch.map(|h| hex(&h))));
        }
        let hdr_bytes: Option<Vec<u8>> = match case.hdr {
            HdrKind::Sasl => Some(SASL_HEADER.to_vec()),
            HdrKind::Amqp => Some(AMQP_HEADER_.to_vec()),
            HdrKind::Tls => Some(vec![b'A', b'M', b'Q', b'P', 2, 1, 0, 0]),
            HdrKind::WrongVersion => Some(vec![b'A', b'M', b'Q', b'P', 3, 1, 0, 1]),
            HdrKind::Garbage => Some(b"HTTP/1.1".to_vec()),
            HdrKind::Nothing => None,
        };
        let mut ins: Vec<String> = vec![];
        let mut nonces: Vec<Vec<u8>> = vec![];
        // oracle state
        #[derive(PartialEq)]
        enum O {
            Initial,
            FirstSent,
            FinalSent,
            Dead,
            Done(bool),
        }
        let mut o = if case.hdr == HdrKind::Sasl { O::Initial } else { O::Dead };
        let mut cur_nonce: Vec<u8> = vec![];
        let mut cur_bare: Vec<u8> = vec![];
        let mut expected_sig: Vec<u8> = vec![];
        let mut original_sig: Vec<u8> = vec![];
        match &hdr_bytes {
            Some(h) => {
                let _ = peer.send_raw(h).await;
            }
            None => {
                drop(peer);
                let (v, e) = client.await.map_err(|e| e.to_string())?;
                obs.verdict = v;
                obs.err = e;
                obs.imp = format!("- {}", obs.verdict);
                return Ok(obs);
            }
        }
        let mut gone = false;
        for st in &case.steps {
            if gone {
                break;
            }
            match st {
                SrvStepC::Mechs(k) => {
                    let list: Vec<&str> = match k {
                        0 => vec![mech],
                        1 => vec!["ANONYMOUS", mech],
                        2 => vec!["GSSAPI"],
                        _ => vec![],
                    };
                    if list.is_empty() {
                        // a mechanisms frame whose mandatory list is null: not a valid frame
                        let _ = peer.send_raw(&sasl_frame(&[0x00, 0x53, 0x40, 0xc0, 0x02, 0x01, 0x40])).await;
                        ins.push("b".into());
                        if !matches!(o, O::Done(_)) {
                            o = O::Dead;
                        }
                        continue;
                    }
                    let m = SaslMechanisms { sasl_server_mechanisms: Array::from(list.iter().map(|s| Symbol::from(*s)).collect::<Vec<_>>()) };
                    let _ = peer.send_raw(&sasl_frame(&enc(&m))).await;
                    ins.push(format!("m{}", list.iter().map(|s| format!(":{}", hexo(s.as_bytes()))).collect::<String>()));
                    let offered = list.contains(&mech);
                    if o != O::Dead && !matches!(o, O::Done(_)) {
                        o = if offered { O::FirstSent } else { O::Dead };
                    }
                    if offered {
                        match read_sasl(&mut peer).await {
                            Seen::Init(m, r) => {
                                obs.client_frames.push(format!("i:{}:{}", hexo(m.as_bytes()), r.as_ref().map(|r| hexo(r)).unwrap_or("-".into())));
                                if let Some(r) = &r {
                                    if let Some(pos) = r.windows(3).position(|w| w == b",r=") {
                                        cur_nonce = r[pos + 3..].to_vec();
                                        cur_bare = r.get(3..).map(|b| b.to_vec()).unwrap_or_default();
                                        nonces.push(cur_nonce.clone());
                                    }
                                }
                            }
                            Seen::Eof => gone = true,
                            other => {
                                obs.notes.push(format!("after mechanisms: {:?}", other));
                                gone = true;
                            }
                        }
                    }
                }
                SrvStepC::Challenge(kind) => {
                    let server_nonce = b"c2VydmVyLW5vbmNl";
                    let full_nonce: Vec<u8> = match kind {
                        // not an extension of the client's nonce: something else altogether, or the client's
                        // nonce with its first character changed followed by a server part (longer than the client's)
                        ChKind::NonceNotExtending => {
                            if seed % 2 == 0 || cur_nonce.is_empty() {
                                b"dG90YWxseS1vdGhlcg==".to_vec()
                            } else {
                                let mut n = cur_nonce.clone();
                                n[0] = if n[0] == b'A' { b'B' } else { b'A' };
                                [n.as_slice(), server_nonce].concat()
                            }
                        }
                        ChKind::NonceExact => cur_nonce.clone(),
                        _ => [cur_nonce.as_slice(), server_nonce].concat(),
                    };
                    let n = String::from_utf8_lossy(&full_nonce).to_string();
                    let honest = format!("r={},s={},i={}", n, b64(&salt), iters);
                    let msg: Vec<u8> = match kind {
                        ChKind::Honest | ChKind::NonceNotExtending | ChKind::NonceExact => honest.clone().into_bytes(),
                        ChKind::Mext => format!("m=ext,{}", honest).into_bytes(),
                        ChKind::MissingSalt => format!("r={},x={},i={}", n, b64(&salt), iters).into_bytes(),
                        ChKind::MissingIter => format!("r={},s={},x=1", n, b64(&salt)).into_bytes(),
                        ChKind::IterNotNumber => format!("r={},s={},i=40x6", n, b64(&salt)).into_bytes(),
                        ChKind::IterZero => format!("r={},s={},i=0", n, b64(&salt)).into_bytes(),
                        ChKind::IterTooBig => format!("r={},s={},i=4294967296", n, b64(&salt)).into_bytes(),
                        ChKind::InvalidUtf8 => [honest.as_bytes(), &[0xe2, 0x28, 0xa1]].concat(),
                        ChKind::TwoParts => format!("r={},s={}", n, b64(&salt)).into_bytes(),
                        ChKind::SaltNotB64 => format!("r={},s=%%%%,i={}", n, iters).into_bytes(),
                        ChKind::Mitm => format!("r={},s={},i=1", n, b64(&salt)).into_bytes(),
                        ChKind::Empty => vec![],
                    };
                    let _ = peer.send_raw(&sasl_frame(&enc(&SaslChallenge { challenge: Binary::from(msg.clone()) }))).await;
                    ins.push(format!("c:{}", hexo(&msg)));
                    let well_formed = matches!(kind, ChKind::Honest | ChKind::NonceExact | ChKind::Mitm);
                    let answered = o == O::FirstSent && case.scram.is_some() && well_formed;
                    if o != O::Dead && !matches!(o, O::Done(_)) {
                        o = if answered { O::FinalSent } else { O::Dead };
                    }
                    // what an RFC client makes of the message as received (recorded for the model, whatever the oracle says)
                    if case.scram.is_some() && !cur_bare.is_empty() {
                        if let Some((nn, ss, ii)) = parse_server_first(&msg) {
                            if ii <= 100_000 {
                                if let Some((_fin, sig)) = ref_client_final(&cr, PASS, &cur_bare, &msg, &nn, &ss, ii) {
                                    if answered {
                                        expected_sig = sig;
                                    }
                                }
                            }
                        }
                        // the honest server's own view: original message, original parameters
                        if *kind == ChKind::Mitm {
                            if let Some((_f, sig)) = ref_client_final(&Crypto::new(ver), PASS, &cur_bare, honest.as_bytes(), &full_nonce, &salt, iters) {
                                original_sig = sig;
                            }
                        }
                    }
                    match read_sasl(&mut peer).await {
                        Seen::Response(r) => obs.client_frames.push(format!("r:{}", hexo(&r))),
                        Seen::Eof => gone = true,
                        Seen::Timeout => {}
                        other => {
                            obs.notes.push(format!("after challenge: {:?}", other));
                            gone = true;
                        }
                    }
                }
                SrvStepC::Outcome(code, sk) => {
                    let sigb: Option<Vec<u8>> = match sk {
                        SigKind::None => None,
                        SigKind::Honest => Some(format!("v={}", b64(&expected_sig)).into_bytes()),
                        SigKind::HonestThenExt => Some(format!("v={},x=ext", b64(&expected_sig)).into_bytes()),
                        SigKind::Garbage => Some(b"v=AAAAAAAAAAAAAAAAAAAAAAAAAAAAAAAAAAAAAAAAAAA=".to_vec()),
                        SigKind::WrongPassword => {
                            // a server that guesses the password wrong
                            let c2 = Crypto::new(ver);
                            let salted = c2.hi(b"guess", &salt, iters).unwrap_or_default();
                            let sk2 = c2.hmac(&salted, b"Server Key");
                            Some(format!("v={}", b64(&c2.hmac(&sk2, b"whatever"))).into_bytes())
                        }
                        SigKind::OverOriginal => Some(format!("v={}", b64(if original_sig.is_empty() { &expected_sig } else { &original_sig })).into_bytes()),
                        SigKind::ErrorAttr => Some(b"e=invalid-proof".to_vec()),
                        SigKind::BitFlip => {
                            let mut s2 = expected_sig.clone();
                            if s2.is_empty() {
                                s2 = vec![0; ver.len()];
                            }
                            s2[0] ^= 0x80;
                            Some(format!("v={}", b64(&s2)).into_bytes())
                        }
                        SigKind::Truncated => Some(format!("v={}", b64(&expected_sig[..expected_sig.len().saturating_sub(1)])).into_bytes()),
                        SigKind::InvalidUtf8 => Some([format!("v={}", b64(&expected_sig)).as_bytes(), &[0xff]].concat()),
                    };
                    let codev = match code {
                        0 => SaslCode::Ok,
                        1 => SaslCode::Auth,
                        2 => SaslCode::Sys,
                        3 => SaslCode::SysPerm,
                        _ => SaslCode::SysTemp,
                    };
                    let _ = peer.send_raw(&sasl_frame(&enc(&SaslOutcome { code: codev.clone(), additional_data: sigb.clone().map(Binary::from) }))).await;
                    ins.push(format!("o:{}:{}", code_name(&codev), sigb.as_ref().map(|d| hexo(d)).unwrap_or("-".into())));
                    if !matches!(o, O::Done(_)) {
                        let honest_sig = !expected_sig.is_empty()
                            && match sk {
                                SigKind::Honest | SigKind::HonestThenExt => true,
                                SigKind::OverOriginal => original_sig.is_empty() || original_sig == expected_sig,
                                _ => false,
                            };
                        o = match (&o, code, case.scram.is_some()) {
                            (O::Dead, _, _) => O::Done(false),
                            (_, c, _) if *c != 0 => O::Done(false),
                            (_, _, false) => O::Done(true), // PLAIN: the server's word is all there is
                            (O::FinalSent, _, true) => O::Done(honest_sig),
                            _ => O::Done(false),
                        };
                    }
                    gone = true; // an outcome ends the SASL layer either way
                }
                SrvStepC::ClientFrame => {
                    let _ = peer.send_raw(&sasl_frame(&enc(&SaslResponse { response: Binary::from(b"x".to_vec()) }))).await;
                    ins.push("x".into());
                    if !matches!(o, O::Done(_)) {
                        o = O::Dead;
                    }
                }
                SrvStepC::Garbage => {
                    let _ = peer.send_raw(&sasl_frame(&[0x00, 0x53, 0x99, 0xc0, 0x01, 0x00])).await;
                    ins.push("b".into());
                    if !matches!(o, O::Done(_)) {
                        o = O::Dead;
                    }
                }
                SrvStepC::AmqpHeader => {
                    let _ = peer.send_raw(&AMQP_HEADER_).await;
                    ins.push("b".into());
                    if !matches!(o, O::Done(_)) {
                        o = O::Dead;
                    }
                }
            }
        }
        ins.push("e".into());
        // does the client go on to the AMQP layer?
        peer.recv_timeout = Duration::from_millis(300);
        if peer_has_header(&mut peer).await {
            obs.amqp_started = true;
            let _ = peer.send_header().await;
            if let Ok((_, fe2o3_amqp_types::performatives::Performative::Open(_), _)) = peer.recv_frame().await {
                let _ = peer.send(0, fe2o3_amqp_types::performatives::Performative::Open(PeerOpen::default().to_open()), &[]).await;
                // serve the close
                peer.recv_timeout = Duration::from_millis(500);
                while let Ok((_, p, _)) = peer.recv_frame().await {
                    if matches!(p, fe2o3_amqp_types::performatives::Performative::Close(_)) {
                        let _ = peer.close_politely().await;
                        break;
                    }
                }
            }
        }
        drop(peer);
        let (v, e) = client.await.map_err(|e| e.to_string())?;
        obs.verdict = v;
        obs.err = e;
        obs.legitimate = matches!(o, O::Done(true));
        if case.hdr == HdrKind::Sasl {
            obs.line = Some(match case.scram {
                Some(v) => format!("X client scram {} {} {} {} T {} E {}", hexo(v.mech().as_bytes()), hexo(USER), hexo(PASS), if nonces.is_empty() { ".".to_string() } else { nonces.iter().map(|n| hexo(n)).collect::<Vec<_>>().join("+") }, cr.table_words(), ins.join(" ")),
                None => format!("X client simple {} {} {}", hexo(b"PLAIN"), hexo(&[b"\0".as_ref(), USER, b"\0", PASS].concat()), ins.join(" ")),
            });
        }
        obs.imp = format!("{} {}", if obs.client_frames.is_empty() { "-".to_string() } else { obs.client_frames.join(" ") }, obs.verdict);
        Ok(obs)
    })
}

fn run_clients(rng: &mut Rng, report: &mut Report, lines: &mut Vec<String>, imp: &mut Vec<String>, n: u64) {
    for k in 0..n {
        let case = gen_client_case(rng);
        let seed = rng.next();
        report.evaluations += 1;
        match run_client_case(&case, seed) {
            Ok(obs) => {
                if case.steps.len() > 1 && case.hdr == HdrKind::Sasl {
                    report.nontrivial_case(fnv(&format!("{:?}", case)));
                }
                if obs.verdict == "authenticated" && case.scram.is_some() {
                    report.count("client_scram_authenticated");
                }
                report.count(match obs.verdict.as_str() {
                    "authenticated" => "client_authenticated",
                    "error" => "client_error",
                    "hang" => "client_hang",
                    _ => "client_refused",
                });
                let replay = json!({"property": "C19", "module": "sasl", "client": client_case_json(&case), "seed": seed});
                if (obs.verdict == "authenticated" || obs.amqp_started) && !obs.legitimate {
                    let what = if case.steps.iter().any(|s| matches!(s, SrvStepC::Outcome(c, _) if *c != 0)) && !case.steps.iter().any(|s| matches!(s, SrvStepC::Outcome(0, _))) { "client:non-ok-outcome-treated-as-success" } else { "client:proceeds-without-server-proof" };
                    report.finding(Finding { kind: "violation", key: what.into(), description: format!("open_with_stream = {}, AMQP layer started: {}; the server never proved knowledge of the password in a complete exchange ending in outcome ok; client frames {:?}; case {:?}", obs.verdict, obs.amqp_started, obs.client_frames.iter().map(|f| f.chars().take(40).collect::<String>()).collect::<Vec<_>>(), case), replay: replay.clone() });
                }
                if obs.legitimate && obs.verdict != "authenticated" {
                    report.finding(Finding { kind: "violation", key: "client:honest-server-refused".into(), description: format!("open_with_stream = {} ({}) against a server that followed the protocol and knows the password; case {:?}", obs.verdict, obs.err, case), replay: replay.clone() });
                }
                if obs.verdict == "hang" {
                    report.finding(Finding { kind: "violation", key: "client:open-hangs".into(), description: format!("open_with_stream did not return within 20 virtual seconds after the server closed its end; case {:?}", case), replay: replay.clone() });
                }
                if let Some(l) = &obs.line {
                    lines.push(l.clone());
                    imp.push(obs.imp.clone());
                }
                if k < 3 {
                    report.sample(json!({"client": client_case_json(&case), "observed": obs.verdict}));
                }
            }
            Err(e) => report.finding(Finding { kind: "violation", key: "client:scenario-failed".into(), description: e, replay: json!({"property": "C19", "module": "sasl", "client": client_case_json(&case), "seed": seed}) }),
        }
    }
}

// ------------------------------------------------------------------------------- main

pub fn main(opts: &Opts) {
    let mut report = Report::new(
        "C19",
        "plain: PLAIN responses built from the configured credentials with fields equal to / prefix of / one bit off / extended / empty / upper-cased / random, 1..4 NUL-separated fields, \
         with and without authzid, plus random byte strings and a missing response; scramsrv: 1..5 init / response steps against one ScramAuthenticator (SHA-1 / 256 / 512): inits with the \
         right and other mechanism names and nine kinds of client-first, responses of fourteen kinds (honest, wrong password, flipped proof bit, replaced / truncated nonce, replayed final, \
         other channel binding with a recomputed proof, missing / short / non-base64 proof, extension attribute, invalid UTF-8, empty, signature as proof); non-trivial = a PLAIN response \
         with at least two NULs, a SCRAM scenario of more than one step; distinct by hash of the input",
    );
    // a replay re-runs the whole (deterministic, seconds-long) module run that produced the finding
    let mut seed0 = opts.seed;
    let mut tier0 = opts.tier.clone();
    let mut replay_key: Option<String> = None;
    if let Some(path) = &opts.replay {
        let j: J = serde_json::from_str(&std::fs::read_to_string(path).expect("read")).expect("json");
        let run = j.get("run").cloned().unwrap_or(J::Null);
        seed0 = run.get("seed").and_then(|x| x.as_u64()).unwrap_or(opts.seed);
        tier0 = run.get("tier").and_then(|x| x.as_str()).unwrap_or("quick").to_string();
        replay_key = Some(run.get("key").and_then(|x| x.as_str()).unwrap_or("").to_string());
    }
    let thorough = tier0 == "thorough";
    let mut rng = Rng::new(seed0 ^ 0xc19);
    let mut lines: Vec<String> = vec![];
    let mut imp: Vec<String> = vec![];
    let n = if thorough { 20000 } else { 2000 };
    run_plain(&mut rng, &mut report, &mut lines, &mut imp, n);
    run_scramsrv(&mut rng, &mut report, &mut lines, &mut imp, if thorough { 1500 } else { 150 });
    run_revoked(&mut report);
    run_listener(&mut rng, &mut report, &mut lines, &mut imp, if thorough { 6000 } else { 600 });
    run_fixed_codes(&mut report);
    run_clients(&mut rng, &mut report, &mut lines, &mut imp, if thorough { 6000 } else { 600 });
    if driver_available() {
        match run_driver(&lines) {
            Ok(model) => {
                report.model_used = true;
                report.model_lines = model.len() as u64;
                let mut bad = 0;
                for i in 0..model.len().min(imp.len()) {
                    if model[i] != imp[i] {
                        if bad == 0 {
                            let l = if lines[i].len() > 600 { format!("{}…", &lines[i][..600]) } else { lines[i].clone() };
                            report.finding(Finding { kind: "disagreement", key: "model-vs-implementation".into(), description: format!("{} -> implementation [{}] model [{}]", l, imp[i], model[i]), replay: json!({"property": "C19", "module": "sasl", "line": lines[i], "implementation": imp[i], "model": model[i]}) });
                        }
                        bad += 1;
                    }
                }
                report.count_n("lines_disagreeing_with_model", bad);
            }
            Err(e) => report.notes.push(format!("model driver failed: {}", e)),
        }
    } else {
        report.notes.push("model driver not available: correspondence skipped".into());
    }
    for f in report.findings.iter_mut() {
        if let Some(o) = f.replay.as_object_mut() {
            o.insert("run".into(), json!({"seed": seed0, "tier": tier0, "key": f.key}));
        }
    }
    if let Some(want) = &replay_key {
        match report.findings.iter().find(|f| &f.key == want) {
            Some(f) => {
                println!("REPLAY: property violated [{}]: {}", f.key, f.description);
                std::process::exit(1);
            }
            None => {
                println!("REPLAY: property holds on this scenario (the run with seed {} / tier {} no longer produces [{}])", seed0, tier0, want);
                std::process::exit(0);
            }
        }
    }
    report.write(&opts.report);
    println!("sasl: {} cases, {} non-trivial, {} findings", report.evaluations, report.nontrivial.len(), report.findings.len());
}

#[allow(dead_code)]
fn unused(_: (SaslMechanisms, SaslChallenge, SaslOutcome, Array<Symbol>, ConnectionAcceptor<(), ()>, Connection, SaslProfile, SaslScramSha1, SaslScramSha256, SaslScramSha512, Duration, Peer)) {}
