//! C10 — reassembly of multi-frame deliveries.  A real `Receiver` is attached to a
//! scripted sender that cuts each message at arbitrary offsets and repeats or omits
//! the optional transfer fields on continuation frames.

use std::time::Duration;

use fe2o3_amqp::link::receiver::CreditMode;
use fe2o3_amqp::{Connection, Receiver, Session};
use fe2o3_amqp_types::definitions::ReceiverSettleMode;
use fe2o3_amqp_types::performatives::Performative;
use serde_amqp::Value;
use serde_json::{json, Value as J};

use crate::common::*;
use crate::peer::*;

#[derive(Clone, Debug)]
pub struct Fr {
    pub id: Option<u32>,
    pub tag: Option<Vec<u8>>,
    pub fmt: Option<u32>,
    pub settled: Option<bool>,
    pub more: bool,
    pub aborted: bool,
    pub payload: Vec<u8>,
    /// frame belongs to a second link (handle 1) interleaved on the same session
    pub other_link: bool,
    /// the transfer carries `resume = true`
    pub resume: bool,
    /// a complete delivery with `resume = true` and a delivery-tag of its own, sent while another delivery of
    /// the same link is under way (not something a conforming sender does; `on_resuming_transfer` has an arm for it)
    pub lone: bool,
    /// the transfer carries the state `received` (section-number, section-offset): the sender rewinds the delivery
    /// to that point and goes on from there
    pub rewind: Option<(u32, u64)>,
}

impl Fr {
    fn line(&self) -> String {
        let o = |x: Option<u32>| x.map(|v| v as i64).unwrap_or(-1);
        format!(
            "M frame {} {} {} {} {} {} {}{}",
            o(self.id),
            self.tag.as_ref().map(|t| if t.is_empty() { "-".to_string() } else { hex(t) }).unwrap_or_else(|| "none".into()),
            o(self.fmt),
            match self.settled {
                None => -1,
                Some(false) => 0,
                Some(true) => 1,
            },
            self.more as u8,
            self.aborted as u8,
            if self.payload.is_empty() { "-".to_string() } else { hex(&self.payload) },
            if self.resume { " 1" } else { "" }
        )
    }
    fn to_json(&self) -> J {
        json!({"line": self.line(), "other_link": self.other_link})
    }
}

#[derive(Clone, Debug)]
pub struct Case {
    pub frames: Vec<Fr>,
}

fn gen_case(rng: &mut Rng) -> Case {
    let mut frames = vec![];
    let n_deliveries = rng.range(1, 4);
    let mut next_id: u32 = rng.below(5) as u32;
    let mut other_id: u32 = 1000;
    for d in 0..n_deliveries {
        // now and then a delivery in very many frames (a small max-frame-size, a large message)
        let many = rng.chance(1, 12);
        let data_len = if many { *rng.pick(&[300usize, 1000]) } else { *rng.pick(&[0usize, 1, 5, 40, 200, 300]) };
        let msg = message_bytes(rng.next(), data_len);
        let n_frames = if many { *rng.pick(&[63usize, 64, 65, 66, 129, 200]) } else { rng.range(1, 5) as usize };
        // cut points anywhere, including inside the section header / length field, and empty pieces
        let mut cuts: Vec<usize> = (0..n_frames - 1).map(|_| rng.below(msg.len() as u64 + 1) as usize).collect();
        cuts.sort();
        let id = next_id;
        next_id = next_id.wrapping_add(1);
        let tag = (d as u32 + 1).to_be_bytes().to_vec();
        let settled = *rng.pick(&[None, Some(false), Some(true)]);
        let abort_at = if rng.chance(1, 6) { Some(rng.below(n_frames as u64) as usize) } else { None };
        let contradict_at = if abort_at.is_none() && rng.chance(1, 10) && n_frames > 1 { Some(rng.range(1, n_frames as u64 - 1) as usize) } else { None };
        // an extra frame with another delivery-id in the middle of the delivery (refused), after which the delivery goes on
        let intruder_at = if abort_at.is_none() && contradict_at.is_none() && n_frames > 1 && rng.chance(1, 6) { Some(rng.range(1, n_frames as u64 - 1) as usize) } else { None };
        // the delivery is one that is transferred again after a resumption: `resume` on its last frame and on some others
        let resumed = rng.chance(1, 5);
        // a complete delivery of its own (another tag, resume = true) in the middle of this one
        let lone_at = if abort_at.is_none() && contradict_at.is_none() && intruder_at.is_none() && n_frames > 1 && rng.chance(1, 8) { Some(rng.range(1, n_frames as u64 - 1) as usize) } else { None };
        let mut prev = 0;
        for k in 0..n_frames {
            if lone_at == Some(k) {
                let m2 = message_bytes(rng.next(), *rng.pick(&[0usize, 3, 40]));
                next_id = next_id.wrapping_add(1);
                frames.push(Fr { id: Some(id.wrapping_add(1)), tag: Some(vec![0xee, d as u8]), fmt: Some(0), settled: None, more: false, aborted: false, payload: m2, other_link: false, resume: true, lone: true, rewind: None });
            }
            if intruder_at == Some(k) {
                let junk: Vec<u8> = if rng.chance(1, 2) { msg[..prev.min(msg.len())].to_vec() } else { (0..1 + rng.below(12)).map(|_| rng.next() as u8).collect() };
                frames.push(Fr { id: Some(id.wrapping_add(77)), tag: None, fmt: None, settled: None, more: true, aborted: false, payload: junk, other_link: false, resume: false, lone: false, rewind: None });
            }
            let end = if k + 1 == n_frames { msg.len() } else { cuts[k] };
            let payload = msg[prev..end].to_vec();
            prev = end;
            let first = k == 0;
            let mut f = Fr {
                id: if first || rng.chance(1, 2) { Some(id) } else { None },
                tag: if first || rng.chance(1, 3) { Some(tag.clone()) } else { None },
                fmt: if first || rng.chance(1, 3) { Some(0) } else { None },
                settled: if first { settled } else if rng.chance(1, 3) { settled } else { None },
                more: k + 1 < n_frames,
                aborted: false,
                payload,
                other_link: false,
                resume: resumed && (k + 1 == n_frames || rng.chance(1, 2)),
                lone: false,
                rewind: None,
            };
            if abort_at == Some(k) {
                // the abort frame: its `more` flag and its payload mean nothing
                f.aborted = true;
                f.more = rng.chance(1, 2);
                if rng.chance(1, 2) {
                    f.payload = (0..rng.below(20)).map(|_| rng.next() as u8).collect();
                }
                frames.push(f);
                break;
            }
            if contradict_at == Some(k) {
                f.id = Some(id.wrapping_add(77));
            }
            frames.push(f);
            // a complete single-frame delivery of another link in between
            if rng.chance(1, 4) {
                let m2 = message_bytes(rng.next(), 3);
                frames.push(Fr { id: Some(other_id), tag: Some(other_id.to_be_bytes().to_vec()), fmt: Some(0), settled: Some(true), more: false, aborted: false, payload: m2, other_link: true, resume: false, lone: false, rewind: None });
                other_id += 1;
            }
            if contradict_at == Some(k) {
                break;
            }
        }
        if contradict_at.is_some() {
            break; // the link is in error afterwards
        }
    }
    Case { frames }
}

/// what the application saw after each frame of the link under test
fn run_impl(case: &Case) -> Result<Vec<String>, String> {
    let rt = paused_runtime();
    rt.block_on(async {
        let (cio, pio) = tokio::io::duplex(1 << 20);
        let mut peer = Peer::new(pio);
        let client = tokio::spawn(async move {
            let mut conn = Connection::builder().container_id("c10").open_with_stream(cio).await.map_err(|e| format!("open: {:?}", e))?;
            let mut session = Session::begin(&mut conn).await.map_err(|e| format!("begin: {:?}", e))?;
            let r1 = Receiver::builder().name("c10-a").source("q").credit_mode(CreditMode::Manual).auto_accept(false).attach(&mut session).await.map_err(|e| format!("attach: {:?}", e))?;
            let r2 = Receiver::builder().name("c10-b").source("q2").credit_mode(CreditMode::Manual).auto_accept(false).attach(&mut session).await.map_err(|e| format!("attach: {:?}", e))?;
            Ok::<_, String>((conn, session, r1, r2))
        });
        peer.accept_open(&PeerOpen::default()).await.map_err(|e| format!("{:?}", e))?;
        peer.accept_begin(0, 0, 2048, 2048).await.map_err(|e| format!("{:?}", e))?;
        peer.accept_attach(0, 0, Some(0), ReceiverSettleMode::First).await.map_err(|e| format!("{:?}", e))?;
        peer.accept_attach(0, 1, Some(0), ReceiverSettleMode::First).await.map_err(|e| format!("{:?}", e))?;
        let (_conn, _session, mut r1, mut r2) = client.await.map_err(|e| format!("{:?}", e))??;
        // (a delivery may come in 200 frames with a delivery of the other link after every fourth of them)
        r1.set_credit(1000).await.map_err(|e| format!("{:?}", e))?;
        r2.set_credit(1000).await.map_err(|e| format!("{:?}", e))?;
        let mut out = vec![];
        let mut other_seen = 0usize;
        let mut other_sent = 0usize;
        for f in &case.frames {
            let mut t = transfer(if f.other_link { 1 } else { 0 }, f.id, f.tag.clone(), f.settled, f.more);
            t.message_format = f.fmt;
            t.aborted = f.aborted;
            t.resume = f.resume;
            if let Some((n, o)) = f.rewind {
                t.state = Some(fe2o3_amqp_types::messaging::DeliveryState::Received(fe2o3_amqp_types::messaging::Received { section_number: n, section_offset: o }));
            }
            peer.send(0, Performative::Transfer(t), &f.payload).await.map_err(|e| format!("{:?}", e))?;
            if f.other_link {
                other_sent += 1;
                continue;
            }
            match tokio::time::timeout(Duration::from_millis(50), r1.recv::<Value>()).await {
                Err(_) => out.push("N".to_string()),
                Ok(Ok(d)) => {
                    let (info, msg) = d.into_parts();
                    let body = msg.body;
                    let data = match &body {
                        Value::Binary(b) => b.to_vec(),
                        _ => vec![],
                    };
                    // re-encode what was delivered: must be the bytes that were sent
                    let re = {
                        use fe2o3_amqp_types::messaging::Message;
                        let m = Message::builder().value(serde_amqp::primitives::Binary::from(data)).build();
                        serde_amqp::to_vec(&fe2o3_amqp_types::messaging::message::__private::Serializable(m)).unwrap_or_default()
                    };
                    out.push(format!(
                        "D {} {} {} {}",
                        info.delivery_id(),
                        hex(info.delivery_tag()),
                        "F",
                        if re.is_empty() { "-".to_string() } else { hex(&re) }
                    ));
                }
                Ok(Err(e)) => {
                    let s = format!("{:?}", e);
                    if s.contains("Inconsistent") {
                        // the link stays usable: the application goes on receiving
                        out.push("I".to_string());
                        continue;
                    }
                    out.push(format!("E:{}", s.replace(' ', "_")));
                    break;
                }
            }
        }
        // the other link's deliveries all arrive, whole
        while other_seen < other_sent {
            match tokio::time::timeout(Duration::from_millis(50), r2.recv::<Value>()).await {
                Ok(Ok(_)) => other_seen += 1,
                _ => break,
            }
        }
        out.push(format!("other {}/{}", other_seen, other_sent));
        Ok(out)
    })
}

/// model output reduced to what the application can see: `D id tag F payload`
fn normalize_model(line: &str) -> String {
    let ws: Vec<&str> = line.split(' ').collect();
    if ws.first() == Some(&"D") && ws.len() == 6 {
        format!("D {} {} F {}", ws[1], ws[2], ws[5])
    } else {
        line.to_string()
    }
}

/// the property on the application's view alone: per delivery of link 0, nothing before the
/// last frame and exactly the original message at the last frame
fn check_property(case: &Case, seen: &[String]) -> Option<(String, String)> {
    let mine: Vec<&Fr> = case.frames.iter().filter(|f| !f.other_link).collect();
    let mut acc: Vec<u8> = vec![];
    let mut first: Option<(u32, Vec<u8>)> = None;
    let mut contradiction = false;
    for (i, f) in mine.iter().enumerate() {
        let got = match seen.get(i) {
            Some(g) => g,
            None => return if contradiction { None } else { Some(("missing-observation".into(), format!("frame {}", i))) },
        };
        if f.lone {
            // the delivery in progress is left alone, this one is handed over as it is
            let expect = format!("D {} {} F {}", f.id.unwrap_or(0), hex(f.tag.as_ref().unwrap()), if f.payload.is_empty() { "-".to_string() } else { hex(&f.payload) });
            if *got != expect {
                return Some(("wrong-delivery".into(), format!("frame {} (a complete delivery of its own with resume = true, sent while delivery {:?} is under way): expected {}… got {}…", i, first.as_ref().map(|x| x.0), &expect[..expect.len().min(70)], &got[..got.len().min(70)])));
            }
            continue;
        }
        if f.aborted {
            acc.clear();
            first = None;
            if got != "N" {
                return Some(("abort-yields-delivery".into(), format!("frame {}: {}", i, got)));
            }
            continue;
        }
        if first.is_none() {
            first = Some((f.id.unwrap_or(0), f.tag.clone().unwrap_or_default()));
        } else if let (Some(id), Some((fid, _))) = (f.id, &first) {
            if id != *fid {
                if f.more {
                    // refused, the delivery in progress goes on without it
                    if got.starts_with('D') {
                        return Some(("spliced-delivery".into(), format!("frame {} contradicts the delivery-id of its delivery but a delivery came out: {}", i, &got[..got.len().min(60)])));
                    }
                    continue;
                }
                contradiction = true;
            }
        }
        if let Some((n, o)) = f.rewind {
            if let Some(p) = ref_position(&acc, n, o) {
                acc.truncate(p);
            }
        }
        acc.extend_from_slice(&f.payload);
        if contradiction {
            if got.starts_with('D') {
                return Some(("spliced-delivery".into(), format!("frame {} contradicts the delivery-id of its delivery but a delivery came out: {}", i, &got[..got.len().min(60)])));
            }
            return None;
        }
        if f.more {
            if got != "N" {
                return Some(("early-delivery".into(), format!("frame {} (more=true) produced {}", i, &got[..got.len().min(60)])));
            }
        } else {
            let (fid, ftag) = first.take().unwrap();
            let expect = format!("D {} {} F {}", fid, hex(&ftag), if acc.is_empty() { "-".to_string() } else { hex(&acc) });
            if *got != expect && got.starts_with('D') && mine[..i].iter().any(|g| g.more && g.id.is_some() && g.id != Some(fid) && !g.aborted) {
                return Some(("spliced-delivery".into(), format!("frame {} ends a delivery one of whose frames was refused for its delivery-id: expected {}… got {}…", i, &expect[..expect.len().min(70)], &got[..got.len().min(70)])));
            }
            if *got != expect {
                return Some(("wrong-delivery".into(), format!("frame {} (last of its delivery): expected {}… got {}…", i, &expect[..expect.len().min(70)], &got[..got.len().min(70)])));
            }
            acc.clear();
        }
    }
    if let Some(last) = seen.last() {
        if last.starts_with("other") {
            let parts: Vec<&str> = last[6..].split('/').collect();
            if parts.len() == 2 && parts[0] != parts[1] {
                return Some(("other-link-disturbed".into(), format!("deliveries on the interleaved link: {}", last)));
            }
        }
    }
    None
}

/// A delivery that is transferred once, left unsettled, and transferred again with `resume = true` after the
/// link was detached and resumed — the second time in `frames` frames, whose continuation frames repeat the
/// delivery-tag or (`repeat_tag = false`) leave it out, as continuation frames may.  Returns what `recv` gave
/// before the detach and after the resumption (the message body as hex, or the error).
pub fn run_resumed_delivery(frames: usize, repeat_tag: bool) -> Result<(String, String), String> {
    use fe2o3_amqp_types::performatives::{Attach, Detach};
    use fe2o3_amqp_types::definitions::{Handle, Role};
    use serde_amqp::primitives::{Binary, OrderedMap};
    const TAG: &[u8] = b"tag-of-the-delivery";
    let rt = paused_runtime();
    rt.block_on(async move {
        let (cio, pio) = tokio::io::duplex(1 << 20);
        let mut peer = Peer::new(pio);
        let e = |x: PeerError| format!("{:?}", x);
        let client = tokio::spawn(async move {
            let mut conn = Connection::builder().container_id("c10-resume").open_with_stream(cio).await.map_err(|e| format!("open: {:?}", e))?;
            let mut session = Session::begin(&mut conn).await.map_err(|e| format!("begin: {:?}", e))?;
            let mut r = Receiver::attach(&mut session, "rx", "q").await.map_err(|e| format!("attach: {:?}", e))?;
            let show = |x: Result<fe2o3_amqp::link::delivery::Delivery<Value>, fe2o3_amqp::link::RecvError>| match x {
                Ok(d) => match d.body() {
                    Value::Binary(b) => hex(b),
                    other => format!("{:?}", other),
                },
                Err(e) => format!("err:{:?}", e).chars().take(80).collect(),
            };
            let before = show(tokio::time::timeout(Duration::from_secs(5), r.recv::<Value>()).await.map_err(|_| "recv before the detach timed out".to_string())?);
            let detached = r.detach().await.map_err(|(_, e)| format!("detach: {:?}", e))?;
            let mut r = match detached.resume().await {
                Ok(x) => x.into_receiver(),
                Err(e) => return Err(format!("resume: {:?}", e.kind)),
            };
            let after = match tokio::time::timeout(Duration::from_secs(5), r.recv::<Value>()).await {
                Err(_) => "nothing".to_string(),
                Ok(x) => show(x),
            };
            Ok::<_, String>((before, after))
        });
        peer.accept_open(&PeerOpen::default()).await.map_err(e)?;
        peer.accept_begin(0, 0, 2048, 2048).await.map_err(e)?;
        let a = peer.accept_attach(0, 0, Some(0), ReceiverSettleMode::First).await.map_err(e)?;
        let wait_credit = |peer: &mut Peer| {
            let _ = peer;
        };
        let _ = wait_credit;
        loop {
            match peer.recv_frame().await.map_err(e)? {
                (_, Performative::Flow(f), _) if f.link_credit.unwrap_or(0) > 0 => break,
                _ => {}
            }
        }
        let msg = message_bytes(77, 60);
        let tr = |id: Option<u32>, tag: bool, more: bool, resume: bool| {
            let mut t = transfer(0, id, if tag { Some(TAG.to_vec()) } else { None }, None, more);
            t.resume = resume;
            if id.is_none() {
                t.message_format = None;
            }
            t
        };
        peer.send(0, Performative::Transfer(tr(Some(0), true, false, false)), &msg).await.map_err(e)?;
        loop {
            match peer.recv_frame().await.map_err(e)? {
                (_, Performative::Detach(_), _) => break,
                _ => {}
            }
        }
        peer.send(0, Performative::Detach(Detach { handle: Handle(0), closed: false, error: None }), &[]).await.map_err(e)?;
        let again = loop {
            match peer.recv_frame().await.map_err(e)? {
                (_, Performative::Attach(at), _) => break at,
                _ => {}
            }
        };
        if again.unsettled.as_ref().map(|m| m.len()).unwrap_or(0) != 1 {
            return Err(format!("the resuming attach names {:?} unsettled deliveries, one expected", again.unsettled.as_ref().map(|m| m.len())));
        }
        let mut map = OrderedMap::new();
        map.insert(Binary::from(TAG.to_vec()), None);
        let ours = Attach { name: a.name.clone(), handle: Handle(0), role: Role::Sender, snd_settle_mode: Default::default(), rcv_settle_mode: Default::default(), source: again.source.clone(), target: again.target.clone(), unsettled: Some(map), incomplete_unsettled: false, initial_delivery_count: Some(1), max_message_size: None, offered_capabilities: None, desired_capabilities: None, properties: None };
        peer.send(0, Performative::Attach(ours), &[]).await.map_err(e)?;
        loop {
            match peer.recv_frame().await.map_err(e)? {
                (_, Performative::Flow(f), _) if f.link_credit.unwrap_or(0) > 0 => break,
                _ => {}
            }
        }
        let n = frames.max(1).min(msg.len());
        let piece = msg.len() / n;
        for i in 0..n {
            let lo = i * piece;
            let hi = if i + 1 == n { msg.len() } else { (i + 1) * piece };
            let first = i == 0;
            let t = tr(if first { Some(1) } else { None }, first || repeat_tag, i + 1 < n, true);
            peer.send(0, Performative::Transfer(t), &msg[lo..hi]).await.map_err(e)?;
        }
        let r = tokio::time::timeout(Duration::from_secs(30), client).await.map_err(|_| "the client did not finish".to_string())?.map_err(|e| format!("{:?}", e))??;
        Ok(r)
    })
}

pub fn main(opts: &Opts) {
    let mut report = Report::new(
        "C10",
        "a real Receiver against a scripted sender: 1-4 deliveries per case, each message (0-300 bytes of body) cut at 0-4 arbitrary \
         offsets (also inside the section header and with empty pieces), continuation frames repeating/omitting delivery-id, tag, \
         format and settled at random, aborts and contradicting delivery-ids injected (as the last frame seen, or as an extra frame in the middle after which the delivery goes on), single-frame deliveries of a second link \
         interleaved; non-trivial = a delivery of 2+ frames; distinct by hash of the frame lines",
    );
    if let Some(path) = &opts.replay {
        let j: J = serde_json::from_str(&std::fs::read_to_string(path).expect("read")).expect("json");
        println!("replay of C10 cases is by seed: rerun `vharness reasm --seed {}`", j.get("seed").and_then(|x| x.as_u64()).unwrap_or(1));
        std::process::exit(1);
    }
    let n = if opts.thorough() { 6000 } else { 600 };
    let mut rng = Rng::new(opts.seed);
    let mut lines = vec![];
    let mut expect = vec![];
    let mut case_of_line = vec![];
    for k in 0..n {
        let case = gen_case(&mut rng);
        report.evaluations += 1;
        let seen = match run_impl(&case) {
            Ok(s) => s,
            Err(e) => {
                report.finding(Finding { kind: "violation", key: "harness-error".into(), description: e, replay: json!({"property": "C10", "module": "reasm", "seed": opts.seed, "case_index": k}) });
                continue;
            }
        };
        let mine: Vec<&Fr> = case.frames.iter().filter(|f| !f.other_link).collect();
        if mine.iter().any(|f| f.more) {
            report.nontrivial_case(fnv(&mine.iter().map(|f| f.line()).collect::<Vec<_>>().join("|")));
        }
        report.count_n("frames", case.frames.len() as u64);
        report.count_n("frames_of_interleaved_link", case.frames.iter().filter(|f| f.other_link).count() as u64);
        report.count_n("aborted_deliveries", mine.iter().filter(|f| f.aborted).count() as u64);
        report.count_n("frames_with_resume", mine.iter().filter(|f| f.resume).count() as u64);
        report.count_n("lone_resumed_deliveries_inside_another", mine.iter().filter(|f| f.lone).count() as u64);
        if k % (n / 3).max(1) == 0 {
            report.sample(json!({"frames": case.frames.iter().map(|f| f.to_json()).collect::<Vec<_>>(), "application_saw": seen.iter().map(|x| x[..x.len().min(60)].to_string()).collect::<Vec<_>>()}));
        }
        if let Some((key, desc)) = check_property(&case, &seen) {
            report.finding(Finding { kind: "violation", key, description: desc, replay: json!({"property": "C10", "module": "reasm", "seed": opts.seed, "case_index": k, "frames": case.frames.iter().map(|f| f.to_json()).collect::<Vec<_>>(), "seen": seen}) });
        }
        lines.push("M reset".to_string());
        expect.push("ok".to_string());
        case_of_line.push(k);
        for (i, f) in mine.iter().enumerate() {
            if let Some(s) = seen.get(i) {
                if s.starts_with("other") {
                    break;
                }
                lines.push(f.line());
                expect.push(s.clone());
                case_of_line.push(k);
            }
        }
    }
    if driver_available() {
        match run_driver(&lines) {
            Ok(model) => {
                report.model_used = true;
                report.model_lines = model.len() as u64;
                let mut bad = 0;
                for i in 0..lines.len() {
                    if normalize_model(&model[i]) != expect[i] {
                        if bad == 0 {
                            report.finding(Finding { kind: "disagreement", key: "model-vs-implementation".into(), description: format!("{} -> implementation {} model {}", lines[i], &expect[i][..expect[i].len().min(80)], &model[i][..model[i].len().min(80)]), replay: json!({"property": "C10", "module": "reasm", "seed": opts.seed, "case_index": case_of_line[i], "line": lines[i], "implementation": expect[i], "model": model[i]}) });
                        }
                        bad += 1;
                    }
                }
                report.count_n("lines_disagreeing_with_model", bad);
            }
            Err(e) => report.notes.push(format!("model driver failed: {}", e)),
        }
    } else {
        report.notes.push("model driver not available: correspondence skipped".into());
    }
    // a delivery transferred again after the link was resumed, in several frames
    if opts.property != "C18" {
        for (frames, repeat_tag) in [(1usize, true), (3, true), (3, false), (2, false), (7, false)] {
            report.evaluations += 1;
            report.count("resumed_deliveries");
            report.nontrivial_case(fnv(&format!("resumed{}{}", frames, repeat_tag)));
            let replay = json!({"property": "C10", "module": "reasm", "resumed_delivery": {"frames": frames, "repeat_tag": repeat_tag}});
            match run_resumed_delivery(frames, repeat_tag) {
                Ok((before, after)) => {
                    if before.starts_with("err:") || before != after {
                        report.finding(Finding { kind: "violation", key: "resumed-delivery-differs".into(), description: format!("a delivery received before the link was detached and transferred again (resume = true) in {} frames after the resumption, continuation frames {} the delivery-tag: before `{}`, after `{}`", frames, if repeat_tag { "repeating" } else { "omitting" }, before.chars().take(60).collect::<String>(), after.chars().take(80).collect::<String>()), replay });
                    }
                }
                Err(e) => report.finding(Finding { kind: "violation", key: "resumed-delivery-scenario-failed".into(), description: e, replay }),
            }
        }
    }
    // a delivery that is rewound by its sender (`received` on a continuation transfer that repeats the tag) and
    // sent again from that point, through a real Receiver
    if opts.property != "C18" {
        for (cuts, k, resend_frames) in [(vec![12usize, 24], 5usize, 1usize), (vec![10, 20, 30], 15, 2), (vec![40], 3, 1), (vec![4, 8, 12, 16], 10, 3), (vec![30, 60], 57, 1)] {
            let msg = message_bytes(k as u64 + 5, 70);
            let tag = vec![7u8, 7];
            let mut frames = vec![];
            let mut prev = 0;
            for (i, c) in cuts.iter().enumerate() {
                frames.push(Fr { id: if i == 0 { Some(0) } else { None }, tag: if i == 0 { Some(tag.clone()) } else { None }, fmt: if i == 0 { Some(0) } else { None }, settled: None, more: true, aborted: false, payload: msg[prev..*c].to_vec(), other_link: false, resume: false, lone: false, rewind: None });
                prev = *c;
            }
            // the message opens with a section header: section 1 offset k is octet k
            let rest = &msg[k..];
            let piece = rest.len().div_ceil(resend_frames);
            for (i, p) in rest.chunks(piece).enumerate() {
                let last = (i + 1) * piece >= rest.len();
                frames.push(Fr { id: None, tag: Some(tag.clone()), fmt: None, settled: None, more: !last, aborted: false, payload: p.to_vec(), other_link: false, resume: false, lone: false, rewind: if i == 0 { Some((1, k as u64)) } else { None } });
            }
            let case = Case { frames };
            report.evaluations += 1;
            report.count("rewound_deliveries");
            report.nontrivial_case(fnv(&format!("rewound{:?}{}{}", cuts, k, resend_frames)));
            match run_impl(&case) {
                Ok(seen) => {
                    if let Some((key, desc)) = check_property(&case, &seen) {
                        report.finding(Finding { kind: "violation", key: format!("rewound-delivery:{}", key), description: format!("a delivery received in pieces ending at {:?}, rewound to octet {} (received: section 1, offset {}) and sent again from there in {} frame(s): {}", cuts, k, k, resend_frames, desc), replay: json!({"property": "C10", "module": "reasm", "rewound": {"cuts": cuts, "k": k, "resend_frames": resend_frames}, "frames": case.frames.iter().map(|f| f.to_json()).collect::<Vec<_>>(), "seen": seen}) });
                    }
                }
                Err(e) => report.finding(Finding { kind: "violation", key: "rewound-delivery-scenario-failed".into(), description: e, replay: json!({"property": "C10", "module": "reasm", "rewound": {"cuts": cuts, "k": k}}) }),
            }
        }
    }
    if opts.property != "C18" {
        let n_keep = if opts.thorough() { 20000 } else { 2000 };
        keep_cases(&mut report, &mut rng, n_keep, opts.seed);
    }
    report.write(&opts.report);
    println!("reasm: {} cases, {} non-trivial, {} findings", report.evaluations, report.nontrivial.len(), report.findings.len());
}

/// `position_of_section_number_and_offset` written again (used to draw rewind points that exist)
fn ref_position(flat: &[u8], n: u32, o: u64) -> Option<usize> {
    let is_header = |b0: u8, b1: u8, b2: u8| b0 == 0 && (b1 == 0x53 || b1 == 0x80) && (0x70..=0x78).contains(&b2);
    let (mut cn, mut co) = (0u32, 0u64);
    for i in 0..flat.len().saturating_sub(2) {
        co += 1;
        if is_header(flat[i], flat[i + 1], flat[i + 2]) {
            cn += 1;
            co = 0;
        }
        if cn == n && co == o {
            return Some(i);
        }
    }
    None
}

/// Rewinding a delivery under way (`received` on a continuation transfer): the chunks kept by
/// `IncompleteTransfer::keep_buffer_till_section_number_and_offset`, judged on their own (what is kept is the
/// bytes before the position, nothing else) and compared with the model
pub fn keep_cases(report: &mut Report, rng: &mut Rng, n_cases: usize, seed: u64) {
    let mut lines = vec![];
    let mut got_all = vec![];
    for k in 0..n_cases {
        report.evaluations += 1;
        let msg = if rng.chance(1, 5) {
            // several sections
            let mut m = vec![0x00, 0x53, 0x70, 0x45, 0x00, 0x53, 0x73, 0x45];
            m.extend(message_bytes(rng.next(), *rng.pick(&[0usize, 3, 20])));
            m
        } else {
            message_bytes(rng.next(), *rng.pick(&[0usize, 1, 8, 30, 90]))
        };
        let n_chunks = rng.range(1, 5) as usize;
        let mut cuts: Vec<usize> = (0..n_chunks - 1).map(|_| rng.below(msg.len() as u64 + 1) as usize).collect();
        cuts.sort();
        let mut chunks: Vec<Vec<u8>> = vec![];
        let mut prev = 0;
        for c in cuts.iter().chain(std::iter::once(&msg.len())) {
            chunks.push(msg[prev..*c].to_vec());
            prev = *c;
        }
        // a rewind point that exists (mostly), or any
        let (sn, so) = if rng.chance(3, 4) && msg.len() > 3 {
            let target = rng.below(msg.len() as u64 - 2) as usize;
            // the (number, offset) the counting arrives at on byte `target`
            let is_header = |b0: u8, b1: u8, b2: u8| b0 == 0 && (b1 == 0x53 || b1 == 0x80) && (0x70..=0x78).contains(&b2);
            let (mut cn, mut co) = (0u32, 0u64);
            for i in 0..=target {
                co += 1;
                if is_header(msg[i], msg[i + 1], msg[i + 2]) {
                    cn += 1;
                    co = 0;
                }
            }
            (cn, co)
        } else {
            (rng.below(4) as u32, rng.below(40))
        };
        let kept = fe2o3_amqp::verif::keep_buffer_till(chunks.iter().map(|c| bytes::Bytes::from(c.clone())).collect(), sn, so);
        let flat_kept: Vec<u8> = kept.concat();
        let pos = ref_position(&msg, sn, so);
        report.count(if pos.is_some() { "rewind_points_that_exist" } else { "rewind_points_that_do_not_exist" });
        if chunks.len() > 1 && pos.is_some() {
            report.nontrivial_case(fnv(&format!("keep{}{}{}{:?}", hex(&msg), sn, so, cuts)));
        }
        let want: &[u8] = match pos {
            Some(p) => &msg[..p],
            None => &msg[..],
        };
        if flat_kept != want {
            report.finding(Finding { kind: "violation", key: "rewind-keeps-bytes-beyond-the-point".into(), description: format!("a delivery under way holds {} chunks of {:?} octets; rewound to section {} offset {} (octet {:?} of the delivery) it keeps {} octets in chunks of {:?} instead of the {} octets before the point", chunks.len(), chunks.iter().map(|c| c.len()).collect::<Vec<_>>(), sn, so, pos, flat_kept.len(), kept.iter().map(|c| c.len()).collect::<Vec<_>>(), want.len()), replay: json!({"property": "C10", "module": "reasm", "seed": seed, "keep_case": k, "chunks": chunks.iter().map(|c| hex(c)).collect::<Vec<_>>(), "section_number": sn, "section_offset": so}) });
        }
        let h = |c: &Vec<u8>| if c.is_empty() { "-".to_string() } else { hex(c) };
        lines.push(format!("M keep {} {} {}", sn, so, chunks.iter().map(h).collect::<Vec<_>>().join(" ")));
        got_all.push(kept.iter().map(h).collect::<Vec<_>>().join(" "));
    }
    if driver_available() {
        match run_driver(&lines) {
            Ok(model) => {
                report.model_lines += model.len() as u64;
                let mut bad = 0u64;
                for i in 0..model.len().min(got_all.len()) {
                    if model[i] != got_all[i] {
                        if bad == 0 {
                            report.finding(Finding { kind: "disagreement", key: "keep-model-vs-implementation".into(), description: format!("{} -> implementation [{}] model [{}]", lines[i], got_all[i], model[i]), replay: json!({"property": "C10", "module": "reasm", "seed": seed, "line": lines[i], "implementation": got_all[i], "model": model[i]}) });
                        }
                        bad += 1;
                    }
                }
                report.count_n("keep_lines_compared", model.len() as u64);
                report.count_n("keep_lines_disagreeing_with_model", bad);
            }
            Err(e) => report.notes.push(format!("model driver failed on the keep lines: {}", e)),
        }
    }
}
