//! The listener across the switch from the SASL layer to the AMQP layer (C06, C19).
//!
//! * `cuts` (C06): a client that does not wait — SASL header, sasl-init with the right
//!   credentials, AMQP header and open written back to back — reaches the same result however
//!   its byte stream is split into reads: one write, every two-way cut, chunks of every small
//!   size.  The listener must open the connection on each partition (what it has read past the
//!   end of the SASL exchange belongs to the AMQP layer and must not be lost).
//! * `replay` (C19): the bytes a genuine SCRAM client sent on one connection, replayed on a second
//!   connection to the same listener, must not authenticate (the server nonce is fresh per
//!   exchange, so the recorded proof does not verify again).

use std::sync::{Arc, Mutex};
use std::time::Duration;

use fe2o3_amqp::acceptor::scram::SingleScramCredential;
use fe2o3_amqp::acceptor::{ConnectionAcceptor, SaslPlainMechanism};
use fe2o3_amqp::auth::scram::{ScramAuthenticator, ScramVersion};
use fe2o3_amqp::connection::Connection;
use fe2o3_amqp::sasl_profile::SaslProfile;
use fe2o3_amqp_types::performatives::{Open, Performative};
use fe2o3_amqp_types::primitives::{Binary, Symbol};
use fe2o3_amqp_types::sasl::SaslInit;
use serde_json::json;
use tokio::io::{AsyncReadExt, AsyncWriteExt};

use crate::common::*;
use crate::peer::*;

const USER: &str = "guest";
const PASS: &str = "s3cret";

fn sasl_frame(body: &[u8]) -> Vec<u8> {
    let size = 8 + body.len();
    let mut out = (size as u32).to_be_bytes().to_vec();
    out.extend_from_slice(&[2, 1, 0, 0]);
    out.extend_from_slice(body);
    out
}

/// everything a pipelining PLAIN client writes, and the offsets at which its protocol elements end
fn client_stream() -> (Vec<u8>, Vec<usize>) {
    let mut bytes = SASL_HEADER.to_vec();
    let mut ends = vec![bytes.len()];
    let mut resp = vec![0u8];
    resp.extend_from_slice(USER.as_bytes());
    resp.push(0);
    resp.extend_from_slice(PASS.as_bytes());
    let init = SaslInit { mechanism: Symbol::from("PLAIN"), initial_response: Some(Binary::from(resp)), hostname: None };
    bytes.extend_from_slice(&sasl_frame(&serde_amqp::to_vec(&init).expect("init")));
    ends.push(bytes.len());
    bytes.extend_from_slice(&AMQP_HEADER);
    ends.push(bytes.len());
    let open = Open { container_id: "pipelining-client".into(), hostname: None, max_frame_size: 4096.into(), channel_max: 7.into(), idle_time_out: None, outgoing_locales: None, incoming_locales: None, offered_capabilities: None, desired_capabilities: None, properties: None };
    bytes.extend_from_slice(&Peer::encode_frame(0, &Performative::Open(open), &[]));
    ends.push(bytes.len());
    (bytes, ends)
}

/// feeds `pieces` one write at a time; returns (what accept() returned, whether the listener's open arrived)
fn run_partition(pieces: &[Vec<u8>]) -> (String, bool) {
    let rt = paused_runtime();
    let pieces = pieces.to_vec();
    rt.block_on(async move {
        let (mut cio, sio) = tokio::io::duplex(1 << 16);
        let server = tokio::spawn(async move {
            let acc = ConnectionAcceptor::builder().container_id("listener").sasl_acceptor(SaslPlainMechanism::new(USER.to_string(), PASS.to_string())).build();
            match tokio::time::timeout(Duration::from_secs(10), acc.accept(sio)).await {
                Err(_) => "hang".to_string(),
                Ok(Err(e)) => format!("error:{:?}", e).chars().take(80).collect(),
                Ok(Ok(mut h)) => {
                    tokio::time::sleep(Duration::from_millis(50)).await;
                    let _ = tokio::time::timeout(Duration::from_millis(200), h.close()).await;
                    "opened".to_string()
                }
            }
        });
        for p in pieces.iter() {
            if cio.write_all(p).await.is_err() {
                break;
            }
            let _ = cio.flush().await;
            // let the listener take this piece in a read of its own
            tokio::time::sleep(Duration::from_millis(2)).await;
        }
        // read what the listener wrote: look for an AMQP open frame (type 0 frame after the second header)
        let mut got: Vec<u8> = vec![];
        let mut buf = [0u8; 4096];
        loop {
            match tokio::time::timeout(Duration::from_millis(500), cio.read(&mut buf)).await {
                Ok(Ok(n)) if n > 0 => got.extend_from_slice(&buf[..n]),
                _ => break,
            }
        }
        let accept = server.await.unwrap_or_else(|_| "panic".into());
        // the listener writes: SASL header, mechanisms, outcome, AMQP header, open
        let amqp_hdr_at = got.windows(8).position(|w| w == AMQP_HEADER);
        let open_seen = amqp_hdr_at.map(|i| got.len() > i + 8 + 8).unwrap_or(false);
        (accept, open_seen)
    })
}

fn cuts(report: &mut Report, prop: &str, thorough: bool) {
    let (bytes, ends) = client_stream();
    let mut partitions: Vec<(String, Vec<Vec<u8>>)> = vec![];
    partitions.push(("one-write".into(), vec![bytes.clone()]));
    partitions.push(("one-write-per-element".into(), {
        let mut v = vec![];
        let mut at = 0;
        for e in ends.iter() {
            v.push(bytes[at..*e].to_vec());
            at = *e;
        }
        v
    }));
    let step = if thorough { 1 } else { 1 };
    for k in (1..bytes.len()).step_by(step) {
        partitions.push((format!("cut-at-{}", k), vec![bytes[..k].to_vec(), bytes[k..].to_vec()]));
    }
    for size in [1usize, 2, 3, 5, 8, 13, 21, 34, 64] {
        partitions.push((format!("chunks-of-{}", size), bytes.chunks(size).map(|c| c.to_vec()).collect()));
    }
    for (name, pieces) in partitions.iter() {
        report.evaluations += 1;
        report.count("partitions");
        let (accept, open_seen) = run_partition(pieces);
        if pieces.len() > 1 {
            report.nontrivial_case(fnv(name));
        }
        if accept != "opened" || !open_seen {
            let aligned = name.starts_with("cut-at-") && ends.contains(&pieces[0].len());
            report.finding(Finding {
                kind: "violation",
                key: "listener-depends-on-read-boundaries".into(),
                description: format!(
                    "a pipelining client (SASL header, init, AMQP header, open: {} bytes, elements end at {:?}) written as `{}`{}: accept() = {}, the listener's open {}; written one element per read the connection opens",
                    bytes.len(),
                    ends,
                    name,
                    if aligned { " (on an element boundary)" } else { "" },
                    accept,
                    if open_seen { "arrived" } else { "never arrived" }
                ),
                replay: json!({"property": prop, "module": "pipeline", "partition": name, "pieces": pieces.iter().map(|p| hex(p)).collect::<Vec<_>>()}),
            });
        }
    }
}

// ------------------------------------------------------------------------------- replay

/// copies both directions between the two streams and records what the client wrote
async fn recording_proxy(mut client_side: tokio::io::DuplexStream, mut server_side: tokio::io::DuplexStream, log: Arc<Mutex<Vec<u8>>>) {
    let mut a = [0u8; 4096];
    let mut b = [0u8; 4096];
    loop {
        tokio::select! {
            r = client_side.read(&mut a) => match r {
                Ok(n) if n > 0 => {
                    log.lock().unwrap().extend_from_slice(&a[..n]);
                    if server_side.write_all(&a[..n]).await.is_err() { break; }
                }
                _ => break,
            },
            r = server_side.read(&mut b) => match r {
                Ok(n) if n > 0 => {
                    if client_side.write_all(&b[..n]).await.is_err() { break; }
                }
                _ => break,
            },
        }
    }
}

fn replay(report: &mut Report, prop: &str) {
    for (vname, version) in [("SCRAM-SHA-1", ScramVersion::Sha1), ("SCRAM-SHA-256", ScramVersion::Sha256), ("SCRAM-SHA-512", ScramVersion::Sha512)] {
        report.evaluations += 1;
        report.count("replays");
        let rt = paused_runtime();
        let vname_s = vname.to_string();
        let (first, second, recorded_len) = rt.block_on(async move {
            let cred = SingleScramCredential::new(USER.to_string(), PASS.to_string(), version.clone()).expect("credential");
            let acc = ConnectionAcceptor::builder().container_id("listener").sasl_acceptor(ScramAuthenticator::new(Arc::new(cred))).build();
            let acc = Arc::new(acc);
            // 1. a genuine client, observed
            let (cio, proxy_c) = tokio::io::duplex(1 << 16);
            let (proxy_s, sio) = tokio::io::duplex(1 << 16);
            let log = Arc::new(Mutex::new(Vec::new()));
            let proxy = tokio::spawn(recording_proxy(proxy_c, proxy_s, log.clone()));
            let acc1 = acc.clone();
            let server1 = tokio::spawn(async move {
                match tokio::time::timeout(Duration::from_secs(10), acc1.accept(sio)).await {
                    Ok(Ok(mut h)) => {
                        tokio::time::sleep(Duration::from_millis(100)).await;
                        let _ = tokio::time::timeout(Duration::from_millis(300), h.close()).await;
                        "opened".to_string()
                    }
                    Ok(Err(e)) => format!("error:{:?}", e).chars().take(60).collect(),
                    Err(_) => "hang".to_string(),
                }
            });
            let profile = match vname_s.as_str() {
                "SCRAM-SHA-1" => SaslProfile::ScramSha1(fe2o3_amqp::sasl_profile::SaslScramSha1::new(USER, PASS)),
                "SCRAM-SHA-256" => SaslProfile::ScramSha256(fe2o3_amqp::sasl_profile::SaslScramSha256::new(USER, PASS)),
                _ => SaslProfile::ScramSha512(fe2o3_amqp::sasl_profile::SaslScramSha512::new(USER, PASS)),
            };
            let client = tokio::time::timeout(Duration::from_secs(10), Connection::builder().container_id("genuine").sasl_profile(profile).open_with_stream(cio)).await;
            let genuine_ok = matches!(client, Ok(Ok(_)));
            if let Ok(Ok(mut c)) = client {
                let _ = tokio::time::timeout(Duration::from_millis(500), c.close()).await;
            }
            let first = server1.await.unwrap_or_else(|_| "panic".into());
            proxy.abort();
            let recorded: Vec<u8> = log.lock().unwrap().clone();
            // 2. the recorded bytes on a second connection to the same listener
            let (mut cio2, sio2) = tokio::io::duplex(1 << 16);
            let acc2 = acc.clone();
            let server2 = tokio::spawn(async move {
                match tokio::time::timeout(Duration::from_secs(10), acc2.accept(sio2)).await {
                    Ok(Ok(mut h)) => {
                        let _ = tokio::time::timeout(Duration::from_millis(300), h.close()).await;
                        "opened".to_string()
                    }
                    Ok(Err(_)) => "refused".to_string(),
                    Err(_) => "hang".to_string(),
                }
            });
            // frame by frame pace: the listener answers each in turn
            let mut at = 0usize;
            let mut first_piece = true;
            while at < recorded.len() {
                let n = if first_piece { 8 } else if recorded.len() - at >= 4 { (u32::from_be_bytes([recorded[at], recorded[at + 1], recorded[at + 2], recorded[at + 3]]) as usize).clamp(8, recorded.len() - at) } else { recorded.len() - at };
                // an AMQP header in the recording is 8 bytes starting with "AMQP"
                let n = if recorded[at..].starts_with(b"AMQP") { 8 } else { n };
                first_piece = false;
                if cio2.write_all(&recorded[at..at + n]).await.is_err() {
                    break;
                }
                at += n;
                tokio::time::sleep(Duration::from_millis(5)).await;
            }
            let mut sink = [0u8; 4096];
            for _ in 0..20 {
                if tokio::time::timeout(Duration::from_millis(50), cio2.read(&mut sink)).await.is_err() {
                    break;
                }
            }
            drop(cio2);
            let second = server2.await.unwrap_or_else(|_| "panic".into());
            (if genuine_ok { first } else { format!("client-failed/{}", first) }, second, recorded.len())
        });
        if first != "opened" {
            report.finding(Finding { kind: "violation", key: "scram-genuine-client-refused".into(), description: format!("{}: a client with the right password was not let in: {}", vname, first), replay: json!({"property": prop, "module": "pipeline", "replay": vname}) });
        } else {
            report.nontrivial_case(fnv(vname));
        }
        if second == "opened" {
            report.finding(Finding { kind: "violation", key: "scram-replay-accepted".into(), description: format!("{}: the {} bytes a genuine client had sent on one connection, replayed on a second connection to the same listener, opened a connection (the server nonce was not fresh)", vname, recorded_len), replay: json!({"property": prop, "module": "pipeline", "replay": vname}) });
        }
    }
}

pub fn main(opts: &Opts) {
    let prop = if opts.property.is_empty() { "C06".to_string() } else { opts.property.clone() };
    let mut report = Report::new(&prop, "listener across the SASL -> AMQP switch: a pipelining PLAIN client under every two-way cut and small chunk sizes (C06); a recorded genuine SCRAM exchange replayed on a second connection (C19)");
    // no model of its own: what is judged is independence of the read boundaries (C06's stream_partition_indep
    // is the theorem) and freshness of the server nonce (an assumption of C19's scram_replay_needs_same_nonce)
    report.model_used = true;
    if prop != "C19" {
        cuts(&mut report, &prop, opts.thorough());
    }
    if prop != "C06" {
        replay(&mut report, &prop);
    }
    report.write(&opts.report);
    println!("pipeline: {} cases, {} non-trivial, {} findings", report.evaluations, report.nontrivial.len(), report.findings.len());
}
