//! C13 — session and link lifecycles.  (work in progress: spin probe first)

use std::time::Duration;

use serde_json::json;

use crate::common::*;
use crate::spinprobe::{probe, Wait};

pub fn spin_checks(report: &mut Report, property: &str) {
    for which in [Wait::SessionEnd, Wait::ConnectionClose] {
        report.evaluations += 1;
        match probe(which, Duration::from_millis(150)) {
            Ok((wall, cpu, done)) => {
                report.count_n(&format!("spin_probe_{:?}_cpu_permille_of_wall", which), if wall == 0 { 0 } else { cpu * 1000 / wall });
                report.nontrivial_case(fnv(&format!("spin{:?}", which)));
                if wall == 0 {
                    report.finding(Finding { kind: "violation", key: format!("spin-probe-not-reached:{:?}", which), description: "the endpoint never sent the frame the probe waits for".into(), replay: json!({"property": property, "module": "life", "spin": format!("{:?}", which)}) });
                } else if cpu * 2 > wall {
                    report.finding(Finding {
                        kind: "violation",
                        key: format!("busy-wait:{:?}", which),
                        description: format!("while waiting {} ms for the peer's answer the endpoint's thread burnt {} ms of CPU: its event loop polls a closed channel in a tight loop", wall / 1_000_000, cpu / 1_000_000),
                        replay: json!({"property": property, "module": "life", "spin": format!("{:?}", which)}),
                    });
                }
                if !done {
                    report.finding(Finding { kind: "violation", key: format!("teardown-incomplete:{:?}", which), description: "end/close did not return Ok after the peer answered".into(), replay: json!({"property": property, "module": "life", "spin": format!("{:?}", which)}) });
                }
            }
            Err(e) => report.finding(Finding { kind: "violation", key: format!("spin-probe-failed:{:?}", which), description: e, replay: json!({"property": property, "module": "life", "spin": format!("{:?}", which)}) }),
        }
    }
}

pub fn main(opts: &Opts) {
    let mut report = Report::new("C13", "lifecycle scenarios against a scripted peer");
    spin_checks(&mut report, "C13");
    report.write(&opts.report);
    println!("life: {} cases, {} findings", report.evaluations, report.findings.len());
    for f in &report.findings {
        println!("  {} {}: {}", f.kind, f.key, f.description);
    }
}
