//! C13 — session and link lifecycles.  A real client (1..2 sessions, 0..3 links) against a
//! scripted peer that answers handshakes, may withhold its answers for a while, and may end
//! sessions / detach links on its own, with and without errors.  The frames the client writes
//! are recorded event by event with virtual timestamps, together with the moment every local
//! end / detach / close call returned and what it returned.

use std::collections::BTreeMap;
use std::sync::{Arc, Mutex};
use std::time::Duration;

use fe2o3_amqp::link::receiver::CreditMode;
use fe2o3_amqp::link::sender::Sender;
use fe2o3_amqp::link::delivery::Sendable;
use fe2o3_amqp::session::SessionHandle;
use fe2o3_amqp::{Connection, Receiver, Session};
use fe2o3_amqp_types::definitions::{self, AmqpError, Handle, ReceiverSettleMode, Role};
use fe2o3_amqp_types::messaging::Message;
use fe2o3_amqp_types::performatives::{Attach, Begin, Close, Detach, End, Flow, Performative};
use serde_amqp::Value;
use serde_json::{json, Value as J};
use tokio::sync::mpsc;

use crate::common::*;
use crate::peer::*;
use crate::spinprobe::{probe, Wait};

#[derive(Clone, Debug, PartialEq)]
pub enum Ev {
    /// local `Session::end` / `end_with_error`
    SEnd(usize, bool),
    SDrop(usize),
    LDetach(usize),
    LClose(usize),
    LCloseErr(usize),
    LDrop(usize),
    /// a pre-settled send on a sender link / a short `recv` on a receiver link
    LTouch(usize),
    PEnd(usize, bool),
    /// peer detaches link: closed?, with error?
    PDetach(usize, bool, bool),
    /// the peer stops / resumes answering detach and end (withheld answers are sent on resume)
    Hold(bool),
    /// the peer re-opens the session's incoming-window
    PWindow(usize),
    /// the peer sends a flow for a handle that is not attached (the session must end with an error, nothing else)
    PBogus(usize),
    /// the peer sends a complete (settled) delivery on a receiving link; the application does not read it
    /// (it waits in the link's queue, ahead of whatever the peer says next)
    PFeed(usize),
    /// the application waits (briefly) for the peer's detach on a sending link: `Sender::on_detach`, which takes
    /// note of a detach that has arrived and answers nothing
    LWatch(usize),
}

impl Ev {
    fn line(&self) -> String {
        match self {
            Ev::SEnd(s, e) => format!("send {} {}", s, *e as u8),
            Ev::SDrop(s) => format!("sdrop {}", s),
            Ev::LDetach(l) => format!("ldetach {}", l),
            Ev::LClose(l) => format!("lclose {}", l),
            Ev::LCloseErr(l) => format!("lcloseerr {}", l),
            Ev::LDrop(l) => format!("ldrop {}", l),
            Ev::LTouch(l) => format!("ltouch {}", l),
            Ev::PEnd(s, e) => format!("pend {} {}", s, *e as u8),
            Ev::PDetach(l, c, e) => format!("pdetach {} {} {}", l, *c as u8, *e as u8),
            Ev::Hold(h) => format!("hold {}", *h as u8),
            Ev::PWindow(s) => format!("pwindow {}", s),
            Ev::PBogus(s) => format!("pbogus {}", s),
            Ev::PFeed(l) => format!("pfeed {}", l),
            Ev::LWatch(l) => format!("lwatch {}", l),
        }
    }
    fn parse(s: &str) -> Option<Ev> {
        let w: Vec<&str> = s.split(' ').collect();
        let n = |i: usize| w.get(i).and_then(|x| x.parse::<usize>().ok());
        Some(match w.first()? {
            &"send" => Ev::SEnd(n(1)?, n(2)? == 1),
            &"sdrop" => Ev::SDrop(n(1)?),
            &"ldetach" => Ev::LDetach(n(1)?),
            &"lclose" => Ev::LClose(n(1)?),
            &"lcloseerr" => Ev::LCloseErr(n(1)?),
            &"ldrop" => Ev::LDrop(n(1)?),
            &"ltouch" => Ev::LTouch(n(1)?),
            &"pend" => Ev::PEnd(n(1)?, n(2)? == 1),
            &"pdetach" => Ev::PDetach(n(1)?, n(2)? == 1, n(3)? == 1),
            &"hold" => Ev::Hold(n(1)? == 1),
            &"pwindow" => Ev::PWindow(n(1)?),
            &"pbogus" => Ev::PBogus(n(1)?),
            &"pfeed" => Ev::PFeed(n(1)?),
            &"lwatch" => Ev::LWatch(n(1)?),
            _ => return None,
        })
    }
}

#[derive(Clone, Debug)]
pub struct Case {
    pub sessions: usize,
    /// (session index, is sender)
    pub links: Vec<(usize, bool)>,
    pub events: Vec<Ev>,
    /// let the peer's detach cross a local detach / close of the other kind (closing vs not); off for
    /// generated cases: that path has a recorded finding and is exercised by fixed corpus cases only
    pub allow_mismatch: bool,
    /// incoming-window the peer grants at begin (and again at every `PWindow`)
    pub window: u32,
}

impl Case {
    pub fn to_json(&self) -> J {
        json!({"sessions": self.sessions, "links": self.links.iter().map(|(s, r)| json!([s, r])).collect::<Vec<_>>(), "events": self.events.iter().map(|e| e.line()).collect::<Vec<_>>(), "allow_mismatch": self.allow_mismatch, "window": self.window})
    }
    pub fn from_json(j: &J) -> Option<Case> {
        Some(Case {
            sessions: j.get("sessions")?.as_u64()? as usize,
            links: j.get("links")?.as_array()?.iter().filter_map(|x| Some((x.get(0)?.as_u64()? as usize, x.get(1)?.as_bool()?))).collect(),
            events: j.get("events")?.as_array()?.iter().filter_map(|x| x.as_str().and_then(Ev::parse)).collect(),
            allow_mismatch: j.get("allow_mismatch").and_then(|x| x.as_bool()).unwrap_or(false),
            window: j.get("window").and_then(|x| x.as_u64()).unwrap_or(1000) as u32,
        })
    }
}

/// a frame written by the client, as the peer saw it
#[derive(Clone, Debug, PartialEq)]
pub struct Seen {
    pub t_ms: u64,
    pub ch: u16,
    /// begin end attach detach transfer flow disposition close other
    pub kind: &'static str,
    pub handle: Option<u32>,
    pub closed: bool,
    pub error: bool,
}

enum Cmd {
    End(u16, bool),
    Detach(u16, u32, bool, bool),
    Hold(bool),
    Window(u16),
    Bogus(u16),
    Feed(u16, u32),
}

#[derive(Clone, Debug, Default)]
pub struct Observed {
    /// index into `frames` at the start of every event (len = events + 1)
    pub marks: Vec<usize>,
    pub frames: Vec<Seen>,
    /// local calls: (event index it was issued at, what, virtual ms it returned at or None, result)
    pub calls: Vec<(usize, String, Option<u64>, String)>,
    /// virtual time at the start of each event
    pub t_event: Vec<u64>,
    /// virtual times at which the peer sent its (possibly withheld) answers: (channel, handle or None for end, t)
    pub answers: Vec<(u16, Option<u32>, u64)>,
    /// final probes: ("connection" | "session <i>", ok?)
    pub probes: Vec<(String, bool, String)>,
    pub errors: Vec<String>,
}

type Log = Arc<Mutex<(Vec<Seen>, Vec<(u16, Option<u32>, u64)>)>>;

fn amqp_err(s: &str) -> definitions::Error {
    definitions::Error::new(AmqpError::InternalError, Some(s.to_string()), None)
}

/// the scripted peer: answers begin / attach at once; detach and end unless holding
async fn peer_task(mut peer: Peer, mut cmds: mpsc::UnboundedReceiver<Cmd>, log: Log, start: tokio::time::Instant, window: u32) {
    let mut transfers_seen: BTreeMap<u16, u32> = BTreeMap::new();
    let mut fed: BTreeMap<u16, u32> = BTreeMap::new();
    let now = |s: tokio::time::Instant| s.elapsed().as_millis() as u64;
    if peer.accept_open(&PeerOpen::default()).await.is_err() {
        return;
    }
    let mut holding = false;
    let mut held: Vec<(u16, Performative)> = vec![];
    // our own ends / detaches that await the client's answer: the client's frame is then a reply, not a request
    let mut our_ends: Vec<u16> = vec![];
    let mut our_detaches: Vec<(u16, u32)> = vec![];
    peer.recv_timeout = Duration::from_secs(3600);
    loop {
        tokio::select! {
            c = cmds.recv() => {
                match c {
                    None => break,
                    Some(Cmd::End(ch, err)) => {
                        if let Some(i) = held.iter().position(|(c, p)| *c == 10 + ch && matches!(p, Performative::End(_))) {
                            // the client's end is already here: ours is the answer to it
                            held.remove(i);
                            log.lock().unwrap().1.push((ch, None, now(start)));
                        } else {
                            our_ends.push(ch);
                        }
                        // nothing is said about the links of a session that is being ended
                        held.retain(|(c, _)| *c != 10 + ch);
                        let _ = peer.send(10 + ch, Performative::End(End { error: if err { Some(amqp_err("peer-end")) } else { None } }), &[]).await;
                    }
                    Some(Cmd::Detach(ch, h, closed, err)) => {
                        if let Some(i) = held.iter().position(|(c, p)| *c == 10 + ch && matches!(p, Performative::Detach(d) if d.handle.0 == 20 + h)) {
                            held.remove(i);
                            log.lock().unwrap().1.push((ch, Some(h), now(start)));
                        } else {
                            our_detaches.push((ch, h));
                        }
                        let _ = peer.send(10 + ch, Performative::Detach(Detach { handle: Handle(20 + h), closed, error: if err { Some(amqp_err("peer-detach")) } else { None } }), &[]).await;
                    }
                    Some(Cmd::Window(ch)) => {
                        let f = Flow { next_incoming_id: Some(*transfers_seen.get(&ch).unwrap_or(&0)), incoming_window: 1000, next_outgoing_id: 0, outgoing_window: 1000, handle: None, delivery_count: None, link_credit: None, available: None, drain: false, echo: false, properties: None };
                        let _ = peer.send(10 + ch, Performative::Flow(f), &[]).await;
                    }
                    Some(Cmd::Bogus(ch)) => {
                        let f = Flow { next_incoming_id: Some(0), incoming_window: 1000, next_outgoing_id: 0, outgoing_window: 1000, handle: Some(Handle(99)), delivery_count: Some(0), link_credit: Some(1), available: None, drain: false, echo: false, properties: None };
                        let _ = peer.send(10 + ch, Performative::Flow(f), &[]).await;
                    }
                    Some(Cmd::Feed(ch, h)) => {
                        let id = fed.entry(ch).or_insert(0);
                        let t = transfer(20 + h, Some(*id), Some(id.to_be_bytes().to_vec()), Some(true), false);
                        *id += 1;
                        let _ = peer.send(10 + ch, Performative::Transfer(t), &message_bytes(7, 8)).await;
                    }
                    Some(Cmd::Hold(h)) => {
                        holding = h;
                        if !h {
                            for (ch, p) in held.drain(..) {
                                let hd = match &p { Performative::Detach(d) => Some(d.handle.0 - 20), _ => None };
                                log.lock().unwrap().1.push((ch - 10, hd, now(start)));
                                let _ = peer.send(ch, p, &[]).await;
                            }
                        }
                    }
                }
            }
            r = peer.recv() => {
                match r {
                    Ok(Incoming::Frame { channel, performative, .. }) => {
                        let mut seen = Seen { t_ms: now(start), ch: channel, kind: "other", handle: None, closed: false, error: false };
                        match &performative {
                            Performative::Begin(_) => {
                                seen.kind = "begin";
                                let b = Begin { remote_channel: Some(channel), next_outgoing_id: 0, incoming_window: window, outgoing_window: 1000, handle_max: Handle(100), offered_capabilities: None, desired_capabilities: None, properties: None };
                                let _ = peer.send(10 + channel, Performative::Begin(b), &[]).await;
                            }
                            Performative::Attach(a) => {
                                seen.kind = "attach";
                                seen.handle = Some(a.handle.0);
                                let sender = matches!(a.role, Role::Sender);
                                let ours = Attach {
                                    name: a.name.clone(), handle: Handle(20 + a.handle.0), role: if sender { Role::Receiver } else { Role::Sender },
                                    snd_settle_mode: a.snd_settle_mode.clone(), rcv_settle_mode: ReceiverSettleMode::First,
                                    source: a.source.clone(), target: a.target.clone(), unsettled: None, incomplete_unsettled: false,
                                    initial_delivery_count: if sender { None } else { Some(0) }, max_message_size: None,
                                    offered_capabilities: None, desired_capabilities: None, properties: None };
                                let _ = peer.send(10 + channel, Performative::Attach(ours), &[]).await;
                                if sender {
                                    let f = Flow { next_incoming_id: Some(*transfers_seen.get(&channel).unwrap_or(&0)), incoming_window: window.saturating_sub(0), next_outgoing_id: 0, outgoing_window: 1000, handle: Some(Handle(20 + a.handle.0)), delivery_count: Some(a.initial_delivery_count.unwrap_or(0)), link_credit: Some(100), available: None, drain: false, echo: false, properties: None };
                                    let _ = peer.send(10 + channel, Performative::Flow(f), &[]).await;
                                }
                            }
                            Performative::Detach(d) => {
                                seen.kind = "detach";
                                seen.handle = Some(d.handle.0);
                                seen.closed = d.closed;
                                seen.error = d.error.is_some();
                                if let Some(i) = our_detaches.iter().position(|x| *x == (channel, d.handle.0)) {
                                    our_detaches.remove(i); // the client's answer to our detach
                                } else {
                                    let reply = Performative::Detach(Detach { handle: Handle(20 + d.handle.0), closed: d.closed, error: None });
                                    if holding {
                                        held.push((10 + channel, reply));
                                    } else {
                                        log.lock().unwrap().1.push((channel, Some(d.handle.0), now(start)));
                                        let _ = peer.send(10 + channel, reply, &[]).await;
                                    }
                                }
                            }
                            Performative::End(e) => {
                                seen.kind = "end";
                                seen.error = e.error.is_some();
                                held.retain(|(c, p)| !(*c == 10 + channel && matches!(p, Performative::Detach(_))));
                                if let Some(i) = our_ends.iter().position(|x| *x == channel) {
                                    our_ends.remove(i);
                                } else {
                                    let reply = Performative::End(End { error: None });
                                    if holding {
                                        held.push((10 + channel, reply));
                                    } else {
                                        log.lock().unwrap().1.push((channel, None, now(start)));
                                        let _ = peer.send(10 + channel, reply, &[]).await;
                                    }
                                }
                            }
                            Performative::Transfer(t) => {
                                *transfers_seen.entry(channel).or_insert(0) += 1;
                                seen.kind = "transfer";
                                seen.handle = Some(t.handle.0);
                            }
                            Performative::Flow(f) => {
                                seen.kind = "flow";
                                seen.handle = f.handle.as_ref().map(|h| h.0);
                            }
                            Performative::Disposition(_) => seen.kind = "disposition",
                            Performative::Close(c) => {
                                seen.kind = "close";
                                seen.error = c.error.is_some();
                                log.lock().unwrap().0.push(seen);
                                let _ = peer.send(0, Performative::Close(Close { error: None }), &[]).await;
                                continue;
                            }
                            Performative::Open(_) => seen.kind = "open",
                        }
                        log.lock().unwrap().0.push(seen);
                    }
                    Ok(Incoming::Empty { .. }) => {}
                    Err(_) => break,
                }
            }
        }
    }
}

enum Link {
    S(Sender),
    R(Receiver),
}

pub fn run(case: &Case) -> Observed {
    let rt = paused_runtime();
    let case = case.clone();
    rt.block_on(async move {
        let mut obs = Observed::default();
        let start = tokio::time::Instant::now();
        let now = move || start.elapsed().as_millis() as u64;
        let (cio, pio) = tokio::io::duplex(1 << 18);
        let log: Log = Arc::new(Mutex::new((vec![], vec![])));
        let (ctx, crx) = mpsc::unbounded_channel();
        let ptask = tokio::spawn(peer_task(Peer::new(pio), crx, log.clone(), start, case.window));
        let mut conn = match Connection::builder().container_id("c13").open_with_stream(cio).await {
            Ok(c) => c,
            Err(e) => {
                obs.errors.push(format!("open: {:?}", e));
                return obs;
            }
        };
        let mut sessions: Vec<Option<SessionHandle<()>>> = vec![];
        let mut session_ch: Vec<u16> = vec![];
        for i in 0..case.sessions {
            match Session::begin(&mut conn).await {
                Ok(s) => {
                    sessions.push(Some(s));
                    session_ch.push(i as u16);
                }
                Err(e) => {
                    obs.errors.push(format!("begin: {:?}", e));
                    return obs;
                }
            }
        }
        let mut links: Vec<Option<Link>> = vec![];
        // handle of each link within its session: allocation order per session
        let mut link_handle: Vec<u32> = vec![];
        let mut per_session_count = vec![0u32; case.sessions];
        for (i, (s, is_sender)) in case.links.iter().enumerate() {
            let sh = sessions[*s].as_mut().unwrap();
            let l = if *is_sender {
                Sender::builder().name(format!("l{}", i)).target("q").attach(sh).await.map(Link::S).map_err(|e| format!("{:?}", e))
            } else {
                Receiver::builder().name(format!("l{}", i)).source("q").credit_mode(CreditMode::Manual).attach(sh).await.map(Link::R).map_err(|e| format!("{:?}", e))
            };
            match l {
                Ok(l) => links.push(Some(l)),
                Err(e) => {
                    obs.errors.push(format!("attach: {}", e));
                    return obs;
                }
            }
            link_handle.push(per_session_count[*s]);
            per_session_count[*s] += 1;
        }
        tokio::time::sleep(Duration::from_millis(20)).await;
        type CallResult = (usize, String, Option<u64>, String);
        let calls: Arc<Mutex<Vec<CallResult>>> = Arc::new(Mutex::new(vec![]));
        let mut tasks = vec![];
        // what the peer knows to be gone (it only speaks about what is still there)
        let mut sess_gone = vec![false; case.sessions];
        let mut link_gone = vec![false; case.links.len()];
        // local end / detach sent while the peer withholds its answer: the peer's own end / detach then crosses it
        let mut holding = false;
        let mut sess_pending = vec![false; case.sessions];
        let mut link_pending = vec![false; case.links.len()];
        let mut link_pending_closing = vec![false; case.links.len()];
        for (i, ev) in case.events.iter().enumerate() {
            obs.marks.push(log.lock().unwrap().0.len());
            obs.t_event.push(now());
            match ev {
                Ev::SEnd(s, err) => {
                    if let Some(mut sh) = sessions.get_mut(*s).and_then(|x| x.take()) {
                        let idx = {
                            let mut c = calls.lock().unwrap();
                            c.push((i, format!("end session {}", s), None, "pending".into()));
                            c.len() - 1
                        };
                        let calls2 = calls.clone();
                        let err = *err;
                        tasks.push(tokio::spawn(async move {
                            let r = if err { sh.end_with_error(amqp_err("local-end")).await } else { sh.end().await };
                            let mut c = calls2.lock().unwrap();
                            c[idx].2 = Some(start.elapsed().as_millis() as u64);
                            c[idx].3 = match r {
                                Ok(()) => "ok".into(),
                                Err(e) => format!("{:?}", e).split('(').next().unwrap_or("").to_string(),
                            };
                        }));
                    }
                }
                Ev::SDrop(s) => {
                    if let Some(x) = sessions.get_mut(*s) {
                        x.take();
                    }
                }
                Ev::LDetach(l) | Ev::LClose(l) | Ev::LCloseErr(l) => {
                    if let Some(link) = links.get_mut(*l).and_then(|x| x.take()) {
                        let what = match ev {
                            Ev::LDetach(_) => "detach",
                            Ev::LClose(_) => "close",
                            _ => "closeerr",
                        };
                        let idx = {
                            let mut c = calls.lock().unwrap();
                            c.push((i, format!("{} link {}", what, l), None, "pending".into()));
                            c.len() - 1
                        };
                        let calls2 = calls.clone();
                        tasks.push(tokio::spawn(async move {
                            let r: Result<(), String> = match (link, what) {
                                (Link::S(s), "detach") => s.detach().await.map(|_| ()).map_err(|(_, e)| format!("{:?}", e)),
                                (Link::S(s), "close") => s.close().await.map_err(|e| format!("{:?}", e)),
                                (Link::S(s), _) => s.close_with_error(amqp_err("local-close")).await.map_err(|e| format!("{:?}", e)),
                                (Link::R(r), "detach") => r.detach().await.map(|_| ()).map_err(|(_, e)| format!("{:?}", e)),
                                (Link::R(r), "close") => r.close().await.map_err(|e| format!("{:?}", e)),
                                (Link::R(r), _) => r.close_with_error(amqp_err("local-close")).await.map_err(|e| format!("{:?}", e)),
                            };
                            let mut c = calls2.lock().unwrap();
                            c[idx].2 = Some(start.elapsed().as_millis() as u64);
                            c[idx].3 = match r {
                                Ok(()) => "ok".into(),
                                Err(e) => e.split('(').next().unwrap_or("").to_string(),
                            };
                        }));
                    }
                }
                Ev::LDrop(l) => {
                    if let Some(x) = links.get_mut(*l) {
                        x.take();
                    }
                }
                Ev::LWatch(l) => {
                    if let Some(Some(Link::S(s))) = links.get_mut(*l) {
                        let _ = tokio::time::timeout(Duration::from_millis(10), s.on_detach()).await;
                    }
                }
                Ev::LTouch(l) => {
                    if let Some(Some(link)) = links.get_mut(*l) {
                        match link {
                            Link::S(s) => {
                                let sendable = Sendable::builder().message(Message::from(Value::Bool(true))).settled(true).build();
                                let _ = tokio::time::timeout(Duration::from_millis(10), s.send(sendable)).await;
                            }
                            Link::R(r) => {
                                let _ = tokio::time::timeout(Duration::from_millis(10), r.recv::<Value>()).await;
                            }
                        }
                    }
                }
                Ev::PEnd(s, err) => {
                    if let Some(ch) = session_ch.get(*s) {
                        if !sess_gone[*s] || sess_pending[*s] {
                            sess_pending[*s] = false;
                            let _ = ctx.send(Cmd::End(*ch, *err));
                        }
                    }
                }
                Ev::PDetach(l, closed, err) => {
                    if let Some((s, _)) = case.links.get(*l) {
                        // frames the peer has in flight while it has not yet answered (or seen) the session's end are legal
                        if (!sess_gone[*s] && !link_gone[*l]) || (link_pending[*l] && !sess_gone[*s]) || (sess_pending[*s] && !link_gone[*l]) {
                            // a crossing detach is of the same kind as the local one unless the case says otherwise
                            let closed = if link_pending[*l] && !case.allow_mismatch { link_pending_closing[*l] } else { *closed };
                            link_pending[*l] = false;
                            let _ = ctx.send(Cmd::Detach(session_ch[*s], link_handle[*l], closed, *err));
                        }
                    }
                }
                Ev::Hold(h) => {
                    let _ = ctx.send(Cmd::Hold(*h));
                }
                Ev::PWindow(s) => {
                    if let Some(ch) = session_ch.get(*s) {
                        if !sess_gone[*s] {
                            let _ = ctx.send(Cmd::Window(*ch));
                        }
                    }
                }
                Ev::PFeed(l) => {
                    if let Some((s, is_sender)) = case.links.get(*l) {
                        if !*is_sender && !sess_gone[*s] && !link_gone[*l] && !link_pending[*l] {
                            let _ = ctx.send(Cmd::Feed(session_ch[*s], link_handle[*l]));
                        }
                    }
                }
                Ev::PBogus(s) => {
                    if let Some(ch) = session_ch.get(*s) {
                        // also while the session's end (provoked by an earlier one) is not yet answered
                        if !sess_gone[*s] || sess_pending[*s] {
                            let _ = ctx.send(Cmd::Bogus(*ch));
                        }
                    }
                }
            }
            match ev {
                Ev::Hold(h) => {
                    holding = *h;
                    if !holding {
                        sess_pending.iter_mut().for_each(|x| *x = false);
                        link_pending.iter_mut().for_each(|x| *x = false);
                    }
                }
                Ev::SEnd(s, _) | Ev::PBogus(s) if *s < case.sessions && holding && !sess_gone[*s] => {
                    sess_pending[*s] = true;
                    sess_gone[*s] = true;
                }
                Ev::PBogus(s) if *s < case.sessions => sess_gone[*s] = true,
                Ev::LDetach(l) | Ev::LClose(l) | Ev::LCloseErr(l) if *l < case.links.len() && holding && !link_gone[*l] && !sess_gone[case.links[*l].0] => {
                    link_pending[*l] = true;
                    link_pending_closing[*l] = !matches!(ev, Ev::LDetach(_));
                    link_gone[*l] = true;
                }
                Ev::SEnd(s, _) | Ev::SDrop(s) | Ev::PEnd(s, _) => {
                    if *s < case.sessions {
                        sess_gone[*s] = true;
                    }
                }
                Ev::LDetach(l) | Ev::LClose(l) | Ev::LCloseErr(l) | Ev::LDrop(l) | Ev::PDetach(l, _, _) => {
                    if *l < case.links.len() {
                        link_gone[*l] = true;
                    }
                }
                _ => {}
            }
            tokio::time::sleep(Duration::from_millis(50)).await;
        }
        obs.marks.push(log.lock().unwrap().0.len());
        obs.t_event.push(now());
        let _ = ctx.send(Cmd::Hold(false));
        // a probe sends a message and closes its link: the close waits for the message, and the message for the
        // peer's window (64094ec), so the peer opens the windows of the sessions that are still there
        for (i, s) in sessions.iter().enumerate() {
            if s.is_some() && !sess_gone.get(i).copied().unwrap_or(true) {
                let _ = ctx.send(Cmd::Window(i as u16));
            }
        }
        tokio::time::sleep(Duration::from_millis(50)).await;
        // probes: is everything that should be alive still usable?
        for (i, s) in sessions.iter_mut().enumerate() {
            if let Some(sh) = s.as_mut() {
                let r = tokio::time::timeout(Duration::from_millis(200), async {
                    let mut snd = Sender::builder().name(format!("probe{}", i)).target("q").attach(sh).await.map_err(|e| format!("attach: {:?}", e))?;
                    let sendable = Sendable::builder().message(Message::from(Value::Bool(true))).settled(true).build();
                    snd.send(sendable).await.map_err(|e| format!("send: {:?}", e))?;
                    snd.close().await.map_err(|e| format!("close: {:?}", e))?;
                    Ok::<(), String>(())
                })
                .await;
                let (ok, why) = match r {
                    Ok(Ok(())) => (true, String::new()),
                    Ok(Err(e)) => (false, e),
                    Err(_) => (false, "timeout".into()),
                };
                obs.probes.push((format!("session {}", i), ok, why));
            }
        }
        {
            let r = tokio::time::timeout(Duration::from_millis(200), async {
                let mut s = Session::begin(&mut conn).await.map_err(|e| format!("begin: {:?}", e))?;
                s.end().await.map_err(|e| format!("end: {:?}", e))?;
                Ok::<(), String>(())
            })
            .await;
            let (ok, why) = match r {
                Ok(Ok(())) => (true, String::new()),
                Ok(Err(e)) => (false, e),
                Err(_) => (false, "timeout".into()),
            };
            obs.probes.push(("connection".into(), ok, why));
        }
        drop(links);
        drop(sessions);
        let _ = tokio::time::timeout(Duration::from_millis(200), conn.close()).await;
        drop(ctx);
        for t in tasks {
            t.abort();
        }
        ptask.abort();
        obs.calls = calls.lock().unwrap().clone();
        let l = log.lock().unwrap();
        obs.frames = l.0.clone();
        obs.answers = l.1.clone();
        obs
    })
}

pub fn check(case: &Case, obs: &Observed) -> Option<(String, String)> {
    if let Some(e) = obs.errors.first() {
        return Some(("scenario-failed".into(), e.clone()));
    }
    let n_ev = case.events.len();
    // O1 / O2: per channel and per handle
    let mut ch_state: BTreeMap<u16, u8> = BTreeMap::new(); // 1 begun, 2 ended
    let mut h_state: BTreeMap<(u16, u32), u8> = BTreeMap::new(); // 1 attached, 2 detached
    for (i, f) in obs.frames.iter().enumerate() {
        if f.kind == "close" || f.kind == "open" {
            continue;
        }
        let cs = ch_state.get(&f.ch).copied().unwrap_or(0);
        match f.kind {
            "begin" => {
                if cs == 1 {
                    return Some(("begin-twice".into(), format!("frame {}: second begin on channel {}", i, f.ch)));
                }
                ch_state.insert(f.ch, 1);
                h_state.retain(|k, _| k.0 != f.ch);
            }
            "end" => {
                if cs != 1 {
                    return Some(("end-twice".into(), format!("frame {}: end on channel {} which is {}", i, f.ch, if cs == 2 { "already ended" } else { "not begun" })));
                }
                ch_state.insert(f.ch, 2);
            }
            _ => {
                if cs != 1 {
                    return Some(("frame-after-end".into(), format!("frame {}: {} on channel {} after the session's end (t={} ms)", i, f.kind, f.ch, f.t_ms)));
                }
                if let Some(h) = f.handle {
                    let hs = h_state.get(&(f.ch, h)).copied().unwrap_or(0);
                    match f.kind {
                        "attach" => {
                            if hs == 1 {
                                return Some(("attach-twice".into(), format!("frame {}: handle {} on channel {}", i, h, f.ch)));
                            }
                            h_state.insert((f.ch, h), 1);
                        }
                        "detach" => {
                            if hs != 1 {
                                return Some((if case.allow_mismatch { "detach-twice:crossing-close-and-detach-of-different-kind".to_string() } else { "detach-twice".to_string() }, format!("frame {}: detach for handle {} on channel {} which is {}", i, h, f.ch, if hs == 2 { "already detached" } else { "not attached" })));
                            }
                            h_state.insert((f.ch, h), 2);
                        }
                        _ => {
                            if hs != 1 {
                                // were these transfers handed to the session before the detach and held back by its window?
                                let detach_at = obs.frames[..i].iter().rposition(|g| g.kind == "detach" && g.ch == f.ch && g.handle == Some(h)).unwrap_or(0);
                                let seen_before = obs.frames[..detach_at].iter().filter(|g| g.kind == "transfer" && g.ch == f.ch && g.handle == Some(h)).count();
                                let detach_ev = obs.marks.iter().rposition(|m| *m <= detach_at).unwrap_or(0);
                                let mut cnt = vec![0u32; case.sessions];
                                let mut sent_before = 0usize;
                                let mut target: Option<usize> = None;
                                for (l, (s, _)) in case.links.iter().enumerate() {
                                    if *s as u16 == f.ch && cnt[*s] == h {
                                        target = Some(l);
                                    }
                                    cnt[*s] += 1;
                                }
                                if let Some(l) = target {
                                    sent_before = case.events.iter().take(detach_ev + 1).filter(|e| matches!(e, Ev::LTouch(x) if *x == l)).count();
                                }
                                let class = if f.kind == "transfer" && sent_before > seen_before { "window-held-transfers-overtaken-by-detach" } else { "other" };
                                return Some((format!("frame-after-detach:{}", class), format!("frame {}: {} for handle {} on channel {} after its detach (t={} ms); {} sends had been issued before the detach, {} transfers had gone out", i, f.kind, h, f.ch, f.t_ms, sent_before, seen_before)));
                            }
                        }
                    }
                }
            }
        }
    }
    // per event obligations
    let mut sess_ended_by_client: Vec<bool> = vec![false; case.sessions];
    let mut sess_dead: Vec<bool> = vec![false; case.sessions]; // ended by either side or dropped
    let mut link_gone: Vec<bool> = vec![false; case.links.len()];
    let mut link_handle: Vec<u32> = vec![];
    let mut cnt = vec![0u32; case.sessions];
    for (s, _) in &case.links {
        link_handle.push(cnt[*s]);
        cnt[*s] += 1;
    }
    let mut holding = false;
    for i in 0..n_ev {
        let window = &obs.frames[obs.marks[i]..obs.marks[i + 1]];
        match &case.events[i] {
            Ev::Hold(h) => holding = *h,
            Ev::PEnd(s, _) if *s < case.sessions && !sess_dead[*s] => {
                let ch = *s as u16;
                if !window.iter().any(|f| f.kind == "end" && f.ch == ch) {
                    return Some(("peer-end-not-answered".into(), format!("event {}: the peer ended the session on channel {}; the client wrote {:?}", i, ch, window.iter().map(|f| format!("{}@{}", f.kind, f.ch)).collect::<Vec<_>>())));
                }
                sess_dead[*s] = true;
                for (l, (ls, _)) in case.links.iter().enumerate() {
                    if ls == s {
                        link_gone[l] = true;
                    }
                }
            }
            Ev::PDetach(l, closed, _) if *l < case.links.len() && !link_gone[*l] && !sess_dead[case.links[*l].0] => {
                // answered in kind no later than the application's next operation on the link: the next event that
                // touches the link (or the end of the script, where the handle is dropped)
                let (s, _) = case.links[*l];
                let h = link_handle[*l];
                let mut upto = n_ev;
                let mut touched = false;
                // deliveries the peer sent before its detach and the application has not read: a `recv` hands
                // out one of those and does not get to see the detach behind them
                let mut unread = 0usize;
                for e in &case.events[..i] {
                    match e {
                        Ev::PFeed(x) if x == l => unread += 1,
                        Ev::LTouch(x) if x == l => unread = unread.saturating_sub(1),
                        _ => {}
                    }
                }
                for j in (i + 1)..n_ev {
                    if matches!(&case.events[j], Ev::LTouch(x) if x == l) && unread > 0 {
                        unread -= 1;
                        continue;
                    }
                    let touches = matches!(&case.events[j], Ev::LTouch(x) | Ev::LDetach(x) | Ev::LClose(x) | Ev::LCloseErr(x) | Ev::LDrop(x) if x == l) || matches!(&case.events[j], Ev::SEnd(x, _) | Ev::SDrop(x) | Ev::PEnd(x, _) | Ev::PBogus(x) if *x == s);
                    if touches {
                        upto = j + 1;
                        touched = true;
                        break;
                    }
                }
                let w = &obs.frames[obs.marks[i]..obs.marks[upto.min(n_ev)]];
                let session_went = (i + 1..upto.min(n_ev)).any(|j| matches!(&case.events[j], Ev::SEnd(x, _) | Ev::SDrop(x) | Ev::PEnd(x, _) | Ev::PBogus(x) if *x == s));
                let answer = w.iter().find(|f| f.kind == "detach" && f.ch == s as u16 && f.handle == Some(h));
                match answer {
                    Some(f) => {
                        // answered in kind: a closing detach is answered by a closing detach
                        if *closed && !f.closed {
                            return Some(("detach-not-answered-in-kind".into(), format!("event {}: the peer closed link {}; the client answered with closed={}", i, l, f.closed)));
                        }
                    }
                    None => {
                        // a sending link whose transfers the peer's session window still holds back answers after
                        // them (its detach waits behind them: 9ef99c0); a peer that never re-opens the window
                        // does not get the answer, and that is the peer's doing
                        let sends_before: usize = case.events[..upto.min(n_ev)].iter().filter(|e| matches!(e, Ev::LTouch(x) if case.links.get(*x).map(|(ls, snd)| *ls == s && *snd).unwrap_or(false))).count();
                        let reopened = case.events[..upto.min(n_ev)].iter().any(|e| matches!(e, Ev::PWindow(x) if *x == s));
                        let held_by_window = case.links[*l].1 && sends_before > case.window as usize && !reopened;
                        if touched && !session_went && !held_by_window {
                            return Some(("peer-detach-not-answered".into(), format!("event {}: the peer detached link {} (closed={}); no detach from the client by the end of its next operation on the link (event {})", i, l, closed, upto - 1)));
                        }
                    }
                }
                link_gone[*l] = true;
            }
            Ev::SEnd(s, _) if *s < case.sessions => {
                if !sess_dead[*s] {
                    sess_ended_by_client[*s] = true;
                }
                sess_dead[*s] = true;
                for (l, (ls, _)) in case.links.iter().enumerate() {
                    if ls == s {
                        link_gone[l] = true;
                    }
                }
            }
            Ev::PBogus(s) if *s < case.sessions && !sess_dead[*s] => {
                let ch = *s as u16;
                if !window.iter().any(|f| f.kind == "end" && f.ch == ch && f.error) {
                    return Some(("illegal-frame-not-refused-by-session".into(), format!("event {}: a flow for an unattached handle on channel {} was followed by {:?}, expected an end with an error", i, ch, window.iter().map(|f| format!("{}@{}", f.kind, f.ch)).collect::<Vec<_>>())));
                }
                sess_dead[*s] = true;
                for (l, (ls, _)) in case.links.iter().enumerate() {
                    if ls == s {
                        link_gone[l] = true;
                    }
                }
            }
            Ev::SDrop(s) if *s < case.sessions => {
                sess_dead[*s] = true;
                for (l, (ls, _)) in case.links.iter().enumerate() {
                    if ls == s {
                        link_gone[l] = true;
                    }
                }
            }
            Ev::LDetach(l) | Ev::LClose(l) | Ev::LCloseErr(l) | Ev::LDrop(l) if *l < case.links.len() => link_gone[*l] = true,
            _ => {}
        }
        let _ = holding;
    }
    // O5: a local end / detach / close returns only after the peer's answer (or a definite failure)
    for (ev_i, what, ret, res) in &obs.calls {
        // when did the peer answer this request?
        let (ch, h): (u16, Option<u32>) = match &case.events[*ev_i] {
            Ev::SEnd(s, _) => (*s as u16, None),
            Ev::LDetach(l) | Ev::LClose(l) | Ev::LCloseErr(l) => (case.links[*l].0 as u16, Some(link_handle[*l])),
            _ => continue,
        };
        let t0 = obs.t_event[*ev_i];
        let t_end = obs.t_event[n_ev];
        let answered = obs.answers.iter().filter(|a| a.0 == ch && a.1 == h && a.2 >= t0 && a.2 < t_end).map(|a| a.2).min();
        if let (Some(r), "ok") = (ret, res.as_str()) {
            match answered {
                Some(a) if *r + 1 < a => return Some(("returned-before-peer-answered".into(), format!("{} (event {}) returned Ok at t={} ms, the peer's answer was sent at t={} ms", what, ev_i, r, a))),
                _ => {}
            }
        }
    }
    // O6: errors carried by the peer's end / detach reach the caller
    for (ev_i, what, _ret, res) in &obs.calls {
        match &case.events[*ev_i] {
            Ev::SEnd(s, _) => {
                // the peer ended this session with an error earlier, and nothing else ended it before
                let mut peer_err = None;
                for j in 0..*ev_i {
                    match &case.events[j] {
                        Ev::PEnd(x, e) if x == s && peer_err.is_none() => peer_err = Some(*e),
                        // the session had already ended on its own account: a later end from the peer is its answer
                        Ev::PBogus(x) if x == s && peer_err.is_none() => peer_err = Some(false),
                        _ => {}
                    }
                }
                if peer_err == Some(true) && !res.contains("RemoteEndedWithError") {
                    return Some(("peer-end-error-not-reported".into(), format!("{}: the peer had ended the session with an error; the call returned {}", what, res)));
                }
            }
            Ev::LDetach(l) | Ev::LClose(l) | Ev::LCloseErr(l) => {
                let mut peer = None;
                for j in 0..*ev_i {
                    match &case.events[j] {
                        Ev::PDetach(x, c, e) if x == l && peer.is_none() => peer = Some((*c, *e)),
                        Ev::LTouch(_) => {}
                        _ => {}
                    }
                }
                let s = case.links[*l].0;
                let session_untouched = !(0..*ev_i).any(|j| matches!(&case.events[j], Ev::SEnd(x, _) | Ev::SDrop(x) | Ev::PEnd(x, _) | Ev::PBogus(x) if *x == s));
                // a send / recv / on_detach in between has taken the peer's detach and been told its error
                let touched_between = (0..*ev_i).any(|j| matches!(&case.events[j], Ev::LTouch(x) | Ev::LWatch(x) if x == l));
                if let Some((_, true)) = peer {
                    if session_untouched && !touched_between && !(res.contains("WithError")) {
                        return Some(("peer-detach-error-not-reported".into(), format!("{}: the peer had detached the link with an error; the call returned {}", what, res)));
                    }
                }
            }
            _ => {}
        }
    }
    // O7: nothing above the ended / dropped thing is torn down
    let conn_should_live = true;
    for (name, ok, why) in &obs.probes {
        if name == "connection" && conn_should_live && !ok {
            return Some(("connection-torn-down".into(), format!("after the script the connection cannot begin a session any more: {}", why)));
        }
        if let Some(i) = name.strip_prefix("session ").and_then(|x| x.parse::<usize>().ok()) {
            if !sess_dead[i] && !ok {
                return Some(("session-torn-down".into(), format!("session {} was neither ended nor dropped, yet a new link on it fails: {}", i, why)));
            }
        }
    }
    let _ = sess_ended_by_client;
    None
}

pub fn gen_case(rng: &mut Rng) -> Case {
    let sessions = *rng.pick(&[1usize, 1, 2]);
    let nl = rng.below(4) as usize;
    let links: Vec<(usize, bool)> = (0..nl).map(|_| (rng.below(sessions as u64) as usize, rng.chance(1, 2))).collect();
    let n = rng.range(1, 7);
    let mut events = vec![];
    for _ in 0..n {
        let l = if nl > 0 { rng.below(nl as u64) as usize } else { 0 };
        let s = rng.below(sessions as u64) as usize;
        let ev = match rng.below(18) {
            0 => Ev::SEnd(s, rng.chance(1, 3)),
            1 => Ev::SDrop(s),
            2 if nl > 0 => Ev::LDetach(l),
            3 if nl > 0 => Ev::LClose(l),
            4 if nl > 0 => Ev::LCloseErr(l),
            5 if nl > 0 => Ev::LDrop(l),
            6 | 7 if nl > 0 => Ev::LTouch(l),
            8 => Ev::PEnd(s, rng.chance(1, 2)),
            9 | 10 if nl > 0 => Ev::PDetach(l, rng.chance(1, 2), rng.chance(1, 2)),
            11 => Ev::Hold(true),
            12 => Ev::Hold(false),
            13 => Ev::PWindow(s),
            14 => Ev::PBogus(s),
            15 if nl > 0 => Ev::PFeed(l),
            16 if nl > 0 => {
                // the application learns of the peer's detach and then lets go of the link, one way or another
                events.push(Ev::PDetach(l, rng.chance(1, 2), rng.chance(1, 2)));
                events.push(Ev::LWatch(l));
                rng.pick(&[Ev::LDrop(l), Ev::LDrop(l), Ev::LClose(l), Ev::LDetach(l)]).clone()
            }
            _ => Ev::SEnd(s, false),
        };
        events.push(ev);
    }
    Case { sessions, links, events, allow_mismatch: false, window: *rng.pick(&[1000u32, 1000, 1000, 1, 2]) }
}

pub fn spin_checks(report: &mut Report, property: &str) {
    for which in [Wait::SessionEnd, Wait::ConnectionClose] {
        report.evaluations += 1;
        match probe(which, Duration::from_millis(150)) {
            Ok((wall, cpu, done)) => {
                report.count_n(&format!("spin_probe_{:?}_cpu_permille_of_wall", which), if wall == 0 { 0 } else { cpu * 1000 / wall });
                report.nontrivial_case(fnv(&format!("spin{:?}", which)));
                if wall == 0 {
                    report.finding(Finding { kind: "violation", key: format!("spin-probe-not-reached:{:?}", which), description: "the endpoint never sent the frame the probe waits for".into(), replay: json!({"property": property, "module": "life", "spin": format!("{:?}", which)}) });
                } else if cpu * 2 > wall {
                    report.finding(Finding {
                        kind: "violation",
                        key: format!("busy-wait:{:?}", which),
                        description: format!("while waiting {} ms for the peer's answer the endpoint's thread burnt {} ms of CPU: its event loop polls a closed channel in a tight loop", wall / 1_000_000, cpu / 1_000_000),
                        replay: json!({"property": property, "module": "life", "spin": format!("{:?}", which)}),
                    });
                }
                if !done {
                    report.finding(Finding { kind: "violation", key: format!("teardown-incomplete:{:?}", which), description: "end/close did not return Ok after the peer answered".into(), replay: json!({"property": property, "module": "life", "spin": format!("{:?}", which)}) });
                }
            }
            Err(e) => report.finding(Finding { kind: "violation", key: format!("spin-probe-failed:{:?}", which), description: e, replay: json!({"property": property, "module": "life", "spin": format!("{:?}", which)}) }),
        }
    }
}

/// The peer's end taken up while frames of the session's links are still queued for the session: a receiver
/// whose own queue holds one frame keeps the session engine busy handing over a second delivery; meanwhile a
/// sender queues `queued` pre-settled messages and the peer's end arrives; then the receiver takes a delivery
/// and the engine goes on, with the end and the queued frames both waiting.  Returns what the peer sees on the
/// session's channel from then on ("transfer" / "end:<error?>" …) and what `on_end` reports.
pub fn run_end_with_frames_queued(queued: u32, with_error: bool) -> Result<(Vec<String>, String), String> {
    use fe2o3_amqp_types::definitions::SenderSettleMode;
    let rt = paused_runtime();
    rt.block_on(async move {
        let (cio, pio) = tokio::io::duplex(1 << 20);
        let mut peer = Peer::new(pio);
        let e = |x: PeerError| format!("{:?}", x);
        let client = tokio::spawn(async move {
            let mut conn = Connection::builder().container_id("c13-endq").open_with_stream(cio).await.map_err(|e| format!("open: {:?}", e))?;
            let session = Session::begin(&mut conn).await.map_err(|e| format!("begin: {:?}", e))?;
            Ok::<_, String>((conn, session))
        });
        peer.accept_open(&PeerOpen::default()).await.map_err(e)?;
        peer.accept_begin(0, 0, 100_000, 100_000).await.map_err(e)?;
        let (_conn, mut session) = client.await.map_err(|e| format!("{:?}", e))??;
        let att = tokio::spawn(async move {
            let s = Sender::builder().name("endq-s").target("q").sender_settle_mode(SenderSettleMode::Settled).attach(&mut session).await.map_err(|e| format!("attach s: {:?}", e))?;
            let mut b = Receiver::builder().name("endq-r").source("q");
            b.buffer_size = 1;
            let r = b.attach(&mut session).await.map_err(|e| format!("attach r: {:?}", e))?;
            Ok::<_, String>((s, r, session))
        });
        let sa = peer.accept_attach(0, 0, None, ReceiverSettleMode::First).await.map_err(e)?;
        let _ = sa;
        let f = Flow { next_incoming_id: Some(0), incoming_window: 100_000, next_outgoing_id: 0, outgoing_window: 100_000, handle: Some(Handle(0)), delivery_count: Some(0), link_credit: Some(1000), available: None, drain: false, echo: false, properties: None };
        peer.send(0, Performative::Flow(f), &[]).await.map_err(e)?;
        let _ra = peer.accept_attach(0, 1, Some(0), ReceiverSettleMode::First).await.map_err(e)?;
        let (mut sender, mut receiver, mut session) = att.await.map_err(|e| format!("{:?}", e))??;
        // two deliveries for a receiver whose queue holds one: the session engine waits for room
        for id in 0..2u32 {
            let t = transfer(1, Some(id), Some(id.to_be_bytes().to_vec()), Some(true), false);
            peer.send(0, Performative::Transfer(t), &message_bytes(id as u64 + 1, 4)).await.map_err(e)?;
        }
        tokio::time::sleep(Duration::from_millis(200)).await;
        for i in 0..queued {
            let sendable = Sendable::builder().message(Message::from(Value::Uint(i))).settled(true).build();
            sender.send(sendable).await.map_err(|e| format!("send {}: {:?}", i, e))?;
        }
        let err = if with_error { Some(definitions::Error::new(AmqpError::InternalError, None, None)) } else { None };
        peer.send(0, Performative::End(End { error: err }), &[]).await.map_err(e)?;
        tokio::time::sleep(Duration::from_millis(200)).await;
        // the receiver takes a delivery: the engine goes on
        let _ = tokio::time::timeout(Duration::from_secs(1), receiver.recv::<Value>()).await;
        let mut seen = vec![];
        peer.recv_timeout = Duration::from_secs(3);
        loop {
            match peer.recv_frame().await {
                Ok((_, Performative::End(en), _)) => {
                    seen.push(format!("end:{}", en.error.is_some() as u8));
                    break;
                }
                Ok((_, Performative::Transfer(_), _)) => seen.push("transfer".into()),
                Ok((_, Performative::Flow(_), _)) | Ok((_, Performative::Disposition(_), _)) => {}
                Ok((_, other, _)) => seen.push(summarize(&other, 0)),
                Err(_) => break,
            }
        }
        let res = match tokio::time::timeout(Duration::from_secs(3), session.on_end()).await {
            Err(_) => "pending".to_string(),
            Ok(Ok(())) => "ok".to_string(),
            Ok(Err(e)) => format!("{:?}", e).split('(').next().unwrap_or("").to_string(),
        };
        Ok((seen, res))
    })
}

pub fn main(opts: &Opts) {
    // C14 reads the same runs for what it states: every call comes back, and reports the peer's error
    let c14 = opts.property == "C14";
    let mut report = Report::new(
        if c14 { "C14" } else { "C13" },
        "a client with 1..2 sessions and 0..3 links (senders and receivers) against a scripted peer; 1..7 events from: local end / \
         end-with-error / drop of a session, local detach / close / close-with-error / drop / use of a link, the peer ending a session or \
         detaching / closing a link with or without error, the peer withholding and releasing its answers; afterwards every surviving \
         session and the connection are probed; plus two real-time busy-wait probes; non-trivial = at least one end or detach was exchanged; \
         distinct by hash of the case",
    );
    if let Some(path) = &opts.replay {
        let j: J = serde_json::from_str(&std::fs::read_to_string(path).expect("read")).expect("json");
        if let Some(case) = j.get("case").and_then(Case::from_json) {
            let obs = run(&case);
            for (i, f) in obs.frames.iter().enumerate() {
                let ev = obs.marks.iter().rposition(|m| *m <= i).unwrap_or(0);
                println!("[ev {}] t={} ch{} {} handle={:?} closed={} error={}", ev as i64 - 0, f.t_ms, f.ch, f.kind, f.handle, f.closed, f.error);
            }
            println!("calls {:?}\nanswers {:?}\nprobes {:?}\nerrors {:?}", obs.calls, obs.answers, obs.probes, obs.errors);
            match check(&case, &obs) {
                Some((k, d)) => {
                    println!("REPLAY: property violated [{}]: {}", k, d);
                    std::process::exit(1);
                }
                None => {
                    println!("REPLAY: property holds on this scenario");
                    std::process::exit(0);
                }
            }
        }
        if j.get("spin").is_some() {
            let mut r = Report::new("C13", "");
            spin_checks(&mut r, "C13");
            for f in &r.findings {
                println!("REPLAY: property violated [{}]: {}", f.key, f.description);
            }
            std::process::exit(if r.findings.is_empty() { 0 } else { 1 });
        }
        std::process::exit(2);
    }
    if !c14 {
        spin_checks(&mut report, "C13");
    }
    let mut rng = Rng::new(opts.seed ^ 0xc13);
    let mut corpus: Vec<Case> = vec![];
    if let Ok(rd) = std::fs::read_dir("/verif/corpus/C13") {
        let mut paths: Vec<_> = rd.filter_map(|e| e.ok().map(|e| e.path())).collect();
        paths.sort();
        for p in paths {
            if let Ok(txt) = std::fs::read_to_string(&p) {
                if let Ok(j) = serde_json::from_str::<J>(&txt) {
                    if let Some(c) = j.get("case").and_then(Case::from_json) {
                        corpus.push(c);
                    }
                }
            }
        }
    }
    report.count_n("corpus_cases", corpus.len() as u64);
    // unread deliveries queued ahead of the peer's detach, then the application's own detach / close
    for feeds in [1usize, 3] {
        for (closed, err) in [(true, true), (true, false), (false, false), (false, true)] {
            for local in [Ev::LDetach(0), Ev::LClose(0), Ev::LCloseErr(0), Ev::LTouch(0)] {
                let mut events: Vec<Ev> = (0..feeds).map(|_| Ev::PFeed(0)).collect();
                events.push(Ev::PDetach(0, closed, err));
                let same_kind = matches!((&local, closed), (Ev::LDetach(_), false) | (Ev::LClose(_), true) | (Ev::LCloseErr(_), true) | (Ev::LTouch(_), _));
                events.push(local);
                corpus.push(Case { sessions: 1, links: vec![(0, false)], events, allow_mismatch: !same_kind, window: 1000 });
            }
        }
    }
    let n = if opts.thorough() { 20000 } else { 1500 };
    for k in 0..(n + corpus.len() as u64) {
        let case = if (k as usize) < corpus.len() { corpus[k as usize].clone() } else { gen_case(&mut rng) };
        let obs = run(&case);
        report.evaluations += 1;
        if obs.frames.iter().any(|f| f.kind == "end" || f.kind == "detach") {
            report.nontrivial_case(fnv(&case.to_json().to_string()));
        }
        report.count_n("frames_seen", obs.frames.len() as u64);
        report.count_n("local_calls", obs.calls.len() as u64);
        if k % (n / 3).max(1) == 0 {
            report.sample(case.to_json());
        }
        if c14 {
            if let Some((_, what, None, _)) = obs.calls.iter().find(|c| c.2.is_none()) {
                report.finding(Finding { kind: "violation", key: "call-never-returned".into(), description: format!("{} did not come back by the end of the scenario (the peer had answered everything it was asked)", what), replay: json!({"property": "C14", "module": "life", "case": case.to_json()}) });
            }
        }
        let verdict = check(&case, &obs).filter(|(k, _)| !c14 || k == "peer-detach-error-not-reported" || k == "peer-end-error-not-reported");
        if let Some((key, desc)) = verdict {
            let key0 = key.clone();
            let evs = shrink_list(&case.events, &mut |e: &[Ev]| {
                let c = Case { sessions: case.sessions, links: case.links.clone(), events: e.to_vec(), allow_mismatch: case.allow_mismatch, window: case.window };
                let o = run(&c);
                matches!(check(&c, &o), Some((k2, _)) if k2 == key0)
            });
            let best = Case { sessions: case.sessions, links: case.links.clone(), events: evs, allow_mismatch: case.allow_mismatch, window: case.window };
            let o2 = run(&best);
            let desc2 = check(&best, &o2).map(|x| x.1).unwrap_or(desc);
            report.finding(Finding { kind: "violation", key, description: desc2, replay: json!({"property": if c14 { "C14" } else { "C13" }, "module": "life", "case": best.to_json()}) });
        }
    }
    if c14 {
        // the lifecycle model is C13's; the runs above were the model-free part
        report.model_used = true;
    } else {
        correspondence(&mut rng, opts, &mut report);
        pending_detach_correspondence(&mut report);
    }
    report.write(&opts.report);
    println!("life: {} cases, {} non-trivial, {} findings", report.evaluations, report.nontrivial.len(), report.findings.len());
}

/// the two hand-written compositions (session end handshake, link detach handshake) against the
/// implementation, on scenarios small enough to be mapped one to one
/// the search for a detach the peer has already sent (`Amqp/PendingDetach.lean`, driver prefix `B`): unread
/// deliveries queued ahead of the peer's detach, then the application's own detach / close of the same kind;
/// "found" is read off the wire (the client's only detach answers in kind) and off the call's result
fn pending_detach_correspondence(report: &mut Report) {
    if !driver_available() {
        return;
    }
    let mut lines = vec![];
    let mut imp = vec![];
    let mut cases = vec![];
    for feeds in [0usize, 1, 2, 5] {
        for (closed, err) in [(true, true), (true, false), (false, false), (false, true)] {
            let local = if closed { if err { Ev::LCloseErr(0) } else { Ev::LClose(0) } } else { Ev::LDetach(0) };
            let mut events: Vec<Ev> = (0..feeds).map(|_| Ev::PFeed(0)).collect();
            events.push(Ev::PDetach(0, closed, err));
            events.push(local);
            let case = Case { sessions: 1, links: vec![(0, false)], events, allow_mismatch: false, window: 1000 };
            let obs = run(&case);
            report.evaluations += 1;
            report.count("pending_detach_cases");
            // the frames of the script only (a liveness probe follows it)
            let upto = obs.marks.get(case.events.len()).copied().unwrap_or(obs.frames.len());
            let detaches: Vec<&Seen> = obs.frames[..upto].iter().filter(|f| f.kind == "detach" && f.handle == Some(0)).collect();
            let in_kind = detaches.len() == 1 && detaches[0].closed == closed;
            let reported = obs.calls.iter().any(|c| c.2.is_some() && (c.3 != "ok") == err);
            let item = format!("d{}{}", closed as u8, err as u8);
            lines.push(format!("B take {}{}", "o ".repeat(feeds), item));
            imp.push(if in_kind && reported { format!("found {} left=0", item) } else { format!("missed (detaches {:?}, calls {:?})", detaches.iter().map(|d| d.closed).collect::<Vec<_>>(), obs.calls.iter().map(|c| c.3.clone()).collect::<Vec<_>>()) });
            cases.push(case);
        }
    }
    match run_driver(&lines) {
        Ok(model) => {
            report.model_lines += model.len() as u64;
            for i in 0..lines.len() {
                if model[i] != imp[i] {
                    report.finding(Finding { kind: "disagreement", key: "model-vs-implementation:pending-detach".into(), description: format!("{} -> implementation {} model {}", lines[i], imp[i], model[i]), replay: json!({"property": "C13", "module": "life", "case": cases[i].to_json(), "model_lines": [lines[i].clone()], "model": [model[i].clone()]}) });
                    break;
                }
            }
        }
        Err(e) => report.notes.push(format!("model driver failed: {}", e)),
    }
}

fn correspondence(rng: &mut Rng, opts: &Opts, report: &mut Report) {
    if !driver_available() {
        report.notes.push("model driver not available: correspondence skipped".into());
        return;
    }
    let n = if opts.thorough() { 3000 } else { 300 };
    let mut lines: Vec<String> = vec![];
    let mut expect: Vec<(usize, Vec<String>, String, Case)> = vec![]; // (start, implementation per-line outputs, result, case)
    // --- one session, no links
    for _ in 0..n {
        let mut events = vec![];
        for _ in 0..rng.range(1, 5) {
            events.push(match rng.below(5) {
                0 => Ev::SEnd(0, rng.chance(1, 3)),
                1 => Ev::PEnd(0, rng.chance(1, 2)),
                2 => Ev::PBogus(0),
                3 => Ev::Hold(true),
                _ => Ev::Hold(false),
            });
        }
        // at most one local end (the handle is consumed)
        let mut seen_end = false;
        events.retain(|e| match e {
            Ev::SEnd(_, _) => {
                let keep = !seen_end;
                seen_end = true;
                keep
            }
            _ => true,
        });
        let case = Case { sessions: 1, links: vec![], events, allow_mismatch: false, window: 1000 };
        let obs = run(&case);
        report.evaluations += 1;
        if !obs.errors.is_empty() {
            continue;
        }
        // the events as the session engine saw them: the peer's answers are placed where they were sent
        let start = lines.len();
        let mut imp: Vec<String> = vec![];
        lines.push("E reset".into());
        imp.push("ok".into());
        let n_ev = case.events.len();
        let mut gone = false; // the peer regards the session as over and says nothing more
        let mut pending_reply = false; // the client's end awaits the peer's (withheld) answer
        let mut holding = false;
        for (i, ev) in case.events.iter().enumerate() {
            let window: Vec<&Seen> = obs.frames[obs.marks[i]..obs.marks[i + 1]].iter().filter(|f| f.ch == 0).collect();
            let ends: Vec<String> = window.iter().filter(|f| f.kind == "end").map(|f| format!("end:{}", f.error as u8)).collect();
            let out = if ends.is_empty() { "-".to_string() } else { ends.join(" ") };
            match ev {
                Ev::SEnd(_, e) => {
                    lines.push(format!("E ctlend {}", *e as u8));
                    imp.push(out);
                    if !gone {
                        if holding {
                            pending_reply = true;
                        } else {
                            lines.push("E peerend 0".into());
                            imp.push("-".into());
                        }
                        gone = true;
                    }
                }
                Ev::PEnd(_, e) => {
                    if !gone || pending_reply {
                        lines.push(format!("E peerend {}", *e as u8));
                        imp.push(out);
                        pending_reply = false;
                        gone = true;
                    }
                }
                Ev::PBogus(_) => {
                    if !gone || pending_reply {
                        let was_gone = gone;
                        lines.push("E peerframe 0".into());
                        imp.push(out);
                        if !was_gone {
                            // the session ends with an error; the peer answers that end
                            if holding {
                                pending_reply = true;
                            } else {
                                lines.push("E peerend 0".into());
                                imp.push("-".into());
                            }
                            gone = true;
                        }
                    }
                }
                Ev::Hold(h) => {
                    holding = *h;
                    if !holding && pending_reply {
                        lines.push("E peerend 0".into());
                        imp.push(out);
                        pending_reply = false;
                    }
                }
                _ => {}
            }
        }
        let _ = n_ev;
        if pending_reply {
            // released by the harness after the script
            lines.push("E peerend 0".into());
            imp.push("-".into());
        }
        lines.push("E result".into());
        let res = match obs.calls.first() {
            Some((_, _, Some(_), r)) => match r.as_str() {
                "ok" => "ok".to_string(),
                "RemoteEndedWithError" => "remoteEndedWithError".into(),
                "RemoteEnded" => "remoteEnded".into(),
                "IllegalState" => "illegalState".into(),
                other => format!("other:{}", other),
            },
            _ => "nocall".to_string(),
        };
        imp.push(res.clone());
        expect.push((start, imp, res, case));
    }
    let mut link_lines: Vec<String> = vec![];
    let mut link_expect: Vec<(String, Case)> = vec![];
    // --- one link: [peer detach] then detach / close
    for _ in 0..n {
        let is_sender = rng.chance(1, 2);
        let pending = if rng.chance(1, 2) { Some((rng.chance(1, 2), rng.chance(1, 2))) } else { None };
        let close = rng.chance(1, 2);
        let mut events = vec![];
        if let Some((c, e)) = pending {
            events.push(Ev::PDetach(0, c, e));
        }
        events.push(if close { Ev::LClose(0) } else { Ev::LDetach(0) });
        let case = Case { sessions: 1, links: vec![(0, is_sender)], events, allow_mismatch: false, window: 1000 };
        let obs = run(&case);
        report.evaluations += 1;
        if !obs.errors.is_empty() {
            continue;
        }
        let call_ev = case.events.len() - 1;
        let sent: Vec<u8> = obs.frames[obs.marks[call_ev]..obs.marks[call_ev + 1]].iter().filter(|f| f.kind == "detach" && f.handle == Some(0)).map(|f| f.closed as u8).collect();
        let res = match obs.calls.first() {
            Some((_, _, Some(_), r)) => match r.as_str() {
                "ok" => "ok",
                "RemoteDetachedWithError" | "RemoteClosedWithError" => "remoteError",
                "ClosedByRemote" => "closedByRemote",
                "IllegalState" => "illegalState",
                _ => "mismatch",
            },
            _ => "mismatch", // still busy re-attaching
        };
        // the scripted peer answers a detach in kind, without error
        let line = match pending {
            Some((c, e)) => format!("L call {} {} {} {} 0", if close { "close" } else { "detach" }, c as u8, e as u8, close as u8),
            None => format!("L call {} - {} 0", if close { "close" } else { "detach" }, close as u8),
        };
        link_lines.push(line);
        let first: Vec<u8> = sent.iter().take(1).cloned().collect();
        link_expect.push((format!("{:?} {}", first, res).replace(' ', "").replace("]", "] "), case));
    }
    // --- the peer's end taken up while frames of the session's links are still queued
    if opts.property != "C14" {
        for (queued, we) in [(48u32, false), (48, true), (8, false)] {
            report.evaluations += 1;
            report.count("peer_end_with_link_frames_queued");
            report.nontrivial_case(fnv(&format!("endq{}{}", queued, we)));
            let replay = json!({"property": "C13", "module": "life", "end_with_frames_queued": {"queued": queued, "with_error": we}});
            match run_end_with_frames_queued(queued, we) {
                Ok((seen, res)) => {
                    let ends: Vec<&String> = seen.iter().filter(|x| x.starts_with("end:")).collect();
                    if ends.len() != 1 {
                        report.finding(Finding { kind: "violation", key: "peer-end-not-answered:link-frames-queued".into(), description: format!("the peer ended the session while {} frames of a sending link were queued for the session: {} end frames came back (the peer saw {:?}); on_end: {}", queued, ends.len(), seen.iter().rev().take(6).rev().collect::<Vec<_>>(), res), replay });
                        continue;
                    }
                    if res == "pending" {
                        report.finding(Finding { kind: "violation", key: "call-never-returned:link-frames-queued".into(), description: format!("on_end did not return after the peer's end (with {} link frames queued) had been answered", queued), replay });
                        continue;
                    }
                    // which of the two happened is the scheduler's choice (the engine picks at random between the peer's
                    // frames and the links' frames when both wait): if every queued frame went out before the end was
                    // taken up, nothing was queued any more and the end is the plain one
                    let drained = seen.iter().filter(|x| *x == "transfer").count() as u32 >= queued;
                    report.count(if drained { "peer_end_after_the_queue_drained" } else { "peer_end_with_frames_still_queued" });
                    if let Ok(m) = run_driver(&["E reset".to_string(), format!("E {} {}", if drained { "peerend" } else { "peerendq" }, we as u8), "E result".to_string()]) {
                        report.model_lines += 3;
                        let imp_res = match res.as_str() {
                            "ok" => "ok",
                            "RemoteEndedWithError" => "remoteEndedWithError",
                            "RemoteEnded" => "remoteEnded",
                            "IllegalState" => "illegalState",
                            _ => "other",
                        };
                        if m[1] != *ends[0] || (m[2] != imp_res && imp_res != "other") {
                            report.finding(Finding { kind: "disagreement", key: "model-vs-implementation:session:end-with-frames-queued".into(), description: format!("peer's end ({}) with link frames queued: the model writes `{}` and reports {}, the implementation `{}` and {}", we, m[1], m[2], ends[0], res), replay });
                        }
                    }
                }
                Err(e) => report.finding(Finding { kind: "violation", key: "end-with-frames-queued-scenario-failed".into(), description: e, replay }),
            }
        }
    }
    let mut all = lines.clone();
    let off = all.len();
    all.extend(link_lines.iter().cloned());
    match run_driver(&all) {
        Ok(model) => {
            report.model_used = true;
            report.model_lines += model.len() as u64;
            let mut bad = 0u64;
            for (k, (start, imp, _res, case)) in expect.iter().enumerate() {
                let end = expect.get(k + 1).map(|x| x.0).unwrap_or(off);
                let m = &model[*start..end];
                // compare the end frames written per event and the result
                let mut ok = m.len() == imp.len();
                if ok {
                    for (a, b) in m.iter().zip(imp.iter()) {
                        let a2 = a.split(' ').filter(|t| t.starts_with("end:")).collect::<Vec<_>>().join(" ");
                        let a2 = if a2.is_empty() && (a == "-" || a == "frame") { "-".to_string() } else if a2.is_empty() { a.clone() } else { a2 };
                        if a2 != *b && !(b == "nocall") && !(b.starts_with("other")) {
                            ok = false;
                        }
                    }
                }
                if !ok {
                    if bad == 0 {
                        report.finding(Finding { kind: "disagreement", key: "model-vs-implementation:session".into(), description: format!("implementation {:?} model {:?}", imp, m), replay: json!({"property": "C13", "module": "life", "case": case.to_json(), "model_lines": &all[*start..end], "model": m}) });
                    }
                    bad += 1;
                }
            }
            for (k, (want, case)) in link_expect.iter().enumerate() {
                let got = model[off + k].replace(", ", ",").replace(" ", " ");
                let got_norm = got.replace("[", "[").trim().to_string();
                let w = want.trim().to_string();
                // `[1] ok` vs `[1] ok`
                // `mismatch`: the model stops where re-attach-then-close begins; only the first detach is compared
                let same = if got_norm.ends_with("mismatch") { got_norm.split(']').next() == w.split(']').next() } else { got_norm.replace(' ', "") == w.replace(' ', "") };
                if !same {
                    if bad == 0 {
                        report.finding(Finding { kind: "disagreement", key: "model-vs-implementation:link".into(), description: format!("{} -> implementation {} model {}", link_lines[k], w, got_norm), replay: json!({"property": "C13", "module": "life", "case": case.to_json(), "model_lines": [link_lines[k].clone()], "model": [got_norm]}) });
                    }
                    bad += 1;
                }
            }
            report.count_n("cases_disagreeing_with_model", bad);
        }
        Err(e) => report.notes.push(format!("model driver failed: {}", e)),
    }
}
