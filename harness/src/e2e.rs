//! Engine-level sender scenarios (C01, C02, C11): a real `Sender` (public API)
//! sends messages to a scripted receiving peer which records every transfer
//! frame, reassembles the deliveries and answers with dispositions.

use std::time::Duration;

use fe2o3_amqp::link::sender::Sender;
use fe2o3_amqp::{Connection, Session};
use fe2o3_amqp_types::definitions::{Handle, ReceiverSettleMode, Role, SenderSettleMode};
use fe2o3_amqp_types::messaging::{Accepted, DeliveryState, Modified, Outcome, Rejected, Released};
use fe2o3_amqp_types::performatives::{Attach, Disposition, Flow, Performative};
use serde_amqp::primitives::Binary;
use serde_json::{json, Value as J};

use crate::common::*;
use crate::peer::*;

#[derive(Clone, Debug)]
pub struct Config {
    /// max-frame-size the peer advertises (what the client's transport must respect)
    pub peer_max_frame_size: u32,
    /// max-message-size in the peer's attach (forces the link-level split); 0 = unset
    pub peer_max_message_size: u64,
    /// incoming-window the peer advertises at begin
    pub peer_incoming_window: u32,
    /// link credit granted at a time (re-granted when used up)
    pub credit: u32,
    pub snd_settle_mode: u8, // 0 unsettled, 1 settled, 2 mixed
    pub rcv_second: bool,
    /// next-outgoing-id of the client's session
    pub initial_outgoing_id: u32,
    /// body sizes of the messages to send
    pub sizes: Vec<usize>,
    /// outcome the peer applies to the k-th delivery: 0 accepted 1 rejected 2 released 3 modified
    pub outcomes: Vec<u8>,
    /// answer the deliveries in batches of this many (1 = one disposition per delivery)
    pub disposition_batch: usize,
    /// the application waits (600 virtual seconds) after its last send before closing the link
    pub linger: bool,
    pub seed: u64,
    /// the peer re-opens its session window by this many frames at a time (0 = to the full window)
    pub reopen_by: u32,
}

impl Config {
    pub fn to_json(&self) -> J {
        json!({"peer_max_frame_size": self.peer_max_frame_size, "peer_max_message_size": self.peer_max_message_size,
               "peer_incoming_window": self.peer_incoming_window, "credit": self.credit, "snd_settle_mode": self.snd_settle_mode,
               "rcv_second": self.rcv_second, "initial_outgoing_id": self.initial_outgoing_id, "sizes": self.sizes,
               "outcomes": self.outcomes, "disposition_batch": self.disposition_batch, "linger": self.linger, "seed": self.seed, "reopen_by": self.reopen_by})
    }
    pub fn from_json(j: &J) -> Option<Config> {
        Some(Config {
            peer_max_frame_size: j.get("peer_max_frame_size")?.as_u64()? as u32,
            peer_max_message_size: j.get("peer_max_message_size")?.as_u64()?,
            peer_incoming_window: j.get("peer_incoming_window")?.as_u64()? as u32,
            credit: j.get("credit")?.as_u64()? as u32,
            snd_settle_mode: j.get("snd_settle_mode")?.as_u64()? as u8,
            rcv_second: j.get("rcv_second")?.as_bool()?,
            initial_outgoing_id: j.get("initial_outgoing_id")?.as_u64()? as u32,
            sizes: j.get("sizes")?.as_array()?.iter().filter_map(|x| x.as_u64().map(|v| v as usize)).collect(),
            outcomes: j.get("outcomes")?.as_array()?.iter().filter_map(|x| x.as_u64().map(|v| v as u8)).collect(),
            disposition_batch: j.get("disposition_batch")?.as_u64()? as usize,
            linger: j.get("linger").and_then(|x| x.as_bool()).unwrap_or(true),
            seed: j.get("seed")?.as_u64()?,
            reopen_by: j.get("reopen_by").and_then(|x| x.as_u64()).unwrap_or(0) as u32,
        })
    }
}

pub fn body_of(seed: u64, k: usize, n: usize) -> Vec<u8> {
    let mut r = Rng::new(seed ^ (k as u64).wrapping_mul(0x1234_5678_9abc_def1));
    (0..n).map(|_| r.next() as u8).collect()
}

/// one transfer frame as seen by the peer
#[derive(Clone, Debug)]
pub struct SeenTransfer {
    pub delivery_id: Option<u32>,
    pub tag: Option<Vec<u8>>,
    pub settled: Option<bool>,
    pub more: bool,
    pub payload_len: usize,
    pub frame_size: usize,
}

#[derive(Clone, Debug, Default)]
pub struct Observed {
    pub transfers: Vec<SeenTransfer>,
    /// reassembled deliveries in arrival order: (delivery-id, settled, decoded body)
    pub deliveries: Vec<(u32, bool, Vec<u8>)>,
    /// result of every `send`, in call order: outcome name or error
    pub send_results: Vec<String>,
    /// settling dispositions the client sent (role sender): (first, last, settled)
    pub client_dispositions: Vec<(u32, Option<u32>, bool)>,
    /// transfer frames that arrived while the window the peer had advertised was used up
    pub window_overruns: Vec<String>,
    /// flows sent by the client: (next-outgoing-id in the flow, transfer frames the peer had received when it arrived)
    pub client_flows: Vec<(u32, u32)>,
    /// next-outgoing-id of the client's begin
    pub begin_next_outgoing_id: u32,
    pub errors: Vec<String>,
    pub trace: Vec<String>,
}

fn outcome_name(o: &Outcome) -> &'static str {
    match o {
        Outcome::Accepted(_) => "accepted",
        Outcome::Rejected(_) => "rejected",
        Outcome::Released(_) => "released",
        Outcome::Modified(_) => "modified",
        #[allow(unreachable_patterns)]
        _ => "other",
    }
}

pub fn state_of(code: u8) -> DeliveryState {
    match code {
        1 => DeliveryState::Rejected(Rejected { error: None }),
        2 => DeliveryState::Released(Released {}),
        3 => DeliveryState::Modified(Modified { delivery_failed: Some(true), undeliverable_here: None, message_annotations: None }),
        _ => DeliveryState::Accepted(Accepted {}),
    }
}

pub fn outcome_code_name(code: u8) -> &'static str {
    match code {
        1 => "rejected",
        2 => "released",
        3 => "modified",
        _ => "accepted",
    }
}

fn decode_body(bytes: &[u8]) -> Option<Vec<u8>> {
    use fe2o3_amqp_types::messaging::{message::__private::Deserializable, Body, Message};
    let m: Deserializable<Message<Body<serde_amqp::Value>>> = serde_amqp::from_slice(bytes).ok()?;
    match m.0.body {
        Body::Value(v) => match v.0 {
            serde_amqp::Value::Binary(b) => Some(b.to_vec()),
            _ => None,
        },
        _ => None,
    }
}

pub fn run(cfg: &Config) -> Observed {
    let rt = paused_runtime();
    let cfg = cfg.clone();
    rt.block_on(async move {
        let mut obs = Observed::default();
        let (cio, pio) = tokio::io::duplex(1 << 22);
        let mut peer = Peer::new(pio);
        let ccfg = cfg.clone();
        let client = tokio::spawn(async move {
            let mut conn = Connection::builder().container_id("e2e").open_with_stream(cio).await.map_err(|e| format!("open: {:?}", e))?;
            let mut session = Session::builder().next_outgoing_id(ccfg.initial_outgoing_id).begin(&mut conn).await.map_err(|e| format!("begin: {:?}", e))?;
            let mode = match ccfg.snd_settle_mode {
                1 => SenderSettleMode::Settled,
                2 => SenderSettleMode::Mixed,
                _ => SenderSettleMode::Unsettled,
            };
            let mut sender = Sender::builder()
                .name("e2e-sender")
                .target("q")
                .sender_settle_mode(mode)
                .attach(&mut session)
                .await
                .map_err(|e| format!("attach: {:?}", e))?;
            let mut results = vec![];
            let trace_on = std::env::var_os("VERIF_TRACE").is_some();
            if ccfg.disposition_batch > 1 {
                // pipelined: all sends first (batchable), outcomes awaited afterwards
                let mut futs = vec![];
                for (k, n) in ccfg.sizes.iter().enumerate() {
                    let body = Binary::from(body_of(ccfg.seed, k, *n));
                    match tokio::time::timeout(Duration::from_secs(600), sender.send_batchable(body)).await {
                        Err(_) => futs.push(Err("timeout".to_string())),
                        Ok(Err(e)) => futs.push(Err(format!("error:{:?}", e).replace(' ', "_"))),
                        Ok(Ok(f)) => futs.push(Ok(f)),
                    }
                }
                for f in futs {
                    results.push(match f {
                        Err(e) => e,
                        Ok(f) => match tokio::time::timeout(Duration::from_secs(600), f).await {
                            Err(_) => "timeout".to_string(),
                            Ok(Ok(o)) => outcome_name(&o).to_string(),
                            Ok(Err(e)) => format!("error:{:?}", e).replace(' ', "_"),
                        },
                    });
                }
            } else {
                for (k, n) in ccfg.sizes.iter().enumerate() {
                    let body = Binary::from(body_of(ccfg.seed, k, *n));
                    let r = tokio::time::timeout(Duration::from_secs(600), sender.send(body)).await;
                    results.push(match r {
                        Err(_) => "timeout".to_string(),
                        Ok(Ok(o)) => outcome_name(&o).to_string(),
                        Ok(Err(e)) => format!("error:{:?}", e).replace(' ', "_"),
                    });
                    if trace_on {
                        eprintln!("client: send {} -> {}", k, results[k]);
                    }
                }
            }
            if ccfg.linger {
                tokio::time::sleep(Duration::from_secs(600)).await;
            }
            let _ = tokio::time::timeout(Duration::from_secs(5), sender.close()).await;
            let _ = tokio::time::timeout(Duration::from_secs(5), session.end()).await;
            let _ = tokio::time::timeout(Duration::from_secs(5), conn.close()).await;
            Ok::<_, String>(results)
        });

        let popen = PeerOpen { max_frame_size: cfg.peer_max_frame_size, ..PeerOpen::default() };
        macro_rules! tr {
            ($e:expr) => {
                match $e {
                    Ok(v) => v,
                    Err(e) => {
                        obs.errors.push(format!("peer: {:?}", e));
                        obs.trace = peer.trace_lines();
                        return obs;
                    }
                }
            };
        }
        tr!(peer.accept_open(&popen).await);
        let (_, begin) = tr!(peer.accept_begin(0, 0, cfg.peer_incoming_window, 2048).await);
        obs.begin_next_outgoing_id = begin.next_outgoing_id;
        // attach: answer as receiver with our max-message-size
        let (_, p, _) = tr!(peer.recv_frame().await);
        let attach = match p {
            Performative::Attach(a) => a,
            other => {
                obs.errors.push(format!("expected attach, got {}", summarize(&other, 0)));
                return obs;
            }
        };
        let ours = Attach {
            name: attach.name.clone(),
            handle: Handle(7),
            role: Role::Receiver,
            snd_settle_mode: attach.snd_settle_mode.clone(),
            rcv_settle_mode: if cfg.rcv_second { ReceiverSettleMode::Second } else { ReceiverSettleMode::First },
            source: attach.source.clone(),
            target: attach.target.clone(),
            unsettled: None,
            incomplete_unsettled: false,
            initial_delivery_count: None,
            max_message_size: if cfg.peer_max_message_size == 0 { None } else { Some(cfg.peer_max_message_size) },
            offered_capabilities: None,
            desired_capabilities: None,
            properties: None,
        };
        tr!(peer.send(0, Performative::Attach(ours), &[]).await);
        let idc = attach.initial_delivery_count.unwrap_or(0);
        let mut received_frames: u32 = 0;
        let mut deliveries_done: u32 = 0;
        let mut credit_left = cfg.credit;
        let grant = |dc: u32, credit: u32, nii: u32, iw: u32| Flow {
            next_incoming_id: Some(nii),
            incoming_window: iw,
            next_outgoing_id: 0,
            outgoing_window: 2048,
            handle: Some(Handle(7)),
            delivery_count: Some(dc),
            link_credit: Some(credit),
            available: None,
            drain: false,
            echo: false,
            properties: None,
        };
        tr!(peer.send(0, Performative::Flow(grant(idc, cfg.credit, cfg.initial_outgoing_id, cfg.peer_incoming_window)), &[]).await);

        let mut cur: Option<(u32, bool, Vec<u8>)> = None; // delivery being reassembled
        let mut pending_dispositions: Vec<(u32, u8)> = vec![];
        let mut window_left = cfg.peer_incoming_window;
        let total = cfg.sizes.len();
        peer.recv_timeout = Duration::from_secs(2);
        // the window is re-opened only after a (virtual) pause in which a conforming sender
        // stays silent: a transfer frame arriving in that pause overran the window
        let mut window_closed = false;
        let mut idle_rounds = 0;
        let echo = cfg.seed % 2 == 0;
        loop {
            peer.recv_timeout = if window_closed { Duration::from_millis(50) } else { Duration::from_secs(20) };
            match peer.recv().await {
                Ok(Incoming::Frame { performative, payload, .. }) => match performative {
                    Performative::Transfer(t) => {
                        if window_left == 0 {
                            obs.window_overruns.push(format!("transfer frame #{} (0-based) arrived while the advertised window was used up", received_frames));
                        }
                        received_frames = received_frames.wrapping_add(1);
                        window_left = window_left.saturating_sub(1);
                        obs.transfers.push(SeenTransfer {
                            delivery_id: t.delivery_id,
                            tag: t.delivery_tag.as_ref().map(|x| x.to_vec()),
                            settled: t.settled,
                            more: t.more,
                            payload_len: payload.len(),
                            frame_size: 0,
                        });
                        match &mut cur {
                            Some((_, _, buf)) => buf.extend_from_slice(&payload),
                            None => cur = Some((t.delivery_id.unwrap_or(u32::MAX), t.settled.unwrap_or(false), payload.to_vec())),
                        }
                        if !t.more {
                            let (id, settled, buf) = cur.take().unwrap();
                            let body = decode_body(&buf).unwrap_or_else(|| b"<undecodable>".to_vec());
                            obs.deliveries.push((id, settled, body));
                            let k = deliveries_done as usize;
                            deliveries_done += 1;
                            credit_left = credit_left.saturating_sub(1);
                            if !settled {
                                pending_dispositions.push((id, *cfg.outcomes.get(k).unwrap_or(&0)));
                            }
                            if pending_dispositions.len() >= cfg.disposition_batch.max(1) || deliveries_done as usize == total {
                                // one disposition per run of equal outcomes with consecutive ids
                                let mut i = 0;
                                while i < pending_dispositions.len() {
                                    let (first, oc) = pending_dispositions[i];
                                    let mut last = first;
                                    let mut j = i + 1;
                                    while j < pending_dispositions.len() && pending_dispositions[j].1 == oc && pending_dispositions[j].0 == last.wrapping_add(1) {
                                        last = pending_dispositions[j].0;
                                        j += 1;
                                    }
                                    let d = Disposition { role: Role::Receiver, first, last: if last == first { None } else { Some(last) }, settled: !cfg.rcv_second, state: Some(state_of(oc)), batchable: false };
                                    tr!(peer.send(0, Performative::Disposition(d), &[]).await);
                                    i = j;
                                }
                                pending_dispositions.clear();
                            }
                        }
                        // re-open the session window (after a pause, see below) / link credit when used up
                        if window_left == 0 {
                            window_closed = true;
                        } else if credit_left == 0 && cur.is_none() {
                            credit_left = cfg.credit;
                            let mut f = grant(idc.wrapping_add(deliveries_done), cfg.credit, cfg.initial_outgoing_id.wrapping_add(received_frames), window_left);
                            f.echo = echo;
                            tr!(peer.send(0, Performative::Flow(f), &[]).await);
                        }
                    }
                    Performative::Flow(f) => {
                        obs.client_flows.push((f.next_outgoing_id, received_frames));
                    }
                    Performative::Disposition(d) => {
                        obs.client_dispositions.push((d.first, d.last, d.settled));
                    }
                    Performative::Detach(d) => {
                        let reply = fe2o3_amqp_types::performatives::Detach { handle: Handle(7), closed: d.closed, error: None };
                        tr!(peer.send(0, Performative::Detach(reply), &[]).await);
                    }
                    Performative::End(_) => {
                        tr!(peer.send(0, Performative::End(fe2o3_amqp_types::performatives::End { error: None }), &[]).await);
                    }
                    Performative::Close(_) => {
                        let _ = peer.close_politely().await;
                        break;
                    }
                    _ => {}
                },
                Ok(Incoming::Empty { .. }) => {}
                Err(PeerError::Timeout) if window_closed => {
                    window_closed = false;
                    window_left = if cfg.reopen_by == 0 { cfg.peer_incoming_window } else { cfg.reopen_by.min(cfg.peer_incoming_window) };
                    let mut f = grant(idc.wrapping_add(deliveries_done), credit_left, cfg.initial_outgoing_id.wrapping_add(received_frames), window_left);
                    if credit_left == 0 && cur.is_none() {
                        credit_left = cfg.credit;
                        f.link_credit = Some(cfg.credit);
                    }
                    f.echo = echo;
                    tr!(peer.send(0, Performative::Flow(f), &[]).await);
                }
                Err(PeerError::Timeout) => {
                    if client.is_finished() {
                        break;
                    }
                    if deliveries_done as usize == total && idle_rounds < 100 {
                        // everything arrived; the application is lingering before it closes
                        idle_rounds += 1;
                        continue;
                    }
                    obs.errors.push("peer: no frame for 20 s (virtual) while the client is still running".into());
                    break;
                }
                Err(_) => break,
            }
        }
        match tokio::time::timeout(Duration::from_secs(6000), client).await {
            Ok(Ok(Ok(results))) => obs.send_results = results,
            Ok(Ok(Err(e))) => obs.errors.push(format!("client: {}", e)),
            Ok(Err(e)) => obs.errors.push(format!("client task: {:?}", e)),
            Err(_) => obs.errors.push("client did not finish".into()),
        }
        obs.trace = peer.trace_lines();
        obs
    })
}

pub fn gen_config(rng: &mut Rng, k: u64) -> Config {
    let peer_max_frame_size = *rng.pick(&[512u32, 600, 1024, 4096, 65536]);
    let peer_max_message_size = *rng.pick(&[0u64, 0, 0, 64, 100, 300, 1000]);
    let n = rng.range(1, 6) as usize;
    let body = peer_max_frame_size as usize;
    let sizes: Vec<usize> = (0..n)
        .map(|_| match rng.below(8) {
            0 => 0,
            1 => rng.range(1, 50) as usize,
            2 => body - rng.range(0, 60) as usize,
            3 => body + rng.range(0, 60) as usize,
            4 => 2 * body + rng.range(0, 40) as usize,
            5 => peer_max_message_size as usize * 2 + rng.range(0, 20) as usize,
            6 if body <= 4096 => 6 * body + rng.range(0, 40) as usize,
            _ => rng.range(0, 3 * body as u64) as usize,
        })
        .collect();
    Config {
        peer_max_frame_size,
        peer_max_message_size,
        peer_incoming_window: *rng.pick(&[1u32, 2, 3, 10, 2048]),
        credit: *rng.pick(&[1u32, 2, 5, 100]),
        snd_settle_mode: *rng.pick(&[0u8, 0, 1, 2]),
        rcv_second: rng.chance(1, 3),
        initial_outgoing_id: *rng.pick(&[0u32, 1, u32::MAX, u32::MAX - 2, 1 << 31]),
        outcomes: (0..n).map(|_| rng.below(4) as u8).collect(),
        sizes,
        disposition_batch: *rng.pick(&[1usize, 1, 2, 3]),
        linger: !rng.chance(1, 3),
        seed: k,
        reopen_by: *rng.pick(&[0u32, 0, 1, 2]),
    }
}

/// configurations kept from earlier failures (run first by every module built on `run`)
pub fn corpus() -> Vec<Config> {
    let mut out = vec![];
    if let Ok(rd) = std::fs::read_dir("/verif/corpus/e2e") {
        let mut paths: Vec<_> = rd.filter_map(|e| e.ok().map(|e| e.path())).collect();
        paths.sort();
        for p in paths {
            if let Ok(txt) = std::fs::read_to_string(&p) {
                if let Ok(j) = serde_json::from_str::<J>(&txt) {
                    if let Some(c) = j.get("config").and_then(Config::from_json) {
                        out.push(c);
                    }
                }
            }
        }
    }
    out
}
